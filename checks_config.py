"""Per-property configuration shared by ./check and gen_manifest.py (single source of truth)."""

CHECKS = {
    "C01": {
        "bin": "c01",
        "level": "exploration",
        "technique": "runtime monitoring: per-step transition-relation oracle (lifecycle automaton) over bounded-exhaustive + random order histories driven through the real Orders / EngineState",
        "rule": "history = sequence of (instrument, client order id, input) steps applied to the real order manager (unit backend) or EngineState (engine backend, 2 exchanges x 3 instruments, incl. full account snapshots); enumerated exhaustively for one order id up to the stated length and generated randomly for 2-4 interleaved ids x up to 40 steps; non-trivial = at least 3 steps and at least 2 distinct phase-changing transitions; distinct = FNV-1a hash of (backend, history)",
        "assumptions": [
            "reference transition relation written from the module docs and the property statement (DESIGN.md appendix A.1); don't-care cells are not judged",
            "in-flight snapshots carrying a zero-remaining open are not generated",
            "exchange timestamps from a 6-value set, quantities fixed at 10 with fills in {0,4,10}",
        ],
        "level_text": "Every step of every generated history is judged against an independent lifecycle automaton plus three global rules (held data was delivered, exchange time monotone, no cross-order interference). Exhaustive over all single-order histories up to length 3 (quick) / 4 (thorough) of a 25-symbol alphabet and length 5/6 of a 12-symbol core alphabet, random beyond; exploration, not proof.",
        "level_note": "Trusts the hand-written reference automaton and the abstraction of Orders entries into (phase, id, time, filled); inputs outside the generated alphabet are not covered.",
        "design_ref": "DESIGN.md section 2 C01 + appendix A.1",
        "sanitizer": ["miri"],
    },
    "C02": {
        "bin": "c02",
        "level": "exploration",
        "technique": "runtime monitoring: independent cash-flow ledger (conservation / exactly-when / per-position flows) evaluated after every fill on the real PositionManager and Engine, plus offline exact-rational re-check of the recorded log",
        "rule": "case = one generated fill sequence (1-60 fills; random / trend / alternating / accumulate-unwind sides; boosted exact closes, flips and partial reductions; tiny, normal, huge and mixed quantities; zero, proportional and arbitrary fees) applied to PositionManager::update_from_trade and, for every second sequence, also through Engine::process(Account(Trade)); non-trivial = at least 3 fills and at least 2 different transition kinds among open/increase/reduce/close/flip; distinct = FNV-1a hash of the fill list",
        "assumptions": [
            "price > 0, quantity > 0, fee >= 0 with at most 8 decimal places (fees up to 20); prices of one sequence lie within a factor 1e4 and fees <= half the notional, so that the tear-sheet *return* statistics fed by closed positions stay inside Decimal's range (a 1e15-fold price move overflows them; that panic is in the statistics, outside this statement)",
            "rounding budget eps = (n+1)*(1e-25 + 1e-23*gross_cash + 1e-26*sum_quantity) for rust_decimal's 28-digit arithmetic; exact equality is required for net quantity, emission of exit records, remainders and ids",
        ],
        "level_text": "After every fill of every sequence an independent ledger decides: open side/size == sign/|net|, exit record iff net reaches or crosses zero, closed-position PnL == that position's own cash flows (flip fill split by quantity, fee pro rata), global conservation identity, fee totals, trade-id bookkeeping, engine audit == unit path; a sample of the sequences is re-checked offline with exact rationals. Exploration over 2e4 (quick) / 4e5 (thorough) sequences.",
        "level_note": "Trusts the ledger model and the stated rounding budget; magnitudes outside the generated domain (Decimal overflow) are not covered.",
        "design_ref": "DESIGN.md section 2 C02",
        "oracle": "c02_pnl.py",
        "sanitizer": ["miri"],
    },
}
