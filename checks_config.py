"""Per-property configuration shared by ./check and gen_manifest.py (single source of truth)."""

CHECKS = {
    "C01": {
        "bin": "c01",
        "level": "exploration",
        "technique": "runtime monitoring: per-step transition-relation oracle (lifecycle automaton) over bounded-exhaustive + random order histories driven through the real Orders / EngineState",
        "rule": "history = sequence of (instrument, client order id, input) steps applied to the real order manager (unit backend) or EngineState (engine backend, 2 exchanges x 3 instruments, incl. full account snapshots); enumerated exhaustively for one order id up to the stated length and generated randomly for 2-4 interleaved ids x up to 40 steps; non-trivial = at least 3 steps and at least 2 distinct phase-changing transitions; distinct = FNV-1a hash of (backend, history)",
        "assumptions": [
            "reference transition relation written from the module docs and the property statement (DESIGN.md appendix A.1); don't-care cells are not judged",
            "in-flight snapshots carrying a zero-remaining open are not generated",
            "exchange timestamps from a 6-value set, quantities fixed at 10 with fills in {0,4,10}",
        ],
        "level_text": "Every step of every generated history is judged against an independent lifecycle automaton plus three global rules (held data was delivered, exchange time monotone, no cross-order interference). Exhaustive over all single-order histories up to length 3 (quick) / 4 (thorough) of a 25-symbol alphabet and length 5/6 of a 12-symbol core alphabet, random beyond; exploration, not proof.",
        "level_note": "Trusts the hand-written reference automaton and the abstraction of Orders entries into (phase, id, time, filled); inputs outside the generated alphabet are not covered.",
        "design_ref": "DESIGN.md section 2 C01 + appendix A.1",
        "sanitizer": ["miri"],
    },
}
