#!/usr/bin/env python3
"""Offline exact checker for C02 (position / realised-PnL conservation).

Input: JSONL written by harness/src/bin/c02.rs: one line per fill sequence
  {"fills":[{id,buy,p,q,fee}], "obs":[{"exit": null|{side,qmax,avg,pnl,fe,fx,trades}, "cur": null|{side,q,qmax,avg,pnl,fe,fx,trades}}]}
All numbers are decimal strings; everything here is exact rational arithmetic (fractions.Fraction),
so the only slack is the rounding budget of rust_decimal inside the code under test:
  eps = (n+1) * (1e-25 + 1e-23 * gross + 1e-26 * sum_q)
(a division result carries an absolute error <= max(1e-28, |x| * 1e-27); it is multiplied by a
quantity <= sum_q and by construction |avg * q| <= gross).

Rules re-checked independently of the Rust monitor:
  R1 open side/size == sign/|net signed quantity| (exact)
  R2 exit record emitted  <=>  net reaches or crosses zero (exact)
  R3 sum(exit.pnl) + open.pnl == sells - buys - fees + signed_open_qty * open.avg   (eps)
  R4 sum(fees_enter + fees_exit over all positions) == sum(fill fees)               (eps)
  R5 closed position: pnl == its own cash flows (flip fill split by quantity, fee pro rata) (eps)
  R6 entry average == volume weighted average of the position-increasing fills     ((n+1)*(|avg|*1e-24 + 1e-27*(1+1/Q)))
  R7 flip: new position quantity == remainder (exact), fees_enter == fee * remainder / qty (eps)
  R8 the fill id is recorded in exit.trades and/or cur.trades of every position it affected
"""
import json
import sys
from fractions import Fraction as F


def check_sequence(rec):
    fills, obs = rec["fills"], rec["obs"]
    net = F(0)
    cash = F(0)
    fees = F(0)
    gross = F(0)
    qsum = F(0)
    exited_pnl = F(0)
    exited_fees = F(0)
    pos_cash = F(0)
    avg_model = None
    checked = 0
    for i, (f, o) in enumerate(zip(fills, obs)):
        p, q, fee = F(f["p"]), F(f["q"]), F(f["fee"])
        buy = f["buy"]
        prev = net
        net += q if buy else -q
        notional = p * q
        cash += (-notional if buy else notional) - fee
        fees += fee
        gross += abs(notional) + abs(fee)
        qsum += q
        eps = (i + 2) * (F(1, 10**25) + F(1, 10**23) * gross + F(1, 10**26) * qsum)
        ex, cur = o["exit"], o["cur"]
        tid = "t%d" % f["id"]
        crossed = prev != 0 and (net == 0 or (net < 0) != (prev < 0))
        checked += 1
        # R1
        if cur is None:
            if net != 0:
                return ("offline_open_position_missing", f"fill #{i}: net={net} but no open position"), checked
        else:
            side = "buy" if net > 0 else "sell"
            if net == 0 or F(cur["q"]) != abs(net) or cur["side"] != side:
                return ("offline_open_position_size_or_side_wrong", f"fill #{i}: net={net} open=({cur['side']},{cur['q']})"), checked
        # R2
        if crossed != (ex is not None):
            return ("offline_exit_record_iff_cross_broken", f"fill #{i}: prev={prev} net={net} exit={'yes' if ex else 'no'}"), checked
        # per-position flows
        same_dir = prev != 0 and ((prev > 0) == buy)
        if prev == 0:
            pos_cash = (-notional if buy else notional) - fee
            avg_model = p
        elif same_dir:
            pos_cash += (-notional if buy else notional) - fee
            avg_model = (avg_model * abs(prev) + p * q) / (abs(prev) + q)
        elif not crossed or net == 0:
            pos_cash += (-notional if buy else notional) - fee
        if ex is not None:
            if net == 0:
                closing = pos_cash
            else:
                closed_q, rem_q = abs(prev), abs(net)
                closing = pos_cash + (-(p * closed_q) if buy else p * closed_q) - fee * closed_q / q
                # R7
                if F(cur["q"]) != rem_q:
                    return ("offline_flip_remainder_wrong", f"fill #{i}: new q={cur['q']} remainder={rem_q}"), checked
                if abs(F(cur["fe"]) - fee * rem_q / q) > eps:
                    return ("offline_flip_fee_share_wrong", f"fill #{i}: new fees_enter={cur['fe']} expected {float(fee * rem_q / q)}"), checked
                pos_cash = (-(p * rem_q) if buy else p * rem_q) - fee * rem_q / q
                avg_model = p
            # R5
            if abs(F(ex["pnl"]) - closing) > eps:
                return ("offline_closed_position_pnl_differs_from_cash_flows", f"fill #{i}: exit.pnl={ex['pnl']} cash flows={float(closing)} eps={float(eps)}"), checked
            exited_pnl += F(ex["pnl"])
            exited_fees += F(ex["fe"]) + F(ex["fx"])
            # R8
            if tid not in ex["trades"]:
                return ("offline_fill_id_missing_from_closed_position", f"fill #{i}: {tid} not in {ex['trades']}"), checked
            if net == 0:
                pos_cash = F(0)
                avg_model = None
        if cur is not None:
            if tid not in cur["trades"]:
                return ("offline_fill_id_missing_from_open_position", f"fill #{i}: {tid} not in {cur['trades']}"), checked
            # R6
            avg = F(cur["avg"])
            # avg is recomputed from rounded products: abs error <= ~1e-28 / Q per step (plus relative 1e-27)
            tol6 = (i + 2) * (abs(avg_model) * F(1, 10**24) + F(1, 10**27) * (1 + 1 / abs(net)))
            if abs(avg - avg_model) > tol6:
                return ("offline_entry_average_not_volume_weighted", f"fill #{i}: avg={cur['avg']} model={float(avg_model)}"), checked
        # R3
        open_pnl = F(cur["pnl"]) if cur else F(0)
        open_val = net * F(cur["avg"]) if cur else F(0)
        lhs, rhs = exited_pnl + open_pnl, cash + open_val
        if abs(lhs - rhs) > eps:
            return ("offline_realised_pnl_does_not_conserve_cash_flows", f"fill #{i}: lhs={float(lhs)} rhs={float(rhs)} diff={float(lhs - rhs)} eps={float(eps)}"), checked
        # R4
        open_fees = (F(cur["fe"]) + F(cur["fx"])) if cur else F(0)
        if abs(exited_fees + open_fees - fees) > eps:
            return ("offline_position_fees_do_not_sum_to_fill_fees", f"fill #{i}: positions={float(exited_fees + open_fees)} fills={float(fees)}"), checked
    return None, checked


def main():
    path = sys.argv[1]
    n = steps = vcount = 0
    sigs = {}
    violations = []
    try:
        fh = open(path)
    except FileNotFoundError:
        print(json.dumps({"checked": 0, "violation_count": 0, "violation_signatures": {}, "violations": [], "note": "no log"}))
        return
    for line in fh:
        line = line.strip()
        if not line:
            continue
        rec = json.loads(line)
        n += 1
        bad, c = check_sequence(rec)
        steps += c
        if bad:
            vcount += 1
            sigs[bad[0]] = sigs.get(bad[0], 0) + 1
            if len(violations) < 10:
                violations.append({"signature": bad[0], "detail": bad[1], "history": {"engine": True, "fills": rec["fills"]}})
    print(json.dumps({"checked": n, "steps_checked": steps, "violation_count": vcount, "violation_signatures": sigs, "violations": violations}))


if __name__ == "__main__":
    main()
