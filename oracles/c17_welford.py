#!/usr/bin/env python3
"""C17 offline exact checker.

Input: the JSONL log written by `c17 --log FILE`; one line per run:
  {"id", "group", "class", "values": [decimal strings in arrival order],
   "obs": [{"k", "count", "sum", "mean", "variance", "std_dev", "high", "low", "range"}, ...]}
`obs[j]` holds the public fields of the real DataSetSummary observed after the first k updates
(the last entry is the final summary; "panic" holds the message if an update panicked, which is a
violation: the workload stays inside the magnitude bounds). Runs of one "group" are permutations of
one multiset.

Everything is recomputed in exact rational arithmetic (integers over the common denominator
10^28, fractions.Fraction for the comparisons): exact sum, mean, population variance, max, min,
range of every observed prefix; std_dev is judged through std_dev^2 ~ variance.

Tolerances (u = 1e-28, X = max|x| of the prefix, k = prefix length) are the rounding budget of the
one-pass algorithm in 96-bit decimal arithmetic where every operation with result r is off by at
most eps(r) = 2u(1+|r|) (>= 1.5 units in the last place; derivation in the header of c17.rs):
  sum       2u k (1 + kX)
  mean      5u (k+1) (1+X)
  variance  u (1+X)^2 (12k + 100)
  range()   2u (1 + 2X)
  std_dev   |std_dev^2 - variance| <= 24u (1+std_dev)^2
Exact (no tolerance): count, high, low, variance >= 0, low <= mean <= high, std_dev >= 0.
Order-free quantities of the final summaries of a group must agree: count/high/low exactly,
sum/mean/variance/std_dev^2 within twice the tolerance above.

Prints one JSON object on stdout and exits 0.
"""
import json
import sys
from fractions import Fraction

S = 10 ** 28
U = Fraction(1, S)
MAX_KEPT = 40


def to_int28(s):
    """decimal string (no exponent, scale <= 28) -> integer numerator over 10^28 (exact)."""
    neg = s.startswith("-")
    if neg:
        s = s[1:]
    if "." in s:
        a, b = s.split(".", 1)
    else:
        a, b = s, ""
    if len(b) > 28 or "e" in s or "E" in s:
        raise ValueError("unexpected decimal string " + s)
    n = int(a or "0") * S + (int(b) * 10 ** (28 - len(b)) if b else 0)
    return -n if neg else n


def F(s):
    return Fraction(to_int28(s), S)


def tol_sum(k, X):
    return 2 * U * k * (1 + k * X)


def tol_mean(k, X):
    return 5 * U * (k + 1) * (1 + X)


def tol_var(k, X):
    return U * (1 + X) ** 2 * (12 * k + 100)


def tol_range(X):
    return 2 * U * (1 + 2 * X)


def tol_sd2(sd):
    return 24 * U * (1 + sd) ** 2


class Out:
    def __init__(self):
        self.checked = 0
        self.count = 0
        self.sigs = {}
        self.kept = []
        self.max_ratio = {"sum": Fraction(0), "mean": Fraction(0), "variance": Fraction(0), "std_dev": Fraction(0)}

    def violation(self, sig, detail, history):
        self.count += 1
        self.sigs[sig] = self.sigs.get(sig, 0) + 1
        same = sum(1 for v in self.kept if v["signature"] == sig)
        if len(self.kept) < MAX_KEPT and same < 5:
            self.kept.append({"signature": sig, "detail": detail, "history": history})

    def ratio(self, key, err, tol):
        r = err / tol
        if r > self.max_ratio[key]:
            self.max_ratio[key] = r


def check_run(rec, out):
    """returns (final observation as exact values, X) or None"""
    vals = [to_int28(s) for s in rec["values"]]
    n = len(vals)
    wanted = {int(o["k"]): o for o in rec["obs"]}
    s1 = 0  # sum of x * 10^28
    s2 = 0  # sum of x^2 * 10^56
    hi = lo = None
    xabs = 0
    final = None
    for i, x in enumerate(vals):
        k = i + 1
        s1 += x
        s2 += x * x
        hi = x if hi is None or x > hi else hi
        lo = x if lo is None or x < lo else lo
        ax = -x if x < 0 else x
        if ax > xabs:
            xabs = ax
        o = wanted.get(k)
        if o is None:
            continue
        out.checked += 1
        X = Fraction(xabs, S)
        hist = {"class": rec.get("class"), "values": rec["values"][:k]}

        def bad(sig, msg):
            out.violation(sig, "run %s after %d updates: %s" % (rec.get("id"), k, msg), hist)

        count = F(o["count"])
        osum, mean, var, sd = F(o["sum"]), F(o["mean"]), F(o["variance"]), F(o["std_dev"])
        ohi, olo, orange = F(o["high"]), F(o["low"]), F(o["range"])

        if count != k:
            bad("count_mismatch", "count=%s expected %d" % (o["count"], k))
        e_sum = Fraction(s1, S)
        t = tol_sum(k, X)
        if abs(osum - e_sum) > t:
            bad("sum_mismatch", "sum=%s exact %s" % (o["sum"], float(e_sum)))
        out.ratio("sum", abs(osum - e_sum), t)

        e_mean = Fraction(s1, S * k)
        t = tol_mean(k, X)
        err = abs(mean - e_mean)
        if err > t:
            bad("mean_mismatch", "mean=%s exact mean %.30g |diff| %.3e > tol %.3e" % (o["mean"], float(e_mean), float(err), float(t)))
        out.ratio("mean", err, t)

        # population variance = (k*sum(x^2) - (sum x)^2) / k^2
        e_var = Fraction(k * s2 - s1 * s1, k * k * S * S)
        t = tol_var(k, X)
        err = abs(var - e_var)
        if err > t:
            bad("variance_mismatch", "variance=%s exact population variance %.30g |diff| %.3e > tol %.3e" % (o["variance"], float(e_var), float(err), float(t)))
        out.ratio("variance", err, t)
        if var < 0:
            bad("variance_negative", "variance=%s" % o["variance"])

        t = tol_sd2(abs(sd))
        err = abs(sd * sd - abs(var))
        if sd < 0 or err > t:
            bad("std_dev_mismatch", "std_dev=%s squared differs from variance=%s by %.3e > tol %.3e" % (o["std_dev"], o["variance"], float(err), float(t)))
        out.ratio("std_dev", err, t)

        if ohi != Fraction(hi, S) or olo != Fraction(lo, S):
            bad("range_mismatch", "range=[%s, %s] exact [%s, %s]" % (o["low"], o["high"], Fraction(lo, S), Fraction(hi, S)))
        if abs(orange - Fraction(hi - lo, S)) > tol_range(X):
            bad("range_mismatch", "range()=%s exact %s" % (o["range"], float(Fraction(hi - lo, S))))
        if mean < Fraction(lo, S) or mean > Fraction(hi, S):
            bad("mean_outside_range", "mean=%s outside [%s, %s]" % (o["mean"], float(Fraction(lo, S)), float(Fraction(hi, S))))

        if k == n:
            final = {"count": count, "sum": osum, "mean": mean, "var": var, "sd": sd, "hi": ohi, "lo": olo, "n": n,
                     "X": X, "values": rec["values"], "class": rec.get("class"), "multiset": sorted(vals)}
    if rec.get("panic"):
        out.violation("panic_in_dataset_update", "run %s: %s" % (rec.get("id"), rec["panic"]), {"class": rec.get("class"), "values": rec["values"]})
    elif final is None and n > 0:
        out.violation("log_incomplete", "run %s has no final observation" % rec.get("id"), {"values": rec["values"]})
    return final


def compare(a, b, out):
    out.checked += 1
    if a["multiset"] != b["multiset"]:
        return  # not permutations of each other (should not happen); nothing to say
    n, X = a["n"], a["X"]
    hist = {"class": a["class"], "values": a["values"], "perm": b["values"]}

    def bad(what, x, y):
        out.violation("order_dependence", "%s depends on arrival order: %s vs %s (n=%d)" % (what, float(x), float(y), n), hist)

    if a["count"] != b["count"]:
        bad("count", a["count"], b["count"])
    if a["hi"] != b["hi"]:
        bad("range.high", a["hi"], b["hi"])
    if a["lo"] != b["lo"]:
        bad("range.low", a["lo"], b["lo"])
    if abs(a["sum"] - b["sum"]) > 2 * tol_sum(n, X):
        bad("sum", a["sum"], b["sum"])
    if abs(a["mean"] - b["mean"]) > 2 * tol_mean(n, X):
        bad("mean", a["mean"], b["mean"])
    if abs(a["var"] - b["var"]) > 2 * tol_var(n, X):
        bad("variance", a["var"], b["var"])
    if abs(a["sd"] ** 2 - b["sd"] ** 2) > 2 * tol_var(n, X) + tol_sd2(abs(a["sd"])) + tol_sd2(abs(b["sd"])):
        bad("std_dev (squared)", a["sd"] ** 2, b["sd"] ** 2)


def main():
    out = Out()
    groups = {}
    runs = 0
    with open(sys.argv[1]) as f:
        for line in f:
            line = line.strip()
            if not line:
                continue
            rec = json.loads(line)
            runs += 1
            final = check_run(rec, out)
            if final is not None:
                g = groups.setdefault(rec.get("group"), [])
                if g:
                    compare(g[0], final, out)
                    g.append(None)  # only the first is needed for comparisons
                else:
                    g.append(final)
    print(json.dumps({
        "checked": out.checked,
        "runs": runs,
        "groups": len(groups),
        "violation_count": out.count,
        "violation_signatures": out.sigs,
        "violations": out.kept,
        "max_err_over_tol": {k: float(v) for k, v in out.max_ratio.items()},
    }))
    return 0


if __name__ == "__main__":
    sys.exit(main())
