#!/usr/bin/env python3
"""C18 offline exact checker.

Input: the JSONL log written by `c18 --log FILE`; one line per run of one curve through one entry
point of the real code:
  {"id", "class", "path": "direct|direct_init|asset_init|asset_default|position",
   "points":  [[t_ms, "value"], ...],
   "emitted": [[i, ["depth", start_ms, end_ms]], ...] | null   (return values of DrawdownGenerator::update,
                                                                direct paths only; i = index of the point)
   "changes": [{"i", "current", "max", "mean"}, ...]  observation after point i, written whenever it
              differs from the observation after point i-1 (current = DrawdownGenerator::generate on a
              copy; max / mean = generate() of the Max/Mean generators; drawdown = ["depth", start, end],
              mean = ["mean depth", mean_ms]; null = None)
   "observed_steps": number of points after which an observation exists (< len(points) only after a panic)
   "final":   {"current", "max", "mean"}  the outputs of the single end-of-curve generate (null after a panic),
   "panic":   null | [signature, message]  a panic of the code under test (a violation: curves are in-domain)}

Everything is re-derived from `points` alone in exact rational arithmetic (fractions.Fraction):
running maxima (strictly higher points), trough since the maximum, completed drawdown
(peak-trough)/peak due at the first strictly higher point with start = time of the maximum and end =
time of that point (only if a value below the maximum was seen), the open decline as the current
drawdown (end = time of the latest point), max = a largest member of the reported set (ties: any),
mean = exact average depth / average duration of the reported set; at the final generate the open
decline joins the set.

Tolerances (u = 1e-28): depth (one rounded Decimal division) 2u(1+depth); mean depth (one-pass
Decimal mean over k depths <= X, inputs already rounded) 8u(1+X)(k+2); mean duration (integer
one-pass mean truncating at every step) |mean*k - sum| <= k(k+1)/2 ms, i.e. (k+1)/2 ms on the mean.
Times and presence/absence are exact.

Prints one JSON object on stdout and exits 0.
"""
import json
import sys
from fractions import Fraction

U = Fraction(1, 10 ** 28)
MAX_KEPT = 40


def frac(s):
    return Fraction(s)


def tol_depth(x):
    return 2 * U * (1 + abs(x))


def tol_mean_depth(k, x):
    return 8 * U * (1 + abs(x)) * (k + 2)


class Out:
    def __init__(self):
        self.checked = 0
        self.count = 0
        self.sigs = {}
        self.kept = []

    def violation(self, sig, detail, history):
        self.count += 1
        self.sigs[sig] = self.sigs.get(sig, 0) + 1
        same = sum(1 for v in self.kept if v["signature"] == sig)
        if len(self.kept) < MAX_KEPT and same < 5:
            self.kept.append({"signature": sig, "detail": detail, "history": history})


class Model:
    def __init__(self):
        self.peak = None
        self.t_peak = None
        self.trough = None
        self.last_t = None
        self.set = []  # (depth, start, end)
        self.sum_depth = Fraction(0)
        self.sum_dur = 0
        self.max_depth = Fraction(0)

    def step(self, t, v):
        self.last_t = t
        if self.peak is None:
            self.peak, self.t_peak = v, t
            return None
        if v > self.peak:
            done = None
            if self.trough is not None:
                done = ((self.peak - self.trough) / self.peak, self.t_peak, t)
                self.push(done)
            self.peak, self.t_peak, self.trough = v, t, None
            return done
        if v < self.peak and (self.trough is None or v < self.trough):
            self.trough = v
        return None

    def push(self, dd):
        self.set.append(dd)
        self.sum_depth += dd[0]
        self.sum_dur += dd[2] - dd[1]
        if dd[0] > self.max_depth:
            self.max_depth = dd[0]

    def current(self):
        if self.peak is None or self.trough is None:
            return None
        return ((self.peak - self.trough) / self.peak, self.t_peak, self.last_t)


def parse_dd(x):
    return None if x is None else (frac(x[0]), int(x[1]), int(x[2]), x[0])


def judge_dd(what, exp, obs):
    """returns (signature, message) or None"""
    completed = what == "completed"
    if exp is None and obs is None:
        return None
    if obs is None:
        return ("completed_drawdown_not_reported" if completed else "current_drawdown_not_reported",
                "%s drawdown expected depth %.12g [%d, %d] ms, nothing reported" % (what, float(exp[0]), exp[1], exp[2]))
    if exp is None:
        return ("spurious_completed_drawdown" if completed else "spurious_current_drawdown",
                "no %s drawdown exists at this point but depth %s [%d, %d] ms was reported" % (what, obs[3], obs[1], obs[2]))
    if abs(exp[0] - obs[0]) > tol_depth(exp[0]):
        return ("drawdown_value_mismatch" if completed else "current_drawdown_value_mismatch",
                "%s drawdown depth %s, exact (peak-trough)/peak = %.30g" % (what, obs[3], float(exp[0])))
    if exp[1] != obs[1]:
        return ("drawdown_start_mismatch" if completed else "current_drawdown_start_mismatch",
                "%s drawdown starts at %d ms, the running maximum was set at %d ms" % (what, obs[1], exp[1]))
    if exp[2] != obs[2]:
        return ("drawdown_end_mismatch" if completed else "current_drawdown_end_mismatch",
                "%s drawdown ends at %d ms, expected %d ms" % (what, obs[2], exp[2]))
    return None


def judge_aggregates(model, extra, obs_max, obs_mean):
    members = model.set if extra is None else model.set + [extra]
    k = len(members)
    if k == 0:
        if obs_max is not None:
            return ("max_drawdown_mismatch", "no drawdown reported yet but max drawdown is %s" % (obs_max[3],))
        if obs_mean is not None:
            return ("mean_drawdown_mismatch", "no drawdown reported yet but mean drawdown is %s" % (obs_mean,))
        return None
    sum_depth, sum_dur, max_depth = model.sum_depth, model.sum_dur, model.max_depth
    if extra is not None:
        sum_depth += extra[0]
        sum_dur += extra[2] - extra[1]
        max_depth = max(max_depth, extra[0])
    if obs_max is None:
        return ("max_drawdown_mismatch", "%d drawdowns reported but max drawdown is None" % k)
    tol = tol_depth(max_depth)
    ok = False
    for e in members:
        if e[1] == obs_max[1] and e[2] == obs_max[2] and abs(e[0] - obs_max[0]) <= tol and e[0] >= max_depth - 2 * tol:
            ok = True
            break
    if not ok:
        return ("max_drawdown_mismatch", "max drawdown depth %s [%d, %d] ms is not a largest member (largest depth %.30g) of the %d reported drawdowns"
                % (obs_max[3], obs_max[1], obs_max[2], float(max_depth), k))
    if obs_mean is None:
        return ("mean_drawdown_mismatch", "%d drawdowns reported but mean drawdown is None" % k)
    m_depth, m_ms = frac(obs_mean[0]), int(obs_mean[1])
    avg = sum_depth / k
    if abs(avg - m_depth) > tol_mean_depth(k, max_depth):
        return ("mean_drawdown_depth_mismatch", "mean drawdown depth %s but the %d reported drawdowns average %.30g" % (obs_mean[0], k, float(avg)))
    if abs(m_ms * k - sum_dur) * 2 > k * (k + 1):
        return ("mean_drawdown_duration_mismatch", "mean drawdown duration %d ms but the %d reported drawdowns last %d ms in total (exact mean %.3f ms, tolerance %.1f ms)"
                % (m_ms, k, sum_dur, sum_dur / k, (k + 1) / 2))
    return None


def check_run(rec, out):
    points = [(int(p[0]), frac(p[1])) for p in rec["points"]]
    if not points or points[0][1] <= 0:
        return  # outside the domain (positive first maximum); never generated
    if rec.get("panic"):
        out.violation(rec["panic"][0], "run %s: %s" % (rec.get("id"), rec["panic"][1]), {"path": rec["path"], "class": rec.get("class"), "points": rec["points"]})
    direct = rec.get("emitted") is not None
    emitted = {int(e[0]): parse_dd(e[1]) for e in (rec.get("emitted") or [])}
    changes = {int(c["i"]): c for c in rec["changes"]}
    n_obs = int(rec.get("observed_steps", len(points)))
    resets = set(int(i) for i in (rec.get("resets") or []))  # points handed over by `reset`: a new session starts there
    model = Model()
    cur_obs = max_obs = mean_obs = None
    agg_key = None

    def bad(i, v):
        out.violation(v[0], "run %s %s point #%s: %s" % (rec.get("id"), "after" if i is not None else "at the final generate,", i, v[1]),
                      {"path": rec["path"], "class": rec.get("class"), "points": rec["points"] if i is None else rec["points"][: i + 1]})

    for i, (t, v) in enumerate(points):
        if i in resets:
            model = Model()
            agg_key = None
        exp = model.step(t, v)
        if direct:
            out.checked += 1
            r = judge_dd("completed", exp, emitted.get(i))
            if r:
                bad(i, r)
                return
        if i >= n_obs:
            return  # the run panicked here (already reported)
        c = changes.get(i)
        if c is not None:
            cur_obs, max_obs, mean_obs = parse_dd(c["current"]), parse_dd(c["max"]), c["mean"]
        elif i == 0:
            out.violation("log_incomplete", "run %s has no observation after the first point" % rec.get("id"), {"path": rec["path"], "points": rec["points"]})
            return
        out.checked += 1
        r = judge_dd("current", model.current(), cur_obs)
        if r:
            bad(i, r)
            return
        key = (len(model.set), None if max_obs is None else max_obs[1:], None if mean_obs is None else tuple(mean_obs))
        out.checked += 1
        if key != agg_key:  # same reported set and same observation as at the previous point: same verdict
            r = judge_aggregates(model, None, max_obs, mean_obs)
            if r:
                bad(i, r)
                return
            agg_key = key
    fin = rec.get("final")
    if fin is None:
        return  # the run panicked (already reported)
    cur = model.current()
    out.checked += 2
    r = judge_dd("current", cur, parse_dd(fin["current"])) or judge_aggregates(model, cur, parse_dd(fin["max"]), fin["mean"])
    if r:
        bad(None, r)


def main():
    out = Out()
    runs = 0
    with open(sys.argv[1]) as f:
        for line in f:
            line = line.strip()
            if not line:
                continue
            runs += 1
            check_run(json.loads(line), out)
    print(json.dumps({
        "checked": out.checked,
        "runs": runs,
        "violation_count": out.count,
        "violation_signatures": out.sigs,
        "violations": out.kept,
    }))
    return 0


if __name__ == "__main__":
    sys.exit(main())
