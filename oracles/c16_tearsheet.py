#!/usr/bin/env python3
"""Offline exact checker for C16 (tear-sheet PnL / win rate / profit factor).

Input: JSONL written by harness/src/bin/c16.rs, one line per (case, instrument):
  {"engine": bool, "instr": i, "exits": [{"pnl","avg","qmax"}], "sheet": {"pnl","win_rate","profit_factor"}}
Exact rational arithmetic; return_i = pnl_i / (avg_i * qmax_i) (documented).
  R1 sheet.pnl == sum(pnl_i)                                   (|diff| <= 1e-20 * (1 + |sum|))
  R2 win_rate  == #(return_i >= 0) / n ; None when n == 0      (|diff| <= 1e-20)
  R3 profit_factor == sum(winning returns) / |sum(losing returns)| with the conventions
     None (no wins and no losses) / Decimal::MAX (no losses) / Decimal::MIN (no wins)   (relative 1e-18
     plus the rounding budget of 28-digit returns, which a tiny gross loss in the denominator magnifies)
A case that contains a non-zero return below 1e-24 in magnitude is not judged on R2/R3 (the
Decimal quotient may underflow to zero and the statement does not say how that is classified).
"""
import json
import sys
from fractions import Fraction as F

DEC_MAX = F(79228162514264337593543950335)


def rounding_budget(wins, losses, gw, gl, want):
    """What 28-digit Decimal arithmetic may legitimately lose against exact rationals: every return is a Decimal
    quotient (absolute error up to 1e-27 * max(1, |r|)), the errors add up in the two gross sums, and a tiny gross
    loss in the denominator magnifies them: |gw'/gl' - gw/gl| <= (E_w + |gw/gl| * E_l) / (gl - E_l)."""
    unit = F(1, 10**27)
    e_w = sum((unit * max(1, abs(r)) for r in wins), F(0))
    e_l = sum((unit * max(1, abs(r)) for r in losses), F(0))
    if gl <= 2 * e_l:
        return abs(want)  # the gross loss is itself within rounding of zero: the ratio carries no digits
    return 2 * (e_w + abs(want) * e_l) / (gl - e_l) + unit * abs(want)


def check(rec):
    exits, sheet = rec["exits"], rec["sheet"]
    who = f"instr {rec['instr']} ({'engine summary' if rec['engine'] else 'generator'})"
    pnls = [F(x["pnl"]) for x in exits]
    total = sum(pnls, F(0))
    if abs(F(sheet["pnl"]) - total) > F(1, 10**20) * (1 + abs(total)):
        return ("offline_tear_sheet_pnl_differs_from_sum_of_realised_pnl", f"{who}: sheet.pnl={sheet['pnl']} exact sum={float(total)}")
    rets = [p / (F(x["avg"]) * F(x["qmax"])) for p, x in zip(pnls, exits)]
    if any(r != 0 and abs(r) < F(1, 10**24) for r in rets):
        return None
    n = len(rets)
    wins = [r for r in rets if r >= 0]
    losses = [r for r in rets if r < 0]
    wr = sheet["win_rate"]
    if n == 0:
        if wr is not None:
            return ("offline_win_rate_convention_wrong", f"{who}: win_rate={wr} with no closed positions")
    else:
        if wr is None or abs(F(wr) - F(len(wins), n)) > F(1, 10**20):
            return ("offline_win_rate_is_not_fraction_of_non_negative_returns", f"{who}: win_rate={wr} expected {len(wins)}/{n}")
    gw, gl = sum(wins, F(0)), -sum(losses, F(0))
    pf = sheet["profit_factor"]
    if gw == 0 and gl == 0:
        want = None
    elif gl == 0:
        want = DEC_MAX
    elif gw == 0:
        want = -DEC_MAX
    else:
        want = gw / gl
    if want is None:
        if pf is not None:
            return ("offline_profit_factor_convention_wrong", f"{who}: profit_factor={pf} expected None")
    else:
        if pf is None:
            return ("offline_profit_factor_convention_wrong", f"{who}: profit_factor=None expected {float(want)}")
        got = F(pf)
        if abs(want) == DEC_MAX:
            if got != want:
                return ("offline_profit_factor_convention_wrong", f"{who}: profit_factor={pf} expected {'MAX' if want > 0 else 'MIN'}")
        elif abs(got - want) > F(1, 10**18) * (1 + abs(want)) + rounding_budget(wins, losses, gw, gl, want):
            return ("offline_profit_factor_is_not_gross_wins_over_gross_losses", f"{who}: profit_factor={pf} expected {float(want)} (wins {float(gw)} losses {float(gl)})")
    return None


def main():
    n = vcount = 0
    sigs, violations = {}, []
    try:
        fh = open(sys.argv[1])
    except FileNotFoundError:
        print(json.dumps({"checked": 0, "violation_count": 0, "violation_signatures": {}, "violations": [], "note": "no log"}))
        return
    for line in fh:
        line = line.strip()
        if not line:
            continue
        rec = json.loads(line)
        n += 1
        bad = check(rec)
        if bad:
            vcount += 1
            sigs[bad[0]] = sigs.get(bad[0], 0) + 1
            if len(violations) < 10:
                violations.append({"signature": bad[0], "detail": bad[1], "history": {"engine": rec["engine"], "instr": rec["instr"], "exits": rec["exits"], "sheet": rec["sheet"]}})
    print(json.dumps({"checked": n, "violation_count": vcount, "violation_signatures": sigs, "violations": violations}))


if __name__ == "__main__":
    main()
