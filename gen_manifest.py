#!/usr/bin/env python3
"""Regenerate MANIFEST.json from checks_config.py (keeps the two in sync)."""
import json
import sys
from pathlib import Path

ROOT = Path(__file__).resolve().parent
sys.path.insert(0, str(ROOT))
from checks_config import CHECKS  # noqa: E402

ALL = [json.loads(l)["id"] for l in (ROOT / "properties.jsonl").read_text().splitlines() if l.strip()]

NOT_APPLICABLE = {
    # property id -> reason (only properties without a registered check)
}

hooks_file = ROOT / "hooks_commits.json"
hook_commits = json.loads(hooks_file.read_text()) if hooks_file.exists() else []

manifest = {
    "version": 1,
    "setup_cmd": "./check --build",
    "hooks": {
        "guard": "barter_rs_barter_rs_verif",
        "enable": "no hooks are needed: every observation point is public API; the checks build /repo's crates by path dependency from /verif/harness (RUSTFLAGS --cfg barter_rs_barter_rs_verif is reserved and unused)",
        "baseline_off_cmd": "cd /repo && CARGO_INCREMENTAL=0 cargo nextest run --workspace --lib --tests --no-fail-fast --test-threads 8 --offline",
        "source_commits": hook_commits,
        "add_only": True,
    },
    "engines": [
        {
            "name": "vharness",
            "path": "harness",
            "serves_properties": sorted(CHECKS.keys()),
            "kind_free_text": "Rust harness crate (own workspace, path deps on /repo crates): one binary per property drives the real code with generated hostile histories and judges every step with an independent oracle; ./check wraps build, run, offline exact oracles (python fractions), known-findings matching, evidence and verdict",
        }
    ],
    "checks": [],
    "not_applicable": [],
    "notes": "Verdicts are three-valued: exit 0 held / exit 1 VIOLATION / exit 2 INCONCLUSIVE (never a violation). Seeds via VERIF_SEED. Replays under /verif/replays/<id>/.",
}

for pid in ALL:
    if pid in CHECKS:
        c = CHECKS[pid]
        manifest["checks"].append(
            {
                "property_id": pid,
                "quick_cmd": f"./check {pid} quick",
                "thorough_cmd": f"./check {pid} thorough",
                "evidence_file": f"evidence/{pid}.json",
                "replay_cmd_template": f"./check {pid} --replay {{path}}",
                "engine": "vharness",
                "level_claimed": {"category": c.get("level", "exploration"), "text": c["level_text"], "design_ref": c.get("design_ref", "DESIGN.md")},
                "level_note": c["level_note"],
                "technique": c["technique"],
            }
        )
    else:
        manifest["not_applicable"].append(
            {"property_id": pid, "reason": NOT_APPLICABLE.get(pid, "check not built yet (work in progress); no claim is made for this property at this commit")}
        )

(ROOT / "MANIFEST.json").write_text(json.dumps(manifest, indent=1) + "\n")
print(f"MANIFEST.json: {len(manifest['checks'])} checks, {len(manifest['not_applicable'])} not claimed")
