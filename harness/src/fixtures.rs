//! Test doubles and builders shared by the engine-level properties: deterministic clock,
//! scripted strategy / risk manager, recording + fault-injecting execution transmitter, event
//! constructors. Nothing here re-implements barter logic; these are the *environment* of the
//! code under test.

use barter::{
    EngineEvent,
    engine::{
        Engine, Processor,
        clock::EngineClock,
        execution_tx::MultiExchangeTxMap,
        state::{
            EngineState,
            global::DefaultGlobalData,
            instrument::{
                data::{DefaultInstrumentMarketData, InstrumentDataState},
                filter::InstrumentFilter,
            },
            trading::TradingState,
        },
    },
    execution::{AccountStreamEvent, request::ExecutionRequest},
    risk::{RiskApproved, RiskManager, RiskRefused},
    strategy::{
        algo::AlgoStrategy,
        close_positions::{ClosePositionsStrategy, close_open_positions_with_market_orders},
        on_disconnect::OnDisconnectStrategy,
        on_trading_disabled::OnTradingDisabled,
    },
};
use barter_data::{
    books::Level,
    event::{DataKind, MarketEvent},
    streams::consumer::MarketStreamEvent,
    subscription::{book::OrderBookL1, trade::PublicTrade},
};
use barter_execution::{
    AccountEvent, AccountEventKind,
    balance::{AssetBalance, Balance},
    order::{
        Order, OrderKey, OrderKind, TimeInForce,
        id::{ClientOrderId, OrderId, StrategyId},
        request::{OrderRequestCancel, OrderRequestOpen, OrderResponseCancel, RequestCancel, RequestOpen},
        state::{ActiveOrderState, Cancelled, OrderState},
    },
    trade::{AssetFees, Trade, TradeId},
};
use barter_instrument::{
    Side, Underlying,
    asset::{Asset, AssetIndex},
    exchange::{ExchangeId, ExchangeIndex},
    index::IndexedInstruments,
    instrument::{
        Instrument, InstrumentIndex,
        kind::{InstrumentKind, perpetual::PerpetualContract},
        quote::InstrumentQuoteAsset,
    },
};
use barter_integration::{Unrecoverable, channel::Tx, snapshot::Snapshot};
use chrono::{DateTime, TimeZone, Utc};
use rust_decimal::Decimal;
use std::{
    collections::VecDeque,
    sync::{
        Arc, Mutex,
        atomic::{AtomicU64, Ordering},
    },
};

pub type DefState = EngineState<DefaultGlobalData, DefaultInstrumentMarketData>;

/// Base instant of all generated timestamps; `t(ms)` = base + ms.
pub fn t0() -> DateTime<Utc> {
    Utc.with_ymd_and_hms(2024, 1, 1, 0, 0, 0).unwrap()
}

pub fn t(ms: i64) -> DateTime<Utc> {
    t0() + chrono::TimeDelta::milliseconds(ms)
}

pub fn ms_of(time: DateTime<Utc>) -> i64 {
    (time - t0()).num_milliseconds()
}

/// Exchanges used by multi-exchange configurations (sorted order is *not* this order).
pub const EXCHANGES: [ExchangeId; 6] = [
    ExchangeId::Okx,
    ExchangeId::BinanceSpot,
    ExchangeId::Kraken,
    ExchangeId::Coinbase,
    ExchangeId::BybitSpot,
    ExchangeId::Bitfinex,
];

pub fn spot(exchange: ExchangeId, base: &str, quote: &str) -> Instrument<ExchangeId, Asset> {
    let name_exchange = format!("{}{}", base.to_uppercase(), quote.to_uppercase());
    Instrument::spot(
        exchange,
        format!("{}-{}_{}", exchange.as_str(), base, quote),
        name_exchange,
        Underlying::new(Asset::new(base, base.to_uppercase()), Asset::new(quote, quote.to_uppercase())),
        None,
    )
}

pub fn perp(exchange: ExchangeId, base: &str, quote: &str, settle: &str) -> Instrument<ExchangeId, Asset> {
    let name_exchange = format!("{}{}-PERP", base.to_uppercase(), quote.to_uppercase());
    Instrument::new(
        exchange,
        format!("{}-{}_{}_perp", exchange.as_str(), base, quote),
        name_exchange,
        Underlying::new(Asset::new(base, base.to_uppercase()), Asset::new(quote, quote.to_uppercase())),
        InstrumentQuoteAsset::UnderlyingQuote,
        InstrumentKind::Perpetual(PerpetualContract {
            contract_size: Decimal::ONE,
            settlement_asset: Asset::new(settle, settle.to_uppercase()),
        }),
        None,
    )
}

// ------------------------------------------------------------------------------------------------
// Clock

/// Deterministic engine clock: reports the greatest exchange timestamp seen so far (never wall
/// time), so audits and summaries are reproducible.
#[derive(Debug, Clone)]
pub struct TestClock {
    pub now: Arc<Mutex<DateTime<Utc>>>,
    /// event-time clock: the engine's time IS the time of the last time-stamped event, also when that is earlier
    /// than the one before (late events; the stock `HistoricalClock` goes back too, by processing-time jitter, for
    /// events of equal time)
    pub follows_events: bool,
}

impl TestClock {
    pub fn new(start: DateTime<Utc>) -> Self {
        Self { now: Arc::new(Mutex::new(start)), follows_events: false }
    }
    pub fn following_events(start: DateTime<Utc>) -> Self {
        Self { now: Arc::new(Mutex::new(start)), follows_events: true }
    }
}

impl EngineClock for TestClock {
    fn time(&self) -> DateTime<Utc> {
        *self.now.lock().unwrap()
    }
}

impl<K: std::fmt::Debug> Processor<&EngineEvent<K>> for TestClock {
    type Audit = ();
    fn process(&mut self, event: &EngineEvent<K>) -> Self::Audit {
        use barter::engine::clock::TimeExchange;
        if let Some(time) = event.time_exchange() {
            let mut now = self.now.lock().unwrap();
            if time > *now || self.follows_events {
                *now = time;
            }
        }
    }
}

// ------------------------------------------------------------------------------------------------
// Execution transmitter double

#[derive(Debug, Clone, Copy, PartialEq, Eq, Hash, PartialOrd, Ord)]
pub enum TxMode {
    /// forwards to the recording queue
    Healthy,
    /// behaves like a channel whose receiver was dropped: unrecoverable error, nothing delivered
    Closed,
    /// transient failure: recoverable error, nothing delivered
    Recoverable,
}

#[derive(Debug, Clone)]
pub struct TxError {
    pub unrecoverable: bool,
}

impl Unrecoverable for TxError {
    fn is_unrecoverable(&self) -> bool {
        self.unrecoverable
    }
}

/// Implements barter's `Tx` for `ExecutionRequest`: records what was *delivered* and injects the
/// scripted fault. The queue is the ground truth of "delivered to the link of that exchange".
#[derive(Debug, Clone)]
pub struct RecTx {
    pub mode: Arc<Mutex<TxMode>>,
    pub delivered: Arc<Mutex<Vec<ExecutionRequest>>>,
    pub attempts: Arc<AtomicU64>,
}

impl RecTx {
    pub fn new(mode: TxMode) -> Self {
        Self {
            mode: Arc::new(Mutex::new(mode)),
            delivered: Arc::new(Mutex::new(Vec::new())),
            attempts: Arc::new(AtomicU64::new(0)),
        }
    }

    pub fn set_mode(&self, mode: TxMode) {
        *self.mode.lock().unwrap() = mode;
    }

    pub fn drain(&self) -> Vec<ExecutionRequest> {
        std::mem::take(&mut *self.delivered.lock().unwrap())
    }
}

impl Tx for RecTx {
    type Item = ExecutionRequest;
    type Error = TxError;

    fn send<Item: Into<Self::Item>>(&self, item: Item) -> Result<(), Self::Error> {
        self.attempts.fetch_add(1, Ordering::Relaxed);
        match *self.mode.lock().unwrap() {
            TxMode::Healthy => {
                self.delivered.lock().unwrap().push(item.into());
                Ok(())
            }
            TxMode::Closed => Err(TxError { unrecoverable: true }),
            TxMode::Recoverable => Err(TxError { unrecoverable: false }),
        }
    }
}

// ------------------------------------------------------------------------------------------------
// Scripted strategy + risk manager

pub type AlgoBatch = (Vec<OrderRequestCancel>, Vec<OrderRequestOpen>);

/// Strategy whose algo output is a queue of pre-scripted batches (one popped per call) and whose
/// disconnect / disabled callbacks are counted. Generic over the engine state type so it can be
/// used with custom instrument data.
#[derive(Debug)]
pub struct ScriptStrategy<State> {
    pub id: StrategyId,
    pub queue: Arc<Mutex<VecDeque<AlgoBatch>>>,
    pub algo_calls: Arc<AtomicU64>,
    pub disconnects: Arc<Mutex<Vec<ExchangeId>>>,
    pub disabled_calls: Arc<AtomicU64>,
    pub close_cid_counter: Arc<AtomicU64>,
    /// a "flatten everything" close strategy: `close_positions_requests` also cancels every tracked order of the
    /// filtered instruments (the default close strategy emits market orders only)
    pub close_also_cancels: Arc<std::sync::atomic::AtomicBool>,
    /// the on-disconnect hook also DISABLES trading (one of the uses the trait documents for it)
    pub disable_trading_on_disconnect: Arc<std::sync::atomic::AtomicBool>,
    phantom: std::marker::PhantomData<fn() -> State>,
}

impl<State> Clone for ScriptStrategy<State> {
    fn clone(&self) -> Self {
        Self {
            id: self.id.clone(),
            queue: self.queue.clone(),
            algo_calls: self.algo_calls.clone(),
            disconnects: self.disconnects.clone(),
            disabled_calls: self.disabled_calls.clone(),
            close_cid_counter: self.close_cid_counter.clone(),
            close_also_cancels: self.close_also_cancels.clone(),
            disable_trading_on_disconnect: self.disable_trading_on_disconnect.clone(),
            phantom: std::marker::PhantomData,
        }
    }
}

impl<State> Default for ScriptStrategy<State> {
    fn default() -> Self {
        Self {
            id: StrategyId::new("script"),
            queue: Default::default(),
            algo_calls: Default::default(),
            disconnects: Default::default(),
            disabled_calls: Default::default(),
            close_cid_counter: Default::default(),
            close_also_cancels: Default::default(),
            disable_trading_on_disconnect: Default::default(),
            phantom: std::marker::PhantomData,
        }
    }
}

impl<State> ScriptStrategy<State> {
    pub fn push(&self, batch: AlgoBatch) {
        self.queue.lock().unwrap().push_back(batch);
    }

    pub fn algo_calls(&self) -> u64 {
        self.algo_calls.load(Ordering::Relaxed)
    }

    pub fn take_disconnects(&self) -> Vec<ExchangeId> {
        std::mem::take(&mut *self.disconnects.lock().unwrap())
    }
}

impl<State> AlgoStrategy for ScriptStrategy<State> {
    type State = State;

    fn generate_algo_orders(
        &self,
        _: &Self::State,
    ) -> (
        impl IntoIterator<Item = OrderRequestCancel<ExchangeIndex, InstrumentIndex>>,
        impl IntoIterator<Item = OrderRequestOpen<ExchangeIndex, InstrumentIndex>>,
    ) {
        self.algo_calls.fetch_add(1, Ordering::Relaxed);
        self.queue.lock().unwrap().pop_front().unwrap_or_default()
    }
}

impl<GlobalData, InstrumentData> ClosePositionsStrategy
    for ScriptStrategy<EngineState<GlobalData, InstrumentData>>
where
    InstrumentData: InstrumentDataState,
{
    type State = EngineState<GlobalData, InstrumentData>;

    fn close_positions_requests<'a>(
        &'a self,
        state: &'a Self::State,
        filter: &'a InstrumentFilter,
    ) -> (
        impl IntoIterator<Item = OrderRequestCancel<ExchangeIndex, InstrumentIndex>> + 'a,
        impl IntoIterator<Item = OrderRequestOpen<ExchangeIndex, InstrumentIndex>> + 'a,
    )
    where
        ExchangeIndex: 'a,
        AssetIndex: 'a,
        InstrumentIndex: 'a,
    {
        let counter: &'a AtomicU64 = &self.close_cid_counter;
        let (_no_cancels, opens) = close_open_positions_with_market_orders(&self.id, state, filter, move |s| {
            let n = counter.fetch_add(1, Ordering::Relaxed);
            ClientOrderId::new(format!("close-{}-{}", s.key.index(), n))
        });
        let cancels: Vec<OrderRequestCancel<ExchangeIndex, InstrumentIndex>> = if self.close_also_cancels.load(Ordering::Relaxed) {
            use barter::engine::state::order::manager::OrderManager;
            state.instruments.orders(filter).flat_map(|s| s.orders().filter_map(barter_execution::order::Order::to_request_cancel)).collect()
        } else {
            vec![]
        };
        (cancels, opens)
    }
}

#[derive(Debug, Clone, PartialEq, Eq)]
pub struct DisconnectSeen(pub ExchangeId);

#[derive(Debug, Clone, PartialEq, Eq)]
pub struct DisabledSeen;

impl<Clock, GlobalData, InstrumentData, ExecutionTxs, Risk> OnDisconnectStrategy<Clock, EngineState<GlobalData, InstrumentData>, ExecutionTxs, Risk>
    for ScriptStrategy<EngineState<GlobalData, InstrumentData>>
{
    type OnDisconnect = DisconnectSeen;

    fn on_disconnect(
        engine: &mut Engine<Clock, EngineState<GlobalData, InstrumentData>, ExecutionTxs, Self, Risk>,
        exchange: ExchangeId,
    ) -> Self::OnDisconnect {
        engine.strategy.disconnects.lock().unwrap().push(exchange);
        if engine.strategy.disable_trading_on_disconnect.load(Ordering::Relaxed) {
            engine.state.trading = TradingState::Disabled;
        }
        DisconnectSeen(exchange)
    }
}

impl<Clock, State, ExecutionTxs, Risk> OnTradingDisabled<Clock, State, ExecutionTxs, Risk>
    for ScriptStrategy<State>
{
    type OnTradingDisabled = DisabledSeen;

    fn on_trading_disabled(
        engine: &mut Engine<Clock, State, ExecutionTxs, Self, Risk>,
    ) -> Self::OnTradingDisabled {
        engine.strategy.disabled_calls.fetch_add(1, Ordering::Relaxed);
        DisabledSeen
    }
}

/// Risk manager that refuses every request whose client order id ends in `!r`.
#[derive(Debug)]
pub struct ScriptRisk<State> {
    phantom: std::marker::PhantomData<fn() -> State>,
}

impl<State> Clone for ScriptRisk<State> {
    fn clone(&self) -> Self {
        Self::default()
    }
}

impl<State> Default for ScriptRisk<State> {
    fn default() -> Self {
        Self { phantom: std::marker::PhantomData }
    }
}

pub fn cid_is_refused(cid: &ClientOrderId) -> bool {
    cid.0.ends_with("!r")
}

impl<State> RiskManager for ScriptRisk<State> {
    type State = State;

    fn check(
        &self,
        _: &Self::State,
        cancels: impl IntoIterator<Item = OrderRequestCancel<ExchangeIndex, InstrumentIndex>>,
        opens: impl IntoIterator<Item = OrderRequestOpen<ExchangeIndex, InstrumentIndex>>,
    ) -> (
        impl IntoIterator<Item = RiskApproved<OrderRequestCancel<ExchangeIndex, InstrumentIndex>>>,
        impl IntoIterator<Item = RiskApproved<OrderRequestOpen<ExchangeIndex, InstrumentIndex>>>,
        impl IntoIterator<Item = RiskRefused<OrderRequestCancel<ExchangeIndex, InstrumentIndex>>>,
        impl IntoIterator<Item = RiskRefused<OrderRequestOpen<ExchangeIndex, InstrumentIndex>>>,
    ) {
        let (c_ref, c_ok): (Vec<_>, Vec<_>) =
            cancels.into_iter().partition(|r| cid_is_refused(&r.key.cid));
        let (o_ref, o_ok): (Vec<_>, Vec<_>) =
            opens.into_iter().partition(|r| cid_is_refused(&r.key.cid));
        (
            c_ok.into_iter().map(RiskApproved::new),
            o_ok.into_iter().map(RiskApproved::new),
            c_ref.into_iter().map(|r| RiskRefused::new(r, "scripted refusal")),
            o_ref.into_iter().map(|r| RiskRefused::new(r, "scripted refusal")),
        )
    }
}

// ------------------------------------------------------------------------------------------------
// Engine construction

pub type TestEngine<TxT = RecTx> =
    Engine<TestClock, DefState, MultiExchangeTxMap<TxT>, ScriptStrategy<DefState>, ScriptRisk<DefState>>;

pub fn default_state(instruments: &IndexedInstruments, trading: TradingState) -> DefState {
    EngineState::builder(instruments, DefaultGlobalData, DefaultInstrumentMarketData::default)
        .time_engine_start(t0())
        .trading_state(trading)
        .build()
}

/// Engine over `instruments` with one `RecTx` per exchange (in index order).
pub fn engine_with_rec_txs(
    instruments: &IndexedInstruments,
    trading: TradingState,
) -> (TestEngine<RecTx>, Vec<RecTx>) {
    let txs: Vec<RecTx> =
        instruments.exchanges().iter().map(|_| RecTx::new(TxMode::Healthy)).collect();
    let map = MultiExchangeTxMap::from_iter(
        instruments.exchanges().iter().zip(txs.iter()).map(|(e, tx)| (e.value, Some(tx.clone()))),
    );
    let engine = Engine::new(
        TestClock::new(t0()),
        default_state(instruments, trading),
        map,
        ScriptStrategy::default(),
        ScriptRisk::default(),
    );
    (engine, txs)
}

// ------------------------------------------------------------------------------------------------
// Event constructors

pub type Ev = EngineEvent<DataKind>;

/// Local receipt time of a market message: a monotone receive clock, later than every exchange
/// timestamp used by the workloads (a late message is still received late). Properties speak about
/// EXCHANGE time; keeping the two different makes a mix-up of the fields observable.
pub fn next_receive_time() -> DateTime<Utc> {
    static RECV: std::sync::atomic::AtomicI64 = std::sync::atomic::AtomicI64::new(0);
    t(100_000_000 + RECV.fetch_add(1, Ordering::Relaxed))
}

pub fn ev_market_trade(exchange: ExchangeId, instrument: usize, time_ms: i64, price: f64) -> Ev {
    EngineEvent::Market(MarketStreamEvent::Item(MarketEvent {
        time_exchange: t(time_ms),
        time_received: next_receive_time(),
        exchange,
        instrument: InstrumentIndex(instrument),
        kind: DataKind::Trade(PublicTrade {
            id: format!("pt{time_ms}"),
            price,
            amount: 1.0,
            side: Side::Buy,
        }),
    }))
}

pub fn ev_market_l1(
    exchange: ExchangeId,
    instrument: usize,
    time_ms: i64,
    bid: Option<(Decimal, Decimal)>,
    ask: Option<(Decimal, Decimal)>,
) -> Ev {
    EngineEvent::Market(MarketStreamEvent::Item(MarketEvent {
        time_exchange: t(time_ms),
        time_received: next_receive_time(),
        exchange,
        instrument: InstrumentIndex(instrument),
        kind: DataKind::OrderBookL1(OrderBookL1 {
            last_update_time: t(time_ms),
            best_bid: bid.map(|(p, a)| Level::new(p, a)),
            best_ask: ask.map(|(p, a)| Level::new(p, a)),
        }),
    }))
}

pub fn ev_market_reconnecting(exchange: ExchangeId) -> Ev {
    EngineEvent::Market(MarketStreamEvent::Reconnecting(exchange))
}

pub fn ev_account_reconnecting(exchange: ExchangeId) -> Ev {
    EngineEvent::Account(AccountStreamEvent::Reconnecting(exchange))
}

pub fn ev_account(exchange: usize, kind: AccountEventKind<ExchangeIndex, AssetIndex, InstrumentIndex>) -> Ev {
    EngineEvent::Account(AccountStreamEvent::Item(AccountEvent { exchange: ExchangeIndex(exchange), kind }))
}

pub fn ev_balance(exchange: usize, asset: usize, time_ms: i64, total: Decimal, free: Decimal) -> Ev {
    ev_account(
        exchange,
        AccountEventKind::BalanceSnapshot(Snapshot(AssetBalance {
            asset: AssetIndex(asset),
            balance: Balance::new(total, free),
            time_exchange: t(time_ms),
        })),
    )
}

pub fn order_key(exchange: usize, instrument: usize, cid: &str) -> OrderKey {
    OrderKey {
        exchange: ExchangeIndex(exchange),
        instrument: InstrumentIndex(instrument),
        strategy: StrategyId::new("script"),
        cid: ClientOrderId::new(cid),
    }
}

pub fn req_open(exchange: usize, instrument: usize, cid: &str, side: Side, price: Decimal, qty: Decimal) -> OrderRequestOpen {
    OrderRequestOpen {
        key: order_key(exchange, instrument, cid),
        state: RequestOpen {
            side,
            price,
            quantity: qty,
            kind: OrderKind::Limit,
            time_in_force: TimeInForce::GoodUntilCancelled { post_only: false },
        },
    }
}

pub fn req_cancel(exchange: usize, instrument: usize, cid: &str, id: Option<&str>) -> OrderRequestCancel {
    OrderRequestCancel {
        key: order_key(exchange, instrument, cid),
        state: RequestCancel { id: id.map(OrderId::new) },
    }
}

/// Order snapshot account event for `cid` with the given state.
pub fn ev_order_snapshot(
    exchange: usize,
    instrument: usize,
    cid: &str,
    side: Side,
    price: Decimal,
    qty: Decimal,
    state: OrderState<AssetIndex, InstrumentIndex>,
) -> Ev {
    ev_account(
        exchange,
        AccountEventKind::OrderSnapshot(Snapshot(Order {
            key: order_key(exchange, instrument, cid),
            side,
            price,
            quantity: qty,
            kind: OrderKind::Limit,
            time_in_force: TimeInForce::GoodUntilCancelled { post_only: false },
            state,
        })),
    )
}

pub fn ev_cancel_response(
    exchange: usize,
    instrument: usize,
    cid: &str,
    result: Result<Cancelled, barter_execution::error::OrderError<AssetIndex, InstrumentIndex>>,
) -> Ev {
    ev_account(
        exchange,
        AccountEventKind::OrderCancelled(OrderResponseCancel { key: order_key(exchange, instrument, cid), state: result }),
    )
}

pub fn ev_trade(
    exchange: usize,
    instrument: usize,
    trade_id: &str,
    time_ms: i64,
    side: Side,
    price: Decimal,
    qty: Decimal,
    fee: Decimal,
) -> Ev {
    ev_account(
        exchange,
        AccountEventKind::Trade(Trade {
            id: TradeId::new(trade_id),
            order_id: OrderId::new(format!("o-{trade_id}")),
            instrument: InstrumentIndex(instrument),
            strategy: StrategyId::new("script"),
            time_exchange: t(time_ms),
            side,
            price,
            quantity: qty,
            fees: AssetFees::quote_fees(fee),
        }),
    )
}

pub fn active_state_name(state: &ActiveOrderState) -> &'static str {
    match state {
        ActiveOrderState::OpenInFlight(_) => "OpenInFlight",
        ActiveOrderState::Open(_) => "Open",
        ActiveOrderState::CancelInFlight(_) => "CancelInFlight",
    }
}

// ------------------------------------------------------------------------------------------------
// Scripted execution client (stands in for an exchange REST/WS client behind ExecutionManager)

use barter_execution::{
    UnindexedAccountEvent, UnindexedAccountSnapshot,
    client::ExecutionClient,
    error::{ApiError, UnindexedClientError, UnindexedOrderError},
    order::{request::UnindexedOrderResponseCancel, state::Open},
};
use barter_instrument::{asset::{QuoteAsset, name::AssetNameExchange}, instrument::name::InstrumentNameExchange};

#[derive(Debug, Clone, PartialEq, Eq)]
pub struct ClientCall {
    pub is_open: bool,
    pub exchange: ExchangeId,
    pub instrument: InstrumentNameExchange,
    pub cid: ClientOrderId,
    pub at: tokio::time::Instant,
}

#[derive(Debug, Clone, Copy, PartialEq, Eq)]
pub enum ReplyKind {
    /// open: accepted, partially filled (stays open); cancel: confirmed
    Ok,
    /// open: accepted and completely filled
    OkFullyFilled,
    /// rejected by the venue
    Err,
    /// answers Ok but names an instrument the manager's map does not know (the manager filters
    /// such a response by design)
    OkUnknownInstrument,
    /// rejected by the venue with `ApiError::AssetInvalid` naming an asset that is not configured (the
    /// key is echoed correctly; "invalid asset" is exactly what a venue says about a name it does not know)
    ErrUnconfiguredAsset,
    /// the venue is unreachable: `ConnectivityError::ExchangeOffline` naming the CLIENT's own exchange id
    /// (`Mock` for mock-style clients, which differs from the exchange the instruments are indexed under)
    ErrExchangeOffline,
}

#[derive(Debug, Clone, Copy, PartialEq, Eq)]
pub enum Reply {
    After(std::time::Duration, ReplyKind),
    Never,
}

/// `ExecutionClient` whose every answer is decided by a script closure and whose every received
/// request is recorded (exchange id, exchange instrument name, client order id, virtual instant).
#[derive(Clone)]
pub struct ScriptClient {
    pub calls: Arc<Mutex<Vec<ClientCall>>>,
    pub script: Arc<dyn Fn(&ClientCall) -> Reply + Send + Sync>,
}

impl std::fmt::Debug for ScriptClient {
    fn fmt(&self, f: &mut std::fmt::Formatter<'_>) -> std::fmt::Result {
        write!(f, "ScriptClient")
    }
}

impl ScriptClient {
    pub fn new(script: impl Fn(&ClientCall) -> Reply + Send + Sync + 'static) -> Self {
        Self { calls: Default::default(), script: Arc::new(script) }
    }

    pub fn take_calls(&self) -> Vec<ClientCall> {
        std::mem::take(&mut *self.calls.lock().unwrap())
    }

    async fn wait(&self, call: &ClientCall) -> ReplyKind {
        self.calls.lock().unwrap().push(call.clone());
        match (self.script)(call) {
            Reply::After(delay, kind) => {
                if !delay.is_zero() {
                    tokio::time::sleep(delay).await;
                }
                kind
            }
            Reply::Never => std::future::pending().await,
        }
    }
}

impl ExecutionClient for ScriptClient {
    const EXCHANGE: ExchangeId = ExchangeId::Mock;
    type Config = ScriptClient;
    type AccountStream = futures::stream::Pending<UnindexedAccountEvent>;

    fn new(config: Self::Config) -> Self {
        config
    }

    async fn account_snapshot(
        &self,
        _: &[AssetNameExchange],
        _: &[InstrumentNameExchange],
    ) -> Result<UnindexedAccountSnapshot, UnindexedClientError> {
        Ok(UnindexedAccountSnapshot { exchange: ExchangeId::Mock, balances: vec![], instruments: vec![] })
    }

    async fn account_stream(
        &self,
        _: &[AssetNameExchange],
        _: &[InstrumentNameExchange],
    ) -> Result<Self::AccountStream, UnindexedClientError> {
        Ok(futures::stream::pending())
    }

    async fn cancel_order(
        &self,
        request: OrderRequestCancel<ExchangeId, &InstrumentNameExchange>,
    ) -> UnindexedOrderResponseCancel {
        let call = ClientCall {
            is_open: false,
            exchange: request.key.exchange,
            instrument: request.key.instrument.clone(),
            cid: request.key.cid.clone(),
            at: tokio::time::Instant::now(),
        };
        let key = OrderKey {
            exchange: request.key.exchange,
            instrument: request.key.instrument.clone(),
            strategy: request.key.strategy.clone(),
            cid: request.key.cid.clone(),
        };
        let kind = self.wait(&call).await;
        let mut key = key;
        if kind == ReplyKind::OkUnknownInstrument {
            key.instrument = InstrumentNameExchange::from("NOT-CONFIGURED");
        }
        UnindexedOrderResponseCancel {
            key,
            state: match kind {
                ReplyKind::Ok | ReplyKind::OkFullyFilled | ReplyKind::OkUnknownInstrument => Ok(Cancelled { id: OrderId::new(format!("x-{}", call.cid.0)), time_exchange: t(1) }),
                ReplyKind::Err => Err(UnindexedOrderError::Rejected(ApiError::OrderAlreadyCancelled)),
                ReplyKind::ErrUnconfiguredAsset => Err(UnindexedOrderError::Rejected(ApiError::AssetInvalid(AssetNameExchange::from("NOT-CONFIGURED"), "scripted".into()))),
                ReplyKind::ErrExchangeOffline => Err(UnindexedOrderError::Connectivity(barter_execution::error::ConnectivityError::ExchangeOffline(Self::EXCHANGE))),
            },
        }
    }

    async fn open_order(
        &self,
        request: OrderRequestOpen<ExchangeId, &InstrumentNameExchange>,
    ) -> Order<ExchangeId, InstrumentNameExchange, Result<Open, UnindexedOrderError>> {
        let call = ClientCall {
            is_open: true,
            exchange: request.key.exchange,
            instrument: request.key.instrument.clone(),
            cid: request.key.cid.clone(),
            at: tokio::time::Instant::now(),
        };
        let key = OrderKey {
            exchange: request.key.exchange,
            instrument: request.key.instrument.clone(),
            strategy: request.key.strategy.clone(),
            cid: request.key.cid.clone(),
        };
        let state = request.state.clone();
        let kind = self.wait(&call).await;
        let mut key = key;
        if kind == ReplyKind::OkUnknownInstrument {
            key.instrument = InstrumentNameExchange::from("NOT-CONFIGURED");
        }
        Order {
            key,
            side: state.side,
            price: state.price,
            quantity: state.quantity,
            kind: state.kind,
            time_in_force: state.time_in_force,
            state: match kind {
                ReplyKind::Ok | ReplyKind::OkUnknownInstrument => Ok(Open { id: OrderId::new(format!("x-{}", call.cid.0)), time_exchange: t(1), filled_quantity: Decimal::ZERO }),
                ReplyKind::OkFullyFilled => Ok(Open { id: OrderId::new(format!("x-{}", call.cid.0)), time_exchange: t(1), filled_quantity: state.quantity }),
                ReplyKind::Err => Err(UnindexedOrderError::Rejected(ApiError::OrderRejected("scripted".into()))),
                ReplyKind::ErrUnconfiguredAsset => Err(UnindexedOrderError::Rejected(ApiError::AssetInvalid(AssetNameExchange::from("NOT-CONFIGURED"), "scripted".into()))),
                ReplyKind::ErrExchangeOffline => Err(UnindexedOrderError::Connectivity(barter_execution::error::ConnectivityError::ExchangeOffline(Self::EXCHANGE))),
            },
        }
    }

    async fn fetch_balances(&self) -> Result<Vec<AssetBalance<AssetNameExchange>>, UnindexedClientError> {
        Ok(vec![])
    }

    async fn fetch_open_orders(&self) -> Result<Vec<Order<ExchangeId, InstrumentNameExchange, Open>>, UnindexedClientError> {
        Ok(vec![])
    }

    async fn fetch_trades(&self, _: DateTime<Utc>) -> Result<Vec<Trade<QuoteAsset, InstrumentNameExchange>>, UnindexedClientError> {
        Ok(vec![])
    }
}

// ------------------------------------------------------------------------------------------------
// LIFE CYCLE: the engine state is `Serialize + Deserialize` (it is what an operator persists and what an audit snapshot
// ships): replace it, in the middle of a history, by the copy restored from its own JSON. The copy must equal the
// original (`==`), and the history carries on with the copy - so anything a restored state does differently later is
// judged by the monitor's ordinary oracles.

/// `Ok(true)`: persisted, restored, equal, replaced. `Ok(false)`: this value does not serialise to JSON at all (not
/// judged; the whole `EngineState` is such a value: some of its maps have structured keys). `Err(_)`: the restored
/// copy differs from the persisted value.
pub fn persist_and_restore<T>(what: &str, value: &mut T) -> Result<bool, String>
where
    T: serde::Serialize + serde::de::DeserializeOwned + PartialEq + std::fmt::Debug,
{
    let Ok(text) = serde_json::to_string(value) else {
        return Ok(false);
    };
    let back: T = serde_json::from_str(&text).map_err(|e| format!("the persisted {what} does not load from its own JSON: {e}"))?;
    if &back != value {
        let shown: String = format!("restored {back:?}, persisted {value:?}").chars().take(2000).collect();
        return Err(format!("the {what} restored from its own JSON differs from the persisted one: {shown}"));
    }
    *value = back;
    Ok(true)
}
