//! Seeded PRNG (xoshiro256** seeded through SplitMix64). All randomness of every check derives
//! from `VERIF_SEED`; nothing uses OS entropy.

use rust_decimal::Decimal;

#[derive(Debug, Clone)]
pub struct Rng {
    s: [u64; 4],
}

fn splitmix(x: &mut u64) -> u64 {
    *x = x.wrapping_add(0x9e3779b97f4a7c15);
    let mut z = *x;
    z = (z ^ (z >> 30)).wrapping_mul(0xbf58476d1ce4e5b9);
    z = (z ^ (z >> 27)).wrapping_mul(0x94d049bb133111eb);
    z ^ (z >> 31)
}

impl Rng {
    pub fn new(seed: u64) -> Self {
        let mut x = seed;
        let s = [splitmix(&mut x), splitmix(&mut x), splitmix(&mut x), splitmix(&mut x)];
        Self { s }
    }

    /// Derive an independent stream (for sub-generators) without disturbing reproducibility.
    pub fn fork(&mut self) -> Rng {
        Rng::new(self.next_u64())
    }

    pub fn next_u64(&mut self) -> u64 {
        let result = self.s[1].wrapping_mul(5).rotate_left(7).wrapping_mul(9);
        let t = self.s[1] << 17;
        self.s[2] ^= self.s[0];
        self.s[3] ^= self.s[1];
        self.s[1] ^= self.s[2];
        self.s[0] ^= self.s[3];
        self.s[2] ^= t;
        self.s[3] = self.s[3].rotate_left(45);
        result
    }

    /// Uniform in [0, n). n must be > 0.
    pub fn below(&mut self, n: u64) -> u64 {
        debug_assert!(n > 0);
        // multiply-shift; bias is negligible for our n
        ((self.next_u64() as u128 * n as u128) >> 64) as u64
    }

    pub fn usize_below(&mut self, n: usize) -> usize {
        self.below(n as u64) as usize
    }

    /// Uniform in [lo, hi] inclusive.
    pub fn range(&mut self, lo: i64, hi: i64) -> i64 {
        debug_assert!(lo <= hi);
        lo + self.below((hi - lo) as u64 + 1) as i64
    }

    pub fn range_u(&mut self, lo: usize, hi: usize) -> usize {
        self.range(lo as i64, hi as i64) as usize
    }

    pub fn bool(&mut self) -> bool {
        self.next_u64() & 1 == 1
    }

    /// true with probability num/den
    pub fn chance(&mut self, num: u64, den: u64) -> bool {
        self.below(den) < num
    }

    pub fn pick<'a, T>(&mut self, xs: &'a [T]) -> &'a T {
        &xs[self.usize_below(xs.len())]
    }

    pub fn shuffle<T>(&mut self, xs: &mut [T]) {
        for i in (1..xs.len()).rev() {
            let j = self.usize_below(i + 1);
            xs.swap(i, j);
        }
    }

    /// Decimal with `scale` decimal places, mantissa uniform in [lo, hi].
    pub fn decimal(&mut self, lo: i64, hi: i64, scale: u32) -> Decimal {
        Decimal::new(self.range(lo, hi), scale)
    }

    /// Positive decimal with log-uniform magnitude: mantissa in [1, 10^digits) and scale in
    /// [scale_lo, scale_hi].
    pub fn decimal_log(&mut self, digits: u32, scale_lo: u32, scale_hi: u32) -> Decimal {
        let d = self.range(1, digits as i64) as u32;
        let hi = 10i64.pow(d) - 1;
        let m = self.range(1, hi.max(1));
        let scale = self.range(scale_lo as i64, scale_hi as i64) as u32;
        Decimal::new(m, scale)
    }
}
