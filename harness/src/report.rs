//! What a run observed: counts, coverage cells, distinct-history hashes, samples, violations.
//! Serialised to JSON for `/verif/check`, which turns it into the evidence file and the verdict.

use serde::Serialize;
use serde_json::{Value, json};
use std::{
    collections::{BTreeMap, BTreeSet, HashSet},
    fs::File,
    io::{BufWriter, Write},
    path::Path,
    sync::{Arc, Mutex},
};

const MAX_KEPT_VIOLATIONS: usize = 40;
const MAX_SAMPLES: usize = 6;
const MAX_DISTINCT: usize = 4_000_000;

#[derive(Debug, Clone, Serialize)]
pub struct Violation {
    /// stable class key of the oracle rule that fired, e.g. `tracked_set_mismatch`
    pub signature: String,
    /// human readable description of expected vs observed
    pub detail: String,
    /// replayable witness (generator independent: the exact history / configuration)
    pub history: Value,
}

#[derive(Debug, Default)]
pub struct Report {
    pub property: String,
    /// histories / configurations / cases executed
    pub evaluations: u64,
    /// individual oracle evaluations (typically one per step per rule group)
    pub oracle_checks: u64,
    /// boundary events observed (steps applied, messages received, ticks ...)
    pub events_observed: u64,
    pub coverage: BTreeMap<String, u64>,
    pub required: BTreeSet<String>,
    pub distinct: HashSet<u64>,
    pub distinct_overflow: bool,
    pub samples: Vec<Value>,
    pub violations: Vec<Violation>,
    pub violation_count: u64,
    pub violation_signatures: BTreeMap<String, u64>,
    /// informational counters that are not judged
    pub info: BTreeMap<String, u64>,
    pub notes: Vec<String>,
    /// failures of the harness itself (never a violation; makes the run inconclusive)
    pub harness_errors: Vec<String>,
    pub exhaustive_blocks: Vec<String>,
}

impl Report {
    pub fn new(property: &str) -> Self {
        Self { property: property.to_string(), ..Default::default() }
    }

    pub fn cover(&mut self, cell: &str) {
        *self.coverage.entry(cell.to_string()).or_insert(0) += 1;
    }

    pub fn cover_n(&mut self, cell: &str, n: u64) {
        *self.coverage.entry(cell.to_string()).or_insert(0) += n;
    }

    pub fn require(&mut self, cell: &str) {
        self.required.insert(cell.to_string());
    }

    pub fn info(&mut self, key: &str, n: u64) {
        *self.info.entry(key.to_string()).or_insert(0) += n;
    }

    /// Record one executed case. `nontrivial` by the property's own rule; `hash` identifies it.
    pub fn case(&mut self, hash: u64, nontrivial: bool) {
        self.evaluations += 1;
        if nontrivial {
            if self.distinct.len() < MAX_DISTINCT {
                self.distinct.insert(hash);
            } else {
                self.distinct_overflow = true;
            }
        }
    }

    pub fn sample(&mut self, v: impl FnOnce() -> Value) {
        if self.samples.len() < MAX_SAMPLES {
            self.samples.push(v());
        }
    }

    pub fn violation(&mut self, signature: &str, detail: String, history: Value) {
        self.violation_count += 1;
        *self.violation_signatures.entry(signature.to_string()).or_insert(0) += 1;
        // keep the first few of every signature so that different classes are all witnessed
        let kept_same = self.violations.iter().filter(|v| v.signature == signature).count();
        if self.violations.len() < MAX_KEPT_VIOLATIONS && kept_same < 5 {
            self.violations.push(Violation { signature: signature.to_string(), detail, history });
        }
    }

    pub fn merge(&mut self, o: Report) {
        self.evaluations += o.evaluations;
        self.oracle_checks += o.oracle_checks;
        self.events_observed += o.events_observed;
        for (k, v) in o.coverage {
            *self.coverage.entry(k).or_insert(0) += v;
        }
        for (k, v) in o.info {
            *self.info.entry(k).or_insert(0) += v;
        }
        self.required.extend(o.required);
        for h in o.distinct {
            if self.distinct.len() < MAX_DISTINCT {
                self.distinct.insert(h);
            } else {
                self.distinct_overflow = true;
            }
        }
        self.distinct_overflow |= o.distinct_overflow;
        for s in o.samples {
            if self.samples.len() < MAX_SAMPLES {
                self.samples.push(s);
            }
        }
        self.violation_count += o.violation_count;
        for (k, v) in o.violation_signatures {
            *self.violation_signatures.entry(k).or_insert(0) += v;
        }
        for v in o.violations {
            let kept_same = self.violations.iter().filter(|x| x.signature == v.signature).count();
            if self.violations.len() < MAX_KEPT_VIOLATIONS && kept_same < 5 {
                self.violations.push(v);
            }
        }
        self.notes.extend(o.notes);
        self.harness_errors.extend(o.harness_errors);
        for b in o.exhaustive_blocks {
            if !self.exhaustive_blocks.contains(&b) {
                self.exhaustive_blocks.push(b);
            }
        }
    }

    pub fn missing_cells(&self) -> Vec<String> {
        self.required
            .iter()
            .filter(|c| self.coverage.get(*c).copied().unwrap_or(0) == 0)
            .cloned()
            .collect()
    }

    pub fn to_json(&self) -> Value {
        json!({
            "property": self.property,
            "evaluations": self.evaluations,
            "oracle_checks": self.oracle_checks,
            "events_observed": self.events_observed,
            "distinct_nontrivial": self.distinct.len(),
            "distinct_overflow": self.distinct_overflow,
            "coverage": self.coverage,
            "cells_required": self.required.len(),
            "cells_missing": self.missing_cells(),
            "samples": self.samples,
            "violation_count": self.violation_count,
            "violation_signatures": self.violation_signatures,
            "violations": self.violations,
            "info": self.info,
            "notes": self.notes,
            "harness_errors": self.harness_errors,
            "exhaustive_blocks": self.exhaustive_blocks,
        })
    }

    /// Write the report to `--out` (or stdout) and return the process exit code:
    /// 0 held, 1 violated, 2 inconclusive. The python wrapper re-derives the verdict (known
    /// findings etc.); the code here is only used when a binary is run by hand.
    pub fn finish(&self, out: Option<&Path>) -> i32 {
        let v = self.to_json();
        let s = serde_json::to_string(&v).expect("serialise report");
        match out {
            Some(p) => {
                if let Some(dir) = p.parent() {
                    let _ = std::fs::create_dir_all(dir);
                }
                std::fs::write(p, s).expect("write report");
            }
            None => println!("{s}"),
        }
        if self.violation_count > 0 {
            1
        } else if !self.harness_errors.is_empty() || !self.missing_cells().is_empty() {
            2
        } else {
            0
        }
    }
}

/// Append-only JSONL event log shared by the workers; read afterwards by the offline (python,
/// exact rational) checkers.
#[derive(Clone)]
pub struct LogSink {
    inner: Option<Arc<Mutex<BufWriter<File>>>>,
}

impl LogSink {
    pub fn open(path: Option<&Path>) -> Self {
        let inner = path.map(|p| {
            if let Some(dir) = p.parent() {
                let _ = std::fs::create_dir_all(dir);
            }
            Arc::new(Mutex::new(BufWriter::new(File::create(p).expect("create log"))))
        });
        Self { inner }
    }

    pub fn enabled(&self) -> bool {
        self.inner.is_some()
    }

    pub fn write(&self, v: &Value) {
        if let Some(w) = &self.inner {
            let mut w = w.lock().unwrap();
            serde_json::to_writer(&mut *w, v).expect("log write");
            w.write_all(b"\n").expect("log write");
        }
    }

    pub fn flush(&self) {
        if let Some(w) = &self.inner {
            w.lock().unwrap().flush().expect("flush log");
        }
    }
}
