//! Shared infrastructure of the runtime-monitoring harness: seeded PRNG, CLI, report/evidence
//! collection, panic capture, worker-thread fan-out and small generators.
//!
//! Every property has its own binary under `src/bin/` which drives the *real* barter code built
//! from `/repo`'s working tree, observes at the public boundary and decides with an independent
//! oracle. This library holds nothing property specific.

pub mod builder_stage;
pub mod cli;
pub mod fixtures;
pub mod report;
pub mod rng;

pub use cli::Args;
pub use report::{Report, Violation};
pub use rng::Rng;

use std::{
    cell::RefCell,
    panic::{AssertUnwindSafe, catch_unwind},
    sync::Once,
};

thread_local! {
    static LAST_PANIC: RefCell<Option<String>> = const { RefCell::new(None) };
}

static HOOK: Once = Once::new();

/// Install a panic hook that records the message (with location) per thread instead of printing.
pub fn install_quiet_panic_hook() {
    HOOK.call_once(|| {
        std::panic::set_hook(Box::new(|info| {
            let msg = if let Some(s) = info.payload().downcast_ref::<&str>() {
                (*s).to_string()
            } else if let Some(s) = info.payload().downcast_ref::<String>() {
                s.clone()
            } else {
                "<non-string panic payload>".to_string()
            };
            let loc = info
                .location()
                .map(|l| format!("{}:{}", l.file(), l.line()))
                .unwrap_or_default();
            LAST_PANIC.with(|p| *p.borrow_mut() = Some(format!("{msg} @ {loc}")));
        }));
    });
}

/// Did a panic (message with ` @ file:line`, see the hook above) start inside the source of the library
/// under test - and not in the harness, a dependency or std? Every workload stays inside the domain of
/// its property, so such a panic means the operation the property speaks about did not complete: the
/// safety net of `run_workers` reports it as a violation (with the workload as its witness) rather than as
/// a harness error. Panics the monitors expect are caught next to the call and judged there.
pub fn panicked_in_library_under_test(msg: &str) -> bool {
    let Some((_, loc)) = msg.rsplit_once(" @ ") else { return false };
    if loc.contains("/harness/") || loc.contains("/.cargo/") || loc.contains("/rustc/") || loc.contains("/rustlib/") {
        return false;
    }
    ["barter/src/", "barter-data/src/", "barter-execution/src/", "barter-instrument/src/", "barter-integration/src/", "barter-macro/src/"]
        .iter()
        .any(|d| loc.contains(d))
}

/// Run `f`, converting a panic of the code under test into `Err(message)`.
pub fn catch<T>(f: impl FnOnce() -> T) -> Result<T, String> {
    install_quiet_panic_hook();
    match catch_unwind(AssertUnwindSafe(f)) {
        Ok(v) => Ok(v),
        Err(_) => Err(LAST_PANIC
            .with(|p| p.borrow_mut().take())
            .unwrap_or_else(|| "panic".to_string())),
    }
}

/// 64-bit FNV-1a over bytes; used for history hashes (distinctness accounting).
pub fn fnv1a(bytes: &[u8]) -> u64 {
    let mut h: u64 = 0xcbf29ce484222325;
    for b in bytes {
        h ^= *b as u64;
        h = h.wrapping_mul(0x100000001b3);
    }
    h
}

pub fn hash_debug<T: std::fmt::Debug>(t: &T) -> u64 {
    fnv1a(format!("{t:?}").as_bytes())
}

/// Fan a workload out over `args.threads` worker threads. Each worker gets its own PRNG stream
/// derived from (seed, worker index) and its own `Report`; reports are merged at the end.
/// `work(worker_index, n_workers, rng, report)`.
pub fn run_workers<F>(args: &Args, property: &str, work: F) -> Report
where
    F: Fn(usize, usize, &mut Rng, &mut Report) + Sync,
{
    install_quiet_panic_hook();
    let n = args.threads.max(1);
    let mut merged = Report::new(property);
    let results: Vec<Report> = std::thread::scope(|s| {
        let handles: Vec<_> = (0..n)
            .map(|i| {
                let work = &work;
                let seed = args.seed;
                let property = property.to_string();
                std::thread::Builder::new()
                    .stack_size(64 << 20)
                    .spawn_scoped(s, move || {
                        let mut rng = Rng::new(seed ^ (0x9e3779b97f4a7c15u64.wrapping_mul(i as u64 + 1)));
                        let mut report = Report::new(&property);
                        match catch(|| work(i, n, &mut rng, &mut report)) {
                            Ok(()) => {}
                            Err(msg) if panicked_in_library_under_test(&msg) => report.violation(
                                "panic_in_library_code_under_the_generated_workload",
                                format!("worker {i} of {n}: {msg}"),
                                serde_json::json!({"kind": "rerun_workload", "worker": i, "workers": n, "seed": seed}),
                            ),
                            Err(msg) => report.harness_errors.push(format!("worker {i} panicked: {msg}")),
                        }
                        report
                    })
                    .expect("spawn worker")
            })
            .collect();
        handles.into_iter().map(|h| h.join().expect("join worker")).collect()
    });
    for r in results {
        merged.merge(r);
    }
    merged
}

/// Greedy history shrinker: repeatedly drop single elements (then halves) while `fails` holds.
pub fn shrink<T: Clone>(history: &[T], fails: impl Fn(&[T]) -> bool) -> Vec<T> {
    let mut cur: Vec<T> = history.to_vec();
    if !fails(&cur) {
        return cur;
    }
    // drop suffix first (cheap, usually large win)
    let mut lo = 0usize;
    let mut hi = cur.len();
    while lo < hi {
        let mid = (lo + hi) / 2;
        if fails(&cur[..mid]) {
            hi = mid;
        } else {
            lo = mid + 1;
        }
    }
    if hi < cur.len() && fails(&cur[..hi]) {
        cur.truncate(hi);
    }
    let mut changed = true;
    let mut budget = 2000usize;
    while changed && budget > 0 {
        changed = false;
        let mut i = 0;
        while i < cur.len() && budget > 0 {
            budget -= 1;
            let mut cand = cur.clone();
            cand.remove(i);
            if fails(&cand) {
                cur = cand;
                changed = true;
            } else {
                i += 1;
            }
        }
    }
    cur
}

#[cfg(test)]
mod tests {
    use super::panicked_in_library_under_test as lib;

    #[test]
    fn panic_locations_are_classified() {
        assert!(lib("range start index 1 out of range @ /repo/barter-data/src/books/mod.rs:269"));
        assert!(lib("boom @ /tmp/mw/repo/barter/src/engine/mod.rs:10"));
        assert!(!lib("boom @ /verif/harness/src/bin/c06.rs:10"));
        assert!(!lib("boom @ /root/.cargo/registry/src/x/tokio-1.0/src/time.rs:1"));
        assert!(!lib("boom"));
    }
}
