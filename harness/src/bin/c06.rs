//! C06 — Binance L2 streams never leave a silently wrong local book.
//!
//! Stage 1: a simulated venue per instrument (atomic change log, depth windows [U,u] (+pu for
//! futures), REST snapshot at id S) is delivered — clean or perturbed (drop / duplicate / swap /
//! replay / start early / start late / interleaved instruments / a re-aggregated message that
//! overlaps several venue windows) — as REAL JSON text through
//! `serde_json::from_str` into the REAL transformers built with `ExchangeTransformer::init` and a
//! `Map` produced by the library's own `WebSocketSubMapper`. The local book is maintained with the
//! real `OrderBook::update` from the transformer's `Ok` outputs only. After every message:
//!   (i)   local book == venue book as of `OrderBook.sequence` (venue book recomputed from the
//!         atomic change log);
//!   (ii)  the admitted messages alone satisfy the venue's published chain rule (appendix A.2);
//!   (iii) a clean delivery (A.2) never yields `Err`;
//!   (iv)  per-instrument isolation: an instrument's per-message outcomes are identical whether its
//!         stream is delivered alone or interleaved with the other instruments';
//!   (v)   the error on a break is `DataError::InvalidSequence` and `is_terminal()`;
//!   (vi)  a strictly fresh update (u beyond the chain head) is never dropped silently.
//! Errors on duplicates / stale replays are permitted and only counted. The monitor keeps feeding
//! after an `Err` (a consumer that ignores errors): (i)/(ii) must still hold because the sequencer
//! may advance only on success; those findings carry the suffix `_after_ignored_error`.
//!
//! Stage 2: the transformer is wired into the real `ExchangeStream<WebSocketParser, _, _>` over an
//! in-memory stream of `WsMessage::Text`, inside `init_reconnecting_stream` + `with_reconnect_backoff`
//! + `with_termination_on_error(|e| e.is_terminal())` + `with_reconnection_events` (the composition
//! of `init_market_stream`) on a paused-clock current-thread runtime. Expected consumer-side event
//! sequence: snapshots, admitted updates up to the break, exactly one `Reconnecting`, then the
//! re-initialised connection.
//!
//! Non-trivial history rule: at least 3 delivered messages and at least 2 different per-message
//! outcome classes (admitted / silently dropped / sequence error). Distinct = FNV-1a of the history.

use barter_data::{
    books::OrderBook,
    error::DataError,
    event::MarketEvent,
    exchange::binance::{
        book::l2::BinanceOrderBookL2Snapshot,
        futures::{BinanceFuturesUsd, l2::BinanceFuturesUsdOrderBooksL2Transformer},
        spot::{BinanceSpot, l2::BinanceSpotOrderBooksL2Transformer},
    },
    streams::{
        consumer::StreamKey,
        reconnect::{
            Event,
            stream::{ReconnectingStream, ReconnectionBackoffPolicy, init_reconnecting_stream},
        },
    },
    subscriber::mapper::{SubscriptionMapper, WebSocketSubMapper},
    subscription::{
        Map, Subscription,
        book::{OrderBookEvent, OrderBooksL2},
    },
    transformer::ExchangeTransformer,
};
use barter_instrument::{
    exchange::ExchangeId,
    instrument::market_data::{MarketDataInstrument, kind::MarketDataInstrumentKind},
};
use barter_integration::{
    Transformer,
    protocol::websocket::{WebSocketParser, WsError, WsMessage},
    stream::ExchangeStream,
};
use futures::{Stream, StreamExt, stream};
use rust_decimal::Decimal;
use serde::{Deserialize, Serialize};
use serde_json::json;
use std::{
    cell::RefCell,
    collections::{BTreeMap, BTreeSet, VecDeque},
    pin::Pin,
    rc::Rc,
    time::Duration,
};
use vharness::{Args, Report, Rng, catch, fnv1a, run_workers, shrink};

type Key = MarketDataInstrument;
type Ev = MarketEvent<Key, OrderBookEvent>;

const MARKETS: [(&str, &str, &str); 3] = [("btc", "usdt", "BTCUSDT"), ("eth", "usdt", "ETHUSDT"), ("sol", "usdt", "SOLUSDT")];
const UNKNOWN: u8 = 255;
const UNKNOWN_MARKET: &str = "XRPUSDT";
/// quantity table; index 0 = delete
const QTY: [&str; 6] = ["0.00000000", "1.00000000", "2.50000000", "0.00100000", "13.37000000", "7"];
const GRID: u8 = 3;
/// window indices >= ALT address `Venue::alt_windows`
const ALT: usize = 1000;

// ------------------------------------------------------------------------------------------------
// History (self-contained, replayable)

#[derive(Debug, Clone, Copy, PartialEq, Eq, Hash, Serialize, Deserialize)]
pub enum Rule {
    Spot,
    Futures,
}

impl Rule {
    fn name(self) -> &'static str {
        match self {
            Rule::Spot => "spot",
            Rule::Futures => "futures",
        }
    }
}

/// one atomic book change of the venue
#[derive(Debug, Clone, Copy, Serialize, Deserialize)]
struct Change {
    id: u64,
    bid: bool,
    p: u8,
    q: u8,
}

/// one depth message of the venue: ids [first,last], changes[lo..hi] (hi exclusive), pu (futures)
#[derive(Debug, Clone, Copy, Serialize, Deserialize)]
struct Win {
    first: u64,
    last: u64,
    pu: u64,
    lo: usize,
    hi: usize,
}

#[derive(Debug, Clone, Serialize, Deserialize)]
struct Venue {
    market: usize,
    changes: Vec<Change>,
    windows: Vec<Win>,
    /// re-aggregated messages the venue may also serve: each covers the id range of >= 2
    /// consecutive windows (final quantities over that range); addressed as window index ALT + k
    #[serde(default)]
    alt_windows: Vec<Win>,
    /// deep venues: before the first change the book already holds every EVEN price index below this bound on
    /// both sides (quantity code 1), so snapshots carry dozens of levels and updates insert new levels deep
    /// inside the book
    #[serde(default)]
    base_depth: u8,
}

#[derive(Debug, Clone, Copy, PartialEq, Eq, Serialize, Deserialize)]
struct Deliv {
    i: u8,
    w: u16,
}

#[derive(Debug, Clone, Serialize, Deserialize)]
struct Conn {
    snapshot_ids: Vec<u64>,
    delivery: Vec<Deliv>,
}

#[derive(Debug, Clone, Serialize, Deserialize)]
struct History {
    rule: Rule,
    stage: u8,
    venues: Vec<Venue>,
    conns: Vec<Conn>,
}

// ------------------------------------------------------------------------------------------------
// Venue model (independent of the code under test)

fn price_cents(bid: bool, p: u8) -> i64 {
    if bid { 10_000 - 25 * (p as i64 + 1) } else { 10_000 + 25 * (p as i64 + 1) }
}

fn price_str(bid: bool, p: u8) -> String {
    let c = price_cents(bid, p);
    format!("{}.{:02}000000", c / 100, c % 100)
}

fn price_dec(bid: bool, p: u8) -> Decimal {
    Decimal::new(price_cents(bid, p), 2)
}

fn qty_dec(q: u8) -> Decimal {
    // independent of the wire strings: exact rationals of the table above
    match q {
        0 => Decimal::ZERO,
        1 => Decimal::new(1, 0),
        2 => Decimal::new(25, 1),
        3 => Decimal::new(1, 3),
        4 => Decimal::new(1337, 2),
        _ => Decimal::new(7, 0),
    }
}

impl Venue {
    fn win(&self, w: usize) -> Win {
        if w >= ALT { self.alt_windows[w - ALT] } else { self.windows[w] }
    }

    fn merged(&self, a: usize, b: usize) -> Win {
        let (wa, wb) = (self.windows[a], self.windows[b]);
        Win { first: wa.first, last: wb.last, pu: wa.pu, lo: wa.lo, hi: wb.hi }
    }

    /// venue book as of id `x`: every change with id <= x applied to the empty book
    fn state_at(&self, x: u64) -> BTreeMap<(bool, u8), u8> {
        let mut m = BTreeMap::new();
        for p in (0..self.base_depth).step_by(2) {
            m.insert((true, p), 1u8);
            m.insert((false, p), 1u8);
        }
        for c in &self.changes {
            if c.id > x {
                break;
            }
            if c.q == 0 {
                m.remove(&(c.bid, c.p));
            } else {
                m.insert((c.bid, c.p), c.q);
            }
        }
        m
    }

    /// (bids best-first i.e. descending price, asks ascending price)
    fn book_at(&self, x: u64) -> (Vec<(Decimal, Decimal)>, Vec<(Decimal, Decimal)>) {
        let m = self.state_at(x);
        // bid price falls with p, ask price rises with p: ascending p is best-first on both sides
        let bids = m.iter().filter(|((b, _), _)| *b).map(|((_, p), q)| (price_dec(true, *p), qty_dec(*q))).collect();
        let asks = m.iter().filter(|((b, _), _)| !*b).map(|((_, p), q)| (price_dec(false, *p), qty_dec(*q))).collect();
        (bids, asks)
    }

    fn max_id(&self) -> u64 {
        self.windows.last().map(|w| w.last).unwrap_or(0)
    }

    /// index of the window satisfying the venue's first-update rule for snapshot id s
    fn first_valid(&self, rule: Rule, s: u64) -> Option<usize> {
        self.windows.iter().position(|w| match rule {
            Rule::Spot => w.first <= s + 1 && s + 1 <= w.last,
            Rule::Futures => w.first <= s && s <= w.last,
        })
    }

    fn strictly_older(&self, rule: Rule, s: u64, w: usize) -> bool {
        match rule {
            Rule::Spot => self.win(w).last <= s,
            Rule::Futures => self.win(w).last < s,
        }
    }
}

fn levels_json(levels: &[((bool, u8), u8)], bid: bool) -> String {
    let v: Vec<String> = levels
        .iter()
        .filter(|((b, _), _)| *b == bid)
        .map(|((b, p), q)| format!("[\"{}\",\"{}\"]", price_str(*b, *p), QTY[*q as usize]))
        .collect();
    format!("[{}]", v.join(","))
}

fn render_update(rule: Rule, market: &str, v: &Venue, w: &Win) -> String {
    // final quantity per touched price within the window, in last-touch order
    let mut levels: Vec<((bool, u8), u8)> = Vec::new();
    for c in &v.changes[w.lo..w.hi] {
        levels.retain(|(k, _)| *k != (c.bid, c.p));
        levels.push(((c.bid, c.p), c.q));
    }
    let e = 1_700_000_000_000u64 + w.last;
    match rule {
        Rule::Spot => format!(
            "{{\"e\":\"depthUpdate\",\"E\":{e},\"s\":\"{market}\",\"U\":{},\"u\":{},\"b\":{},\"a\":{}}}",
            w.first,
            w.last,
            levels_json(&levels, true),
            levels_json(&levels, false)
        ),
        Rule::Futures => format!(
            "{{\"e\":\"depthUpdate\",\"E\":{e},\"T\":{},\"s\":\"{market}\",\"U\":{},\"u\":{},\"pu\":{},\"b\":{},\"a\":{}}}",
            e - 1,
            w.first,
            w.last,
            w.pu,
            levels_json(&levels, true),
            levels_json(&levels, false)
        ),
    }
}

fn render_unknown(rule: Rule, n: u64) -> String {
    let w = Win { first: n + 1, last: n + 2, pu: n, lo: 0, hi: 0 };
    let v = Venue { market: 0, changes: vec![], windows: vec![], alt_windows: vec![], base_depth: 0 };
    render_update(rule, UNKNOWN_MARKET, &v, &w)
}

fn render_snapshot(rule: Rule, v: &Venue, s: u64) -> String {
    let levels: Vec<((bool, u8), u8)> = v.state_at(s).into_iter().collect();
    match rule {
        Rule::Spot => format!("{{\"lastUpdateId\":{s},\"bids\":{},\"asks\":{}}}", levels_json(&levels, true), levels_json(&levels, false)),
        Rule::Futures => format!(
            "{{\"lastUpdateId\":{s},\"E\":1700000000000,\"T\":1699999999999,\"bids\":{},\"asks\":{}}}",
            levels_json(&levels, true),
            levels_json(&levels, false)
        ),
    }
}

fn render_delivery(h: &History, conn: &Conn) -> Vec<String> {
    conn.delivery
        .iter()
        .enumerate()
        .map(|(n, d)| {
            if d.i == UNKNOWN || d.i as usize >= h.venues.len() {
                render_unknown(h.rule, n as u64)
            } else {
                let v = &h.venues[d.i as usize];
                render_update(h.rule, MARKETS[v.market].2, v, &v.win(d.w as usize))
            }
        })
        .collect()
}

// ------------------------------------------------------------------------------------------------
// The two rule sets: real transformers + real subscription maps

pub trait RuleSet: 'static {
    #[allow(dead_code)]
    const RULE: Rule;
    const EXCHANGE: ExchangeId;
    type Exch;
    type T: ExchangeTransformer<Self::Exch, Key, OrderBooksL2> + 'static;
    /// the library's own SubscriptionId -> instrument map for these markets
    fn instrument_map(markets: &[usize]) -> (Map<Key>, Vec<Key>);
}

pub struct SpotRules;
pub struct FuturesRules;

impl RuleSet for SpotRules {
    const RULE: Rule = Rule::Spot;
    const EXCHANGE: ExchangeId = ExchangeId::BinanceSpot;
    type Exch = BinanceSpot;
    type T = BinanceSpotOrderBooksL2Transformer<Key>;
    fn instrument_map(markets: &[usize]) -> (Map<Key>, Vec<Key>) {
        let subs: Vec<Subscription<BinanceSpot, Key, OrderBooksL2>> = markets
            .iter()
            .map(|m| Subscription::new(BinanceSpot::default(), (MARKETS[*m].0, MARKETS[*m].1, MarketDataInstrumentKind::Spot), OrderBooksL2))
            .collect();
        let keys = subs.iter().map(|s| s.instrument.clone()).collect();
        (WebSocketSubMapper::map(&subs).instrument_map, keys)
    }
}

impl RuleSet for FuturesRules {
    const RULE: Rule = Rule::Futures;
    const EXCHANGE: ExchangeId = ExchangeId::BinanceFuturesUsd;
    type Exch = BinanceFuturesUsd;
    type T = BinanceFuturesUsdOrderBooksL2Transformer<Key>;
    fn instrument_map(markets: &[usize]) -> (Map<Key>, Vec<Key>) {
        let subs: Vec<Subscription<BinanceFuturesUsd, Key, OrderBooksL2>> = markets
            .iter()
            .map(|m| {
                Subscription::new(BinanceFuturesUsd::default(), (MARKETS[*m].0, MARKETS[*m].1, MarketDataInstrumentKind::Perpetual), OrderBooksL2)
            })
            .collect();
        let keys = subs.iter().map(|s| s.instrument.clone()).collect();
        (WebSocketSubMapper::map(&subs).instrument_map, keys)
    }
}

fn snapshot_events<R: RuleSet>(h: &History, conn: &Conn, keys: &[Key]) -> Result<Vec<Ev>, String> {
    h.venues
        .iter()
        .enumerate()
        .map(|(j, v)| {
            let text = render_snapshot(h.rule, v, conn.snapshot_ids[j]);
            let snap: BinanceOrderBookL2Snapshot = serde_json::from_str(&text).map_err(|e| format!("snapshot json: {e}: {text}"))?;
            Ok(MarketEvent::from((R::EXCHANGE, keys[j].clone(), snap)))
        })
        .collect()
}

fn build_transformer<R: RuleSet>(h: &History, conn: &Conn) -> Result<(R::T, Vec<Key>, Vec<Ev>), String> {
    let markets: Vec<usize> = h.venues.iter().map(|v| v.market).collect();
    let (map, keys) = R::instrument_map(&markets);
    if map.0.len() != markets.len() {
        return Err(format!("instrument map has {} entries for {} markets", map.0.len(), markets.len()));
    }
    for m in &markets {
        let want = format!("@depth@100ms|{}", MARKETS[*m].2);
        if !map.0.keys().any(|k| k.0.as_str() == want) {
            return Err(format!("subscription id {want} not formed by the library: {:?}", map.0.keys().collect::<Vec<_>>()));
        }
    }
    let snaps = snapshot_events::<R>(h, conn, &keys)?;
    let (tx, _rx) = tokio::sync::mpsc::unbounded_channel::<WsMessage>();
    let t = futures::executor::block_on(R::T::init(map, &snaps, tx)).map_err(|e| format!("transformer init: {e}"))?;
    Ok((t, keys, snaps))
}

// ------------------------------------------------------------------------------------------------
// Stage 1 monitor

#[derive(Debug, Clone, Copy, PartialEq, Eq)]
enum Outcome {
    Admitted,
    Dropped,
    ErrSeq,
    ErrOther,
    Unknown,
}

#[derive(Debug)]
struct Viol {
    sig: String,
    detail: String,
}

/// The consumer's side of the contract: apply an emitted event to the local book. A panic of the book
/// while applying what the transformer ADMITTED is a delivery that was not applied - a violation, not a
/// harness error.
fn apply_to_book(book: &mut OrderBook, kind: &OrderBookEvent, what: &str) -> Result<(), Viol> {
    catch(|| book.update(kind.clone())).map_err(|p| Viol {
        sig: "panic_applying_admitted_update_to_local_book".into(),
        detail: format!("{what}: OrderBook::update panicked: {p}"),
    })
}

#[derive(Default)]
struct Stats {
    messages: u64,
    checks: u64,
    cells: BTreeSet<&'static str>,
    info: BTreeMap<&'static str, u64>,
    outcome_classes: BTreeSet<u8>,
}

impl Stats {
    fn info(&mut self, k: &'static str) {
        *self.info.entry(k).or_insert(0) += 1;
    }
}

fn local_levels(book: &OrderBook) -> (Vec<(Decimal, Decimal)>, Vec<(Decimal, Decimal)>) {
    (
        book.bids().levels().iter().map(|l| (l.price, l.amount)).collect(),
        book.asks().levels().iter().map(|l| (l.price, l.amount)).collect(),
    )
}

fn book_matches(v: &Venue, book: &OrderBook) -> Result<(), String> {
    let want = v.book_at(book.sequence);
    let got = local_levels(book);
    if want == got {
        Ok(())
    } else {
        Err(format!(
            "market {} sequence {}: expected bids {:?} asks {:?}; observed bids {:?} asks {:?}",
            MARKETS[v.market].2, book.sequence, want.0, want.1, got.0, got.1
        ))
    }
}

struct Mon {
    local: OrderBook,
    admitted: Vec<usize>,
    seen: Vec<usize>,
    errored: bool,
}

/// Deliver `conn.delivery` (optionally only instrument `only`'s messages) to a fresh real
/// transformer; returns the per-message outcomes (None for filtered-out messages).
fn run_conn<R: RuleSet>(h: &History, conn: &Conn, only: Option<u8>, judge: bool, stats: &mut Stats) -> Result<Vec<Option<Outcome>>, Viol> {
    let harness = |m: String| Viol { sig: "HARNESS".into(), detail: m };
    let (mut t, keys, snaps) = build_transformer::<R>(h, conn).map_err(harness)?;
    let rule = h.rule;
    let mut mons: Vec<Mon> = snaps
        .iter()
        .map(|s| {
            let mut b = OrderBook::default();
            b.update(s.kind.clone());
            Mon { local: b, admitted: vec![], seen: vec![], errored: false }
        })
        .collect();
    if judge {
        for (j, m) in mons.iter().enumerate() {
            book_matches(&h.venues[j], &m.local).map_err(|d| harness(format!("snapshot book differs from venue: {d}")))?;
        }
    }
    let texts = render_delivery(h, conn);
    let mut outcomes = Vec::with_capacity(texts.len());
    let mut any_error = false;

    for (n, (d, text)) in conn.delivery.iter().zip(texts.iter()).enumerate() {
        if let Some(b) = only {
            if d.i != b {
                outcomes.push(None);
                continue;
            }
        }
        let unknown = d.i == UNKNOWN || d.i as usize >= h.venues.len();
        let input: <R::T as Transformer>::Input = serde_json::from_str(text).map_err(|e| harness(format!("update json: {e}: {text}")))?;
        let outs: Vec<Result<Ev, DataError>> = match catch(|| t.transform(input).into_iter().collect::<Vec<_>>()) {
            Ok(o) => o,
            Err(p) => return Err(Viol { sig: "panic_in_l2_transformer".into(), detail: format!("message #{n} {text}: panic {p}") }),
        };
        stats.messages += 1;
        let suffix = if any_error { "_after_ignored_error" } else { "" };
        let mut outcome = Outcome::Dropped;

        for out in outs {
            match out {
                Ok(ev) => {
                    let Some(j) = keys.iter().position(|k| *k == ev.instrument) else {
                        return Err(Viol { sig: "update_attributed_to_wrong_instrument".into(), detail: format!("message #{n} {text}: event for unknown key {:?}", ev.instrument) });
                    };
                    if unknown || j != d.i as usize {
                        return Err(Viol {
                            sig: "update_attributed_to_wrong_instrument".into(),
                            detail: format!("message #{n} {text}: emitted an update for {}", MARKETS[h.venues[j].market].2),
                        });
                    }
                    let v = &h.venues[j];
                    let w = v.win(d.w as usize);
                    let s = conn.snapshot_ids[j];
                    let mon = &mut mons[j];
                    apply_to_book(&mut mon.local, &ev.kind, &format!("message #{n} {text}"))?;
                    outcome = Outcome::Admitted;
                    let mut chain_viol: Option<Viol> = None;
                    if judge {
                        // (ii) chain rule re-derived from the admitted messages only
                        stats.checks += 1;
                        match mon.admitted.last() {
                            None => {
                                let ok = match rule {
                                    Rule::Spot => w.first <= s + 1 && s + 1 <= w.last,
                                    Rule::Futures => w.first <= s && s <= w.last,
                                };
                                if !ok {
                                    chain_viol = Some(Viol {
                                        sig: format!("admitted_first_update_breaks_chain_rule{suffix}"),
                                        detail: format!("message #{n} U={} u={} admitted as first update after snapshot id {s}", w.first, w.last),
                                    });
                                }
                                let inside = match rule {
                                    Rule::Spot => w.first <= s,
                                    Rule::Futures => s < w.last,
                                };
                                stats.cells.insert(if inside { "first_accept_snapshot_inside_window" } else { "first_accept_snapshot_on_boundary" });
                            }
                            Some(&pw) => {
                                let prev = v.win(pw);
                                let ok = match rule {
                                    Rule::Spot => w.first == prev.last + 1,
                                    Rule::Futures => w.pu == prev.last,
                                };
                                if !ok {
                                    chain_viol = Some(Viol {
                                        sig: format!("admitted_next_update_breaks_chain_rule{suffix}"),
                                        detail: format!(
                                            "message #{n} U={} u={} pu={} admitted after previously admitted u={}",
                                            w.first, w.last, w.pu, prev.last
                                        ),
                                    });
                                }
                                stats.cells.insert("next_accept");
                            }
                        }
                    }
                    mon.admitted.push(d.w as usize);
                    if judge {
                        // (i) book equality at the sequence the book reports
                        stats.checks += 1;
                        // a silently wrong book is reported in preference to the chain break that caused it
                        if let Err(dt) = book_matches(v, &mon.local) {
                            let cause = chain_viol.map(|c| format!(" [chain monitor: {}]", c.detail)).unwrap_or_default();
                            return Err(Viol { sig: format!("book_differs_from_venue{suffix}"), detail: format!("after message #{n} {text}: {dt}{cause}") });
                        }
                        if let Some(c) = chain_viol {
                            return Err(c);
                        }
                    }
                }
                Err(e) => {
                    if unknown {
                        outcome = Outcome::Unknown;
                        if judge {
                            stats.info(if e.is_terminal() { "unknown_market_error_terminal" } else { "unknown_market_error_non_terminal" });
                        }
                        continue;
                    }
                    let j = d.i as usize;
                    let v = &h.venues[j];
                    let w = v.win(d.w as usize);
                    let s = conn.snapshot_ids[j];
                    let is_seq = matches!(e, DataError::InvalidSequence { .. });
                    outcome = if is_seq { Outcome::ErrSeq } else { Outcome::ErrOther };
                    if judge {
                        stats.checks += 1;
                        // (v) kind + terminality
                        if !is_seq {
                            return Err(Viol { sig: "break_error_wrong_kind".into(), detail: format!("message #{n} {text}: error {e:?} is not InvalidSequence") });
                        }
                        if !e.is_terminal() {
                            return Err(Viol { sig: "break_error_not_terminal".into(), detail: format!("message #{n} {text}: {e:?}.is_terminal() == false") });
                        }
                        // (iii) clean delivery never errors
                        let mon = &mons[j];
                        let mut seq = mon.seen.clone();
                        seq.push(d.w as usize);
                        let consecutive = seq.iter().all(|x| *x < ALT) && seq.windows(2).all(|p| p[1] == p[0] + 1);
                        let f = v.first_valid(rule, s);
                        let all_older = seq.iter().all(|x| v.strictly_older(rule, s, *x));
                        let clean = consecutive && (all_older || f.is_some_and(|f| seq[0] <= f));
                        if clean {
                            return Err(Viol {
                                sig: "clean_delivery_errored".into(),
                                detail: format!(
                                    "{} delivered windows {:?} in venue order without omission (snapshot id {s}, first valid window {:?}) but message #{n} U={} u={} pu={} produced {e:?}",
                                    MARKETS[v.market].2, seq, f, w.first, w.last, w.pu
                                ),
                            });
                        }
                        // classification (coverage / unjudged counters)
                        let head = mon.admitted.last().map(|pw| v.win(*pw).last).unwrap_or(s);
                        if mon.admitted.is_empty() {
                            stats.cells.insert("first_update_rejected");
                        } else {
                            let gap = match rule {
                                Rule::Spot => w.first > head + 1,
                                Rule::Futures => w.pu > head,
                            };
                            if gap {
                                stats.cells.insert("next_update_rejected_gap");
                            } else {
                                stats.cells.insert("next_update_rejected_overlap_or_duplicate");
                            }
                        }
                        if mon.seen.contains(&(d.w as usize)) {
                            stats.info("error_on_duplicate_delivery");
                        }
                    }
                    mons[j].errored = true;
                    any_error = true;
                }
            }
        }

        if !unknown {
            let j = d.i as usize;
            let v = &h.venues[j];
            let w = v.win(d.w as usize);
            let mon = &mut mons[j];
            if outcome == Outcome::Dropped && judge {
                // (vi) silently dropped => must not be strictly fresh
                stats.checks += 1;
                let head = mon.admitted.last().map(|pw| v.win(*pw).last).unwrap_or(conn.snapshot_ids[j]);
                if w.last > head {
                    return Err(Viol {
                        sig: format!("fresh_update_silently_dropped{suffix}"),
                        detail: format!("message #{n} {text}: u={} is beyond the chain head {head} but neither admitted nor rejected", w.last),
                    });
                }
                stats.cells.insert("stale_dropped_silently");
                if mon.admitted.last() == Some(&(d.w as usize)) {
                    stats.cells.insert("duplicate_of_just_applied_dropped");
                }
            }
            mon.seen.push(d.w as usize);
        }
        stats.outcome_classes.insert(match outcome {
            Outcome::Admitted => 0,
            Outcome::Dropped => 1,
            Outcome::ErrSeq | Outcome::ErrOther => 2,
            Outcome::Unknown => 3,
        });
        outcomes.push(Some(outcome));
    }

    if judge {
        // unjudged liveness counter: clean delivery whose fresh tail was not applied
        for (j, mon) in mons.iter().enumerate() {
            let v = &h.venues[j];
            if let (Some(&lastw), false) = (mon.seen.last(), mon.errored) {
                if v.win(lastw).last > mon.local.sequence && lastw < ALT && mon.seen.windows(2).all(|p| p[1] == p[0] + 1) {
                    stats.info("in_order_delivery_ended_behind_last_window");
                }
            }
        }
    }
    Ok(outcomes)
}

/// structural coverage cells derived from the history itself
fn structural_cells(h: &History, conn: &Conn, stats: &mut Stats) {
    let rule = h.rule;
    let mut active = 0;
    for (j, v) in h.venues.iter().enumerate() {
        let s = conn.snapshot_ids[j];
        let all: Vec<usize> = conn.delivery.iter().filter(|d| d.i as usize == j).map(|d| d.w as usize).collect();
        if all.is_empty() {
            continue;
        }
        active += 1;
        if all.iter().any(|x| *x >= ALT) {
            stats.cells.insert("overlapping_reaggregated_window_delivered");
            continue;
        }
        let seq = all;
        let f = v.first_valid(rule, s);
        if v.windows.iter().any(|w| w.first <= s && s < w.last) {
            stats.cells.insert("snapshot_inside_window");
        }
        if v.windows.iter().any(|w| w.last == s) {
            stats.cells.insert("snapshot_on_window_boundary");
        }
        if f.is_none() && v.windows.first().is_some_and(|w| s < w.first) {
            stats.cells.insert("snapshot_before_first_window");
        }
        if v.windows.iter().all(|w| w.last <= s) {
            stats.cells.insert("snapshot_after_last_window");
        }
        if f.is_none() && v.windows.first().is_some_and(|w| s >= w.first) && v.windows.last().is_some_and(|w| s < w.last) {
            stats.cells.insert("snapshot_in_id_gap_between_windows");
        }
        match f {
            Some(f) if seq[0] < f => {
                stats.cells.insert("start_early");
            }
            Some(f) if seq[0] > f => {
                stats.cells.insert("start_late");
            }
            None if !v.strictly_older(rule, s, seq[0]) => {
                stats.cells.insert("start_late");
            }
            _ => {}
        }
        let consecutive = seq.windows(2).all(|p| p[1] == p[0] + 1);
        if consecutive && f.is_some_and(|f| seq[0] <= f && *seq.last().unwrap() > f) {
            stats.cells.insert("clean_delivery");
            if seq[0] < f.unwrap() {
                stats.cells.insert("clean_delivery_with_older_prefix");
            }
        }
        for (k, p) in seq.windows(2).enumerate() {
            if p[1] == p[0] {
                stats.cells.insert("duplicate_adjacent");
            }
            if p[1] > p[0] + 1 {
                stats.cells.insert("window_dropped");
            }
            if p[0] == p[1] + 1 {
                stats.cells.insert("adjacent_swap");
            }
            if p[1] + 1 < p[0] && seq.get(k + 2) == Some(&(p[1] + 1)) {
                stats.cells.insert("replay_old_prefix");
            }
        }
        let mut sorted = seq.clone();
        sorted.sort_unstable();
        if sorted.windows(2).any(|p| p[0] == p[1]) {
            stats.cells.insert("duplicate_delivered");
        }
    }
    if active >= 2 {
        let switches = conn.delivery.windows(2).filter(|p| p[0].i != p[1].i).count();
        if switches >= 2 {
            stats.cells.insert("multi_instrument_interleave");
        }
    }
    if conn.delivery.iter().any(|d| d.i == UNKNOWN) {
        stats.cells.insert("unknown_market_message");
    }
}

fn judge_stage1<R: RuleSet>(h: &History, stats: &mut Stats) -> Option<Viol> {
    let conn = &h.conns[0];
    let full = match run_conn::<R>(h, conn, None, true, stats) {
        Ok(o) => o,
        Err(v) => return Some(v),
    };
    // (iv) isolation
    let n_active = (0..h.venues.len()).filter(|j| conn.delivery.iter().any(|d| d.i as usize == *j)).count();
    if n_active >= 2 || (n_active == 1 && conn.delivery.iter().any(|d| d.i == UNKNOWN)) {
        for j in 0..h.venues.len() {
            if !conn.delivery.iter().any(|d| d.i as usize == j) {
                continue;
            }
            let mut scratch = Stats::default();
            let alone = match run_conn::<R>(h, conn, Some(j as u8), false, &mut scratch) {
                Ok(o) => o,
                Err(v) => return Some(v),
            };
            stats.checks += 1;
            for (n, (a, b)) in alone.iter().zip(full.iter()).enumerate() {
                if a.is_some() && a != b {
                    return Some(Viol {
                        sig: "cross_instrument_interference".into(),
                        detail: format!(
                            "{} message #{n}: outcome {:?} when its stream is delivered alone but {:?} when interleaved with the other instruments",
                            MARKETS[h.venues[j].market].2,
                            a.unwrap(),
                            b.unwrap()
                        ),
                    });
                }
            }
            stats.cells.insert("isolation_compared");
        }
    }
    structural_cells(h, conn, stats);
    None
}

// ------------------------------------------------------------------------------------------------
// Stage 2: real ExchangeStream + reconnect combinators

#[derive(Debug, Clone, PartialEq, Eq)]
enum Tok {
    Snap(usize, u64),
    Upd(usize, u64),
    SeqErr,
    OtherErr,
    Reconnecting,
}

/// Reference chain model (appendix A.2), used only to predict stage-2 event sequences.
/// None = the rule leaves the outcome open (futures duplicate of the chain head).
fn spec_step(rule: Rule, head: u64, first_done: bool, w: &Win) -> Option<Outcome> {
    match rule {
        Rule::Spot => {
            if w.last <= head {
                Some(Outcome::Dropped)
            } else if (!first_done && w.first <= head + 1) || (first_done && w.first == head + 1) {
                Some(Outcome::Admitted)
            } else {
                Some(Outcome::ErrSeq)
            }
        }
        Rule::Futures => {
            if w.last < head {
                Some(Outcome::Dropped)
            } else if !first_done {
                Some(if w.first <= head { Outcome::Admitted } else { Outcome::ErrSeq })
            } else if w.last == head {
                None
            } else {
                Some(if w.pu == head { Outcome::Admitted } else { Outcome::ErrSeq })
            }
        }
    }
}

type InnerWs = Pin<Box<dyn Stream<Item = Result<WsMessage, WsError>>>>;

struct Script {
    map: Map<Key>,
    snaps: Vec<Ev>,
    msgs: Vec<String>,
    pending_tail: bool,
}

fn judge_stage2<R: RuleSet>(h: &History, stats: &mut Stats) -> Option<Viol> {
    let harness = |m: String| Some(Viol { sig: "HARNESS".into(), detail: m });
    let rule = h.rule;
    let markets: Vec<usize> = h.venues.iter().map(|v| v.market).collect();
    // tail connection: snapshot at the end of the log, nothing delivered, never ends
    let mut conns = h.conns.clone();
    for c in &mut conns {
        c.delivery.retain(|d| (d.i as usize) < h.venues.len());
    }
    conns.push(Conn { snapshot_ids: h.venues.iter().map(|v| v.max_id()).collect(), delivery: vec![] });

    // expected consumer-side tokens
    let mut expected: Vec<Tok> = Vec::new();
    let mut breaks = 0;
    for (ci, c) in conns.iter().enumerate() {
        for (j, s) in c.snapshot_ids.iter().enumerate() {
            expected.push(Tok::Snap(j, *s));
        }
        let mut head: Vec<u64> = c.snapshot_ids.clone();
        let mut first_done = vec![false; h.venues.len()];
        for d in &c.delivery {
            let j = d.i as usize;
            let w = &h.venues[j].win(d.w as usize);
            match spec_step(rule, head[j], first_done[j], w) {
                None => {
                    stats.info("stage2_outcome_open_case_skipped");
                    return None;
                }
                Some(Outcome::Admitted) => {
                    head[j] = w.last;
                    first_done[j] = true;
                    expected.push(Tok::Upd(j, w.last));
                }
                Some(Outcome::ErrSeq) => {
                    breaks += 1;
                    break;
                }
                _ => {}
            }
        }
        if ci + 1 < conns.len() {
            expected.push(Tok::Reconnecting);
        }
    }

    // scripts
    let mut scripts = VecDeque::new();
    let mut keys_all = Vec::new();
    for (ci, c) in conns.iter().enumerate() {
        let (map, keys) = R::instrument_map(&markets);
        let snaps = match snapshot_events::<R>(h, c, &keys) {
            Ok(s) => s,
            Err(e) => return harness(e),
        };
        keys_all = keys;
        scripts.push_back(Script { map, snaps, msgs: render_delivery(h, c), pending_tail: ci + 1 == conns.len() });
    }
    let scripts = Rc::new(RefCell::new(scripts));

    let rt = match tokio::runtime::Builder::new_current_thread().enable_time().start_paused(true).build() {
        Ok(rt) => rt,
        Err(e) => return harness(format!("runtime: {e}")),
    };
    let observed: Result<Vec<Event<ExchangeId, Result<Ev, DataError>>>, String> = rt.block_on(async {
        let key = StreamKey::new("market_stream", R::EXCHANGE, Some("l2"));
        let init = {
            let scripts = scripts.clone();
            move || {
                let script = scripts.borrow_mut().pop_front();
                async move {
                    let Some(s) = script else {
                        return Err(DataError::Socket("harness: script exhausted".into()));
                    };
                    let (tx, _rx) = tokio::sync::mpsc::unbounded_channel::<WsMessage>();
                    let transformer = R::T::init(s.map, &s.snaps, tx).await?;
                    let mut frames: Vec<Result<WsMessage, WsError>> = vec![Ok(WsMessage::Ping(Default::default()))];
                    frames.extend(s.msgs.into_iter().map(|m| Ok(WsMessage::text(m))));
                    let inner: InnerWs =
                        if s.pending_tail { Box::pin(stream::iter(frames).chain(stream::pending())) } else { Box::pin(stream::iter(frames)) };
                    Ok(ExchangeStream::<WebSocketParser, InnerWs, R::T>::new(inner, transformer, s.snaps.into_iter().map(Ok).collect()))
                }
            }
        };
        let stream = init_reconnecting_stream(init)
            .await
            .map_err(|e| format!("initial connection: {e}"))?
            .with_reconnect_backoff(ReconnectionBackoffPolicy::new(125, 2, 1000), key)
            .with_termination_on_error(|e: &DataError| e.is_terminal(), key)
            .with_reconnection_events(R::EXCHANGE);
        let mut stream = Box::pin(stream);
        let mut got = Vec::new();
        while let Ok(Some(ev)) = tokio::time::timeout(Duration::from_secs(10), stream.next()).await {
            got.push(ev);
            if got.len() > 10_000 {
                break;
            }
        }
        Ok(got)
    });
    let observed = match observed {
        Ok(o) => o,
        Err(e) => return harness(e),
    };

    // consumer-side books + tokens
    let mut books: Vec<OrderBook> = vec![OrderBook::default(); h.venues.len()];
    let mut toks: Vec<Tok> = Vec::new();
    for ev in &observed {
        stats.messages += 1;
        match ev {
            Event::Reconnecting(origin) => {
                if *origin != R::EXCHANGE {
                    return Some(Viol { sig: "reconnecting_notice_wrong_origin".into(), detail: format!("{origin:?}") });
                }
                toks.push(Tok::Reconnecting);
            }
            Event::Item(Err(e)) => toks.push(if matches!(e, DataError::InvalidSequence { .. }) { Tok::SeqErr } else { Tok::OtherErr }),
            Event::Item(Ok(me)) => {
                let Some(j) = keys_all.iter().position(|k| *k == me.instrument) else {
                    return Some(Viol { sig: "update_attributed_to_wrong_instrument".into(), detail: format!("stage 2: {:?}", me.instrument) });
                };
                if let Err(v) = apply_to_book(&mut books[j], &me.kind, "stage 2") {
                    return Some(v);
                }
                toks.push(match &me.kind {
                    OrderBookEvent::Snapshot(b) => Tok::Snap(j, b.sequence),
                    OrderBookEvent::Update(b) => Tok::Upd(j, b.sequence),
                });
            }
        }
    }
    stats.checks += 1;
    if toks != expected {
        let k = toks.iter().zip(expected.iter()).position(|(a, b)| a != b).unwrap_or(toks.len().min(expected.len()));
        let sig = match (toks.get(k), expected.get(k)) {
            (Some(Tok::SeqErr), _) => "sequence_break_did_not_end_connection",
            (Some(Tok::Upd(..)), Some(Tok::Reconnecting)) => "items_delivered_after_sequence_break",
            (Some(Tok::Reconnecting), Some(Tok::Reconnecting)) | (None, Some(Tok::Reconnecting)) => "reconnecting_notice_missing",
            (Some(Tok::Reconnecting), _) => "unexpected_reconnecting_notice",
            _ => "reconnect_event_sequence_mismatch",
        };
        return Some(Viol { sig: sig.into(), detail: format!("consumer-side events differ at position {k}: expected {expected:?}; observed {toks:?}") });
    }
    // book equality replayed over the observed events (same order)
    let mut books: Vec<OrderBook> = vec![OrderBook::default(); h.venues.len()];
    for ev in &observed {
        if let Event::Item(Ok(me)) = ev {
            let j = keys_all.iter().position(|k| *k == me.instrument).unwrap();
            if let Err(v) = apply_to_book(&mut books[j], &me.kind, "stage 2") {
                return Some(v);
            }
            stats.checks += 1;
            if let Err(d) = book_matches(&h.venues[j], &books[j]) {
                return Some(Viol { sig: "book_differs_from_venue".into(), detail: format!("stage 2: {d}") });
            }
        }
    }
    if breaks > 0 {
        stats.cells.insert("stage2_break_ends_connection_one_notice");
        stats.outcome_classes.insert(2);
    }
    if toks.iter().filter(|t| **t == Tok::Reconnecting).count() >= 2 {
        stats.cells.insert("stage2_exhausted_connection_one_notice");
    }
    let after_first_reconnect = toks.iter().skip_while(|t| **t != Tok::Reconnecting);
    if after_first_reconnect.clone().any(|t| matches!(t, Tok::Upd(..))) {
        stats.cells.insert("stage2_reinitialised_connection_admits_updates");
        stats.outcome_classes.insert(0);
    }
    if h.venues.len() >= 2 {
        stats.cells.insert("stage2_multi_instrument_connection");
    }
    stats.outcome_classes.insert(1);
    None
}

// ------------------------------------------------------------------------------------------------
// Execute one history under the monitor, report, shrink

fn judge_history(h: &History, stats: &mut Stats) -> Option<Viol> {
    let ok_shape = !h.conns.is_empty()
        && h.conns.iter().all(|c| {
            c.snapshot_ids.len() == h.venues.len()
                && c.delivery.iter().all(|d| d.i == UNKNOWN || ((d.i as usize) < h.venues.len() && ((d.w as usize) < h.venues[d.i as usize].windows.len() || ((d.w as usize) >= ALT && (d.w as usize) - ALT < h.venues[d.i as usize].alt_windows.len()))))
        })
        && h.venues.iter().all(|v| v.market < MARKETS.len() && v.windows.iter().chain(v.alt_windows.iter()).all(|w| w.lo <= w.hi && w.hi <= v.changes.len()));
    if !ok_shape {
        return Some(Viol { sig: "HARNESS".into(), detail: "malformed history".into() });
    }
    match (h.rule, h.stage) {
        (Rule::Spot, 2) => judge_stage2::<SpotRules>(h, stats),
        (Rule::Futures, 2) => judge_stage2::<FuturesRules>(h, stats),
        (Rule::Spot, _) => judge_stage1::<SpotRules>(h, stats),
        (Rule::Futures, _) => judge_stage1::<FuturesRules>(h, stats),
    }
}

fn with_flat(h: &History, flat: &[(usize, Deliv)]) -> History {
    let mut c = h.clone();
    for (ci, conn) in c.conns.iter_mut().enumerate() {
        conn.delivery = flat.iter().filter(|(k, _)| *k == ci).map(|(_, d)| *d).collect();
    }
    c
}

fn witness_json(h: &History) -> serde_json::Value {
    let rendered: Vec<Vec<String>> = h.conns.iter().map(|c| render_delivery(h, c)).collect();
    let snapshots: Vec<Vec<String>> =
        h.conns.iter().map(|c| h.venues.iter().enumerate().map(|(j, v)| render_snapshot(h.rule, v, c.snapshot_ids[j])).collect()).collect();
    json!({"case": h, "rendered_snapshots": snapshots, "rendered_messages": rendered})
}

fn execute(h: &History, report: &mut Report) {
    let mut stats = Stats::default();
    let res = judge_history(h, &mut stats);
    report.events_observed += stats.messages;
    report.oracle_checks += stats.checks;
    let rule = h.rule.name();
    for c in &stats.cells {
        report.cover(&format!("{rule}:{c}"));
    }
    for (k, n) in &stats.info {
        report.info(&format!("{rule}:{k}"), *n);
    }
    let n_msgs: usize = h.conns.iter().map(|c| c.delivery.len()).sum();
    let nontrivial = n_msgs >= 3 && stats.outcome_classes.iter().filter(|c| **c <= 2).count() >= 2;
    let hash = fnv1a(serde_json::to_string(h).unwrap_or_default().as_bytes());
    report.case(hash, nontrivial);
    if nontrivial && n_msgs >= 5 {
        report.sample(|| witness_json(h));
    }
    let Some(v) = res else { return };
    if v.sig == "HARNESS" {
        report.harness_errors.push(v.detail);
        return;
    }
    let flat: Vec<(usize, Deliv)> = h.conns.iter().enumerate().flat_map(|(ci, c)| c.delivery.iter().map(move |d| (ci, *d))).collect();
    let small = shrink(&flat, |cand| {
        let mut st = Stats::default();
        matches!(judge_history(&with_flat(h, cand), &mut st), Some(x) if x.sig == v.sig)
    });
    let hs = with_flat(h, &small);
    let mut st = Stats::default();
    let detail = judge_history(&hs, &mut st).map(|x| x.detail).unwrap_or(v.detail);
    report.violation(&v.sig, detail, witness_json(&hs));
}

// ------------------------------------------------------------------------------------------------
// Generators

fn gen_venue(rng: &mut Rng, rule: Rule, market: usize, n_win: usize) -> Venue {
    let mut changes = Vec::new();
    let mut windows = Vec::new();
    let mut present: BTreeSet<(bool, u8)> = BTreeSet::new();
    let base_depth: u8 = if rng.chance(1, 4) { 40 } else { 0 };
    let grid = GRID.max(base_depth);
    for p in (0..base_depth).step_by(2) {
        present.insert((true, p));
        present.insert((false, p));
    }
    let mut next_first = rng.range(1, 5) as u64;
    let mut pu = next_first.saturating_sub(1 + rng.below(3));
    for _ in 0..n_win {
        let n_ch = if rng.chance(1, 10) { 0 } else { rng.range_u(1, 3) };
        let span = (n_ch as u64).max(1) + if rng.chance(1, 3) { rng.below(3) } else { 0 };
        let first = next_first;
        let last = first + span - 1;
        // n_ch distinct ids in [first,last]
        let mut ids: Vec<u64> = (first..=last).collect();
        rng.shuffle(&mut ids);
        ids.truncate(n_ch);
        ids.sort_unstable();
        let lo = changes.len();
        for id in ids {
            let bid = rng.bool();
            let p = rng.below(grid as u64) as u8;
            let q = if present.contains(&(bid, p)) {
                if rng.chance(2, 5) { 0 } else { rng.range(1, 5) as u8 }
            } else if rng.chance(1, 7) {
                0
            } else {
                rng.range(1, 5) as u8
            };
            if q == 0 {
                present.remove(&(bid, p));
            } else {
                present.insert((bid, p));
            }
            changes.push(Change { id, bid, p, q });
        }
        windows.push(Win { first, last, pu, lo, hi: changes.len() });
        pu = last;
        next_first = last + 1 + if rule == Rule::Futures && rng.chance(1, 2) { rng.range(1, 3) as u64 } else { 0 };
    }
    let mut v = Venue { market, changes, windows, alt_windows: vec![], base_depth };
    for _ in 0..2 {
        let a = rng.usize_below(n_win - 1);
        let b = rng.range_u(a + 1, (a + 2).min(n_win - 1));
        let m = v.merged(a, b);
        v.alt_windows.push(m);
    }
    v
}

fn gen_snapshot_id(rng: &mut Rng, v: &Venue) -> u64 {
    let n = v.windows.len();
    match rng.below(6) {
        0 | 1 => {
            let w = v.windows[rng.usize_below(n)];
            if w.last > w.first { rng.range(w.first as i64, w.last as i64 - 1) as u64 } else { w.first }
        }
        2 => v.windows[rng.usize_below(n)].last,
        3 => rng.below(v.windows[0].first),
        4 => v.max_id() + rng.below(3),
        _ => rng.below(v.max_id() + 2),
    }
}

fn gen_delivery(rng: &mut Rng, rule: Rule, v: &Venue, s: u64) -> Vec<usize> {
    let n = v.windows.len();
    let f = v.first_valid(rule, s);
    if rng.chance(35, 100) {
        // clean: venue order, no omission, starting at or before the first valid window
        if let Some(f) = f {
            let i = rng.usize_below(f + 1);
            let j = if rng.chance(3, 4) { n } else { rng.range_u((f + 1).min(n), n) };
            return (i..j).collect();
        }
    }
    let i = rng.usize_below(n);
    let mut seq: Vec<usize> = (i..n).collect();
    for _ in 0..rng.range_u(0, 3) {
        if seq.is_empty() {
            break;
        }
        let k = rng.usize_below(seq.len());
        match rng.below(6) {
            5 => {
                // a re-aggregated message overlapping venue windows
                let at = rng.usize_below(seq.len() + 1);
                seq.insert(at, ALT + rng.usize_below(v.alt_windows.len()));
            }
            0 => {
                seq.remove(k);
            }
            1 => {
                let x = seq[k];
                seq.insert(k + 1, x);
            }
            2 => {
                let x = seq[k];
                let at = rng.range_u(k + 1, seq.len());
                seq.insert(at, x);
            }
            3 => {
                if k + 1 < seq.len() {
                    seq.swap(k, k + 1);
                }
            }
            _ => {
                // replay an old prefix [a..=k] right after position at >= k
                let a = rng.usize_below(k + 1);
                let chunk: Vec<usize> = seq[a..=k].to_vec();
                let at = rng.range_u(k + 1, seq.len());
                for (o, x) in chunk.into_iter().enumerate() {
                    seq.insert(at + o, x);
                }
            }
        }
    }
    seq
}

fn interleave(rng: &mut Rng, per: Vec<Vec<usize>>) -> Vec<Deliv> {
    let mut cursors = vec![0usize; per.len()];
    let mut out = Vec::new();
    loop {
        let live: Vec<usize> = (0..per.len()).filter(|j| cursors[*j] < per[*j].len()).collect();
        if live.is_empty() {
            break;
        }
        let j = *rng.pick(&live);
        let burst = rng.range_u(1, 3);
        for _ in 0..burst {
            if cursors[j] < per[j].len() {
                out.push(Deliv { i: j as u8, w: per[j][cursors[j]] as u16 });
                cursors[j] += 1;
            }
        }
    }
    out
}

fn random_history(rng: &mut Rng, rule: Rule) -> History {
    let n_inst = *rng.pick(&[1usize, 1, 2, 2, 3]);
    let mut markets = vec![0usize, 1, 2];
    rng.shuffle(&mut markets);
    let venues: Vec<Venue> = (0..n_inst)
        .map(|j| {
            let n_win = rng.range_u(3, 8);
            gen_venue(rng, rule, markets[j], n_win)
        })
        .collect();
    let snapshot_ids: Vec<u64> = venues.iter().map(|v| gen_snapshot_id(rng, v)).collect();
    let per: Vec<Vec<usize>> = venues.iter().zip(&snapshot_ids).map(|(v, s)| gen_delivery(rng, rule, v, *s)).collect();
    let mut delivery = interleave(rng, per);
    if rng.chance(1, 20) {
        let at = rng.usize_below(delivery.len() + 1);
        delivery.insert(at, Deliv { i: UNKNOWN, w: 0 });
    }
    History { rule, stage: 1, venues, conns: vec![Conn { snapshot_ids, delivery }] }
}

/// stage 2: connection 1 = clean start, one omitted window, venue order afterwards (=> break);
/// connection 2 = fresh snapshot, clean delivery to the end of the log (=> ends by exhaustion).
fn random_stage2(rng: &mut Rng, rule: Rule) -> History {
    let n_inst = rng.range_u(1, 2);
    let venues: Vec<Venue> = (0..n_inst)
        .map(|j| {
            let n_win = rng.range_u(6, 9);
            gen_venue(rng, rule, j, n_win)
        })
        .collect();
    let mut conns = Vec::new();
    // connection 1
    let breaker = rng.usize_below(n_inst);
    let mut snaps1 = Vec::new();
    let mut per1 = Vec::new();
    for (j, v) in venues.iter().enumerate() {
        let n = v.windows.len();
        // snapshot inside/on one of the first three windows so that a valid first window exists
        let fw = v.windows[rng.usize_below(3)];
        let s = rng.range(fw.first as i64, fw.last as i64) as u64;
        let f = v.first_valid(rule, s).unwrap_or(0);
        let i = rng.usize_below(f + 1);
        let mut seq: Vec<usize> = (i..n).collect();
        if j == breaker {
            // omit one window strictly after f and not the last one
            let omit = rng.range_u(f + 1, n - 2);
            seq.retain(|x| *x != omit);
        }
        snaps1.push(s);
        per1.push(seq);
    }
    conns.push(Conn { snapshot_ids: snaps1, delivery: interleave(rng, per1) });
    // connection 2
    let mut snaps2 = Vec::new();
    let mut per2 = Vec::new();
    for v in &venues {
        let n = v.windows.len();
        let fw = v.windows[rng.range_u(1, n - 2)];
        let s = rng.range(fw.first as i64, fw.last as i64) as u64;
        let f = v.first_valid(rule, s).unwrap_or(0);
        let i = rng.usize_below(f + 1);
        snaps2.push(s);
        per2.push((i..n).collect());
    }
    conns.push(Conn { snapshot_ids: snaps2, delivery: interleave(rng, per2) });
    History { rule, stage: 2, venues, conns }
}

/// fixed small venue of the bounded-exhaustive block: the same prices are rewritten in several
/// windows so that a gap, a duplicate or a reordering changes the resulting book
fn exhaustive_venue(rule: Rule, n_win: usize) -> Venue {
    let plan: [&[(bool, u8, u8)]; 6] = [
        &[(true, 0, 1), (false, 0, 2)],
        &[(true, 0, 3)],
        &[(true, 1, 4), (false, 0, 0), (true, 0, 2)],
        &[(false, 1, 5), (true, 1, 0)],
        &[(true, 0, 0)],
        &[(false, 0, 1), (true, 2, 3)],
    ];
    let gaps = [0u64, 2, 0, 1, 0, 3];
    let mut changes = Vec::new();
    let mut windows = Vec::new();
    let mut id = 2u64;
    let mut pu = 1u64;
    for (k, chs) in plan.iter().take(n_win).enumerate() {
        if rule == Rule::Futures {
            id += gaps[k];
        }
        let first = id;
        let lo = changes.len();
        for (bid, p, q) in chs.iter() {
            changes.push(Change { id, bid: *bid, p: *p, q: *q });
            id += 1;
        }
        let last = id - 1;
        windows.push(Win { first, last, pu, lo, hi: changes.len() });
        pu = last;
    }
    let mut v = Venue { market: 0, changes, windows, alt_windows: vec![], base_depth: 0 };
    v.alt_windows = vec![v.merged(1, 2), v.merged(2, 3)];
    v
}

fn exhaustive_block(rule: Rule, n_win: usize, max_len: usize, worker: usize, n_workers: usize, report: &mut Report) {
    let venue = exhaustive_venue(rule, n_win);
    let max_s = venue.max_id() + 1;
    let n_sym = n_win + venue.alt_windows.len();
    let mut idx = 0u64;
    for len in 1..=max_len {
        let total = (n_sym as u64).pow(len as u32);
        for word in 0..total {
            idx += 1;
            if idx % n_workers as u64 != worker as u64 {
                continue;
            }
            let mut x = word;
            let mut delivery = Vec::with_capacity(len);
            for _ in 0..len {
                let sym = (x % n_sym as u64) as usize;
                delivery.push(Deliv { i: 0, w: if sym < n_win { sym } else { ALT + sym - n_win } as u16 });
                x /= n_sym as u64;
            }
            for s in 0..=max_s {
                let h = History { rule, stage: 1, venues: vec![venue.clone()], conns: vec![Conn { snapshot_ids: vec![s], delivery: delivery.clone() }] };
                execute(&h, report);
            }
        }
    }
}

const REQUIRED: [&str; 23] = [
    "first_accept_snapshot_inside_window",
    "first_accept_snapshot_on_boundary",
    "first_update_rejected",
    "next_accept",
    "next_update_rejected_gap",
    "stale_dropped_silently",
    "duplicate_delivered",
    "duplicate_adjacent",
    "adjacent_swap",
    "window_dropped",
    "replay_old_prefix",
    "start_early",
    "start_late",
    "snapshot_inside_window",
    "snapshot_on_window_boundary",
    "snapshot_before_first_window",
    "snapshot_after_last_window",
    "multi_instrument_interleave",
    "isolation_compared",
    "clean_delivery",
    "clean_delivery_with_older_prefix",
    "overlapping_reaggregated_window_delivered",
    "stage2_break_ends_connection_one_notice",
];

// ------------------------------------------------------------------------------------------------
// Stage 3: the library's own `MarketStream::init` over a loopback WebSocket venue.
//
// Stages 1 and 2 assemble the connection themselves (snapshots, transformer, stream). What a user runs is
// `ExchangeWsStream::<Transformer>::init::<SnapshotFetcher>(&subscriptions)`: connect, subscribe, validate,
// fetch the REST snapshots, initialise the transformer with them, hand out snapshots + updates. Here that
// very function runs against a venue on 127.0.0.1: `Binance<LoopSpot>` / `Binance<LoopFut>` are the real
// generic Binance connector with a server type whose URL is the loopback port; the snapshot fetcher serves
// the venue's REST snapshot; the transformer is the real spot / futures L2 transformer behind a delegating
// wrapper (the real ones are only implemented for the two real server types). The consumer applies what
// the stream yields to a local book, exactly as the book manager does.

mod loopback {
    use super::*;
    use async_trait::async_trait;
    use barter_data::{
        ExchangeWsStream, Identifier, MarketStream, SnapshotFetcher,
        exchange::{Connector, ExchangeServer, binance::Binance},
        instrument::InstrumentData,
    };
    use barter_integration::error::SocketError;
    use futures::SinkExt;
    use std::sync::{Mutex, OnceLock};

    static URL: OnceLock<&'static str> = OnceLock::new();
    /// market (upper-case) -> REST snapshot JSON of the current case
    static SNAPS: Mutex<Vec<(String, String)>> = Mutex::new(Vec::new());

    #[derive(Debug, Clone, Copy, Default, PartialEq, Eq, PartialOrd, Ord, Hash)]
    pub struct LoopSpot;
    #[derive(Debug, Clone, Copy, Default, PartialEq, Eq, PartialOrd, Ord, Hash)]
    pub struct LoopFut;
    impl ExchangeServer for LoopSpot {
        const ID: ExchangeId = ExchangeId::BinanceSpot;
        fn websocket_url() -> &'static str {
            URL.get().copied().unwrap_or("ws://127.0.0.1:9")
        }
    }
    impl ExchangeServer for LoopFut {
        const ID: ExchangeId = ExchangeId::BinanceFuturesUsd;
        fn websocket_url() -> &'static str {
            URL.get().copied().unwrap_or("ws://127.0.0.1:9")
        }
    }

    pub trait LoopRules: RuleSet {
        type Server: ExchangeServer + std::fmt::Debug + Send + Sync + 'static;
        const KIND: MarketDataInstrumentKind;
    }
    impl LoopRules for SpotRules {
        type Server = LoopSpot;
        const KIND: MarketDataInstrumentKind = MarketDataInstrumentKind::Spot;
    }
    impl LoopRules for FuturesRules {
        type Server = LoopFut;
        const KIND: MarketDataInstrumentKind = MarketDataInstrumentKind::Perpetual;
    }

    /// delegates to the real transformer of the rule set
    pub struct LoopT<R: LoopRules>(R::T);

    impl<R: LoopRules> Transformer for LoopT<R> {
        type Error = DataError;
        type Input = <R::T as Transformer>::Input;
        type Output = Ev;
        type OutputIter = <R::T as Transformer>::OutputIter;
        fn transform(&mut self, input: Self::Input) -> Self::OutputIter {
            self.0.transform(input)
        }
    }

    #[async_trait]
    impl<R: LoopRules> ExchangeTransformer<Binance<R::Server>, Key, OrderBooksL2> for LoopT<R>
    where
        R::T: Send,
    {
        async fn init(instrument_map: Map<Key>, initial_snapshots: &[Ev], ws_sink_tx: tokio::sync::mpsc::UnboundedSender<WsMessage>) -> Result<Self, DataError> {
            Ok(LoopT(<R::T as ExchangeTransformer<R::Exch, Key, OrderBooksL2>>::init(instrument_map, initial_snapshots, ws_sink_tx).await?))
        }
    }

    /// serves the venue's REST snapshots of the current case
    pub struct LoopSnaps;
    impl<Server> SnapshotFetcher<Binance<Server>, OrderBooksL2> for LoopSnaps
    where
        Server: ExchangeServer,
    {
        fn fetch_snapshots<Instrument>(
            subscriptions: &[Subscription<Binance<Server>, Instrument, OrderBooksL2>],
        ) -> impl std::future::Future<Output = Result<Vec<MarketEvent<Instrument::Key, OrderBookEvent>>, SocketError>> + Send
        where
            Binance<Server>: Connector,
            Instrument: InstrumentData,
            Subscription<Binance<Server>, Instrument, OrderBooksL2>: Identifier<<Binance<Server> as Connector>::Market>,
        {
            let snaps = SNAPS.lock().unwrap().clone();
            let out: Result<Vec<_>, SocketError> = subscriptions
                .iter()
                .map(|sub| {
                    let market = sub.id();
                    let market: &str = market.as_ref();
                    let (_, text) = snaps
                        .iter()
                        .find(|(m, _)| m.eq_ignore_ascii_case(market))
                        .ok_or_else(|| SocketError::Subscribe(format!("loopback venue has no REST snapshot for {market}")))?;
                    let snap: BinanceOrderBookL2Snapshot = serde_json::from_str(text).map_err(|e| SocketError::Subscribe(format!("snapshot json: {e}")))?;
                    Ok(MarketEvent::from((Server::ID, sub.instrument.key().clone(), snap)))
                })
                .collect();
            std::future::ready(out)
        }
    }

    pub struct Env {
        pub rt: tokio::runtime::Runtime,
        pub listener: tokio::net::TcpListener,
    }

    pub fn env() -> Result<Env, String> {
        let rt = tokio::runtime::Builder::new_current_thread().enable_all().build().map_err(|e| format!("runtime: {e}"))?;
        let listener = rt.block_on(tokio::net::TcpListener::bind("127.0.0.1:0")).map_err(|e| format!("bind loopback: {e}"))?;
        let port = listener.local_addr().map_err(|e| e.to_string())?.port();
        let url: &'static str = Box::leak(format!("ws://127.0.0.1:{port}").into_boxed_str());
        URL.set(url).map_err(|_| "loopback url already set (stage 3 runs on one worker only)".to_string())?;
        Ok(Env { rt, listener })
    }

    /// One connection of `h` through the real `MarketStream::init`; returns what the stream yielded.
    pub fn run<R: LoopRules>(env: &Env, h: &History, conn: &Conn) -> Result<Vec<Result<Ev, DataError>>, String>
    where
        R::T: Send,
        <R::T as Transformer>::Input: Send,
    {
        *SNAPS.lock().unwrap() = h.venues.iter().enumerate().map(|(j, v)| (MARKETS[v.market].2.to_string(), render_snapshot(h.rule, v, conn.snapshot_ids[j]))).collect();
        let payloads = render_delivery(h, conn);
        let want_streams: Vec<String> = h.venues.iter().map(|v| format!("{}@depth@100ms", MARKETS[v.market].2.to_lowercase())).collect();
        let subs: Vec<Subscription<Binance<R::Server>, Key, OrderBooksL2>> =
            h.venues.iter().map(|v| Subscription::new(Binance::<R::Server>::default(), (MARKETS[v.market].0, MARKETS[v.market].1, R::KIND), OrderBooksL2)).collect();
        env.rt.block_on(async {
            let server = async {
                let (tcp, _) = env.listener.accept().await.map_err(|e| format!("accept: {e}"))?;
                let _ = tcp.set_nodelay(true);
                let mut ws = tokio_tungstenite::accept_async(tcp).await.map_err(|e| format!("ws accept: {e}"))?;
                // the SUBSCRIBE request must name exactly the venue's depth streams
                loop {
                    match ws.next().await {
                        Some(Ok(WsMessage::Text(t))) => {
                            let v: serde_json::Value = serde_json::from_str(&t).map_err(|e| format!("venue got non-JSON request: {e}"))?;
                            let mut got: Vec<String> = v["params"].as_array().map(|a| a.iter().filter_map(|x| x.as_str().map(str::to_string)).collect()).unwrap_or_default();
                            let mut want = want_streams.clone();
                            got.sort();
                            want.sort();
                            if v["method"] != "SUBSCRIBE" || got != want {
                                return Err(format!("VENUE: unexpected subscribe request {t} (expected streams {want:?})"));
                            }
                            break;
                        }
                        Some(Ok(_)) => continue,
                        other => return Err(format!("venue: client went away before subscribing: {other:?}")),
                    }
                }
                ws.send(WsMessage::text(r#"{"result":null,"id":1}"#)).await.map_err(|e| format!("venue send: {e}"))?;
                for p in &payloads {
                    ws.send(WsMessage::text(p.clone())).await.map_err(|e| format!("venue send: {e}"))?;
                }
                let _ = ws.close(None).await;
                // drain until the client has gone
                while let Some(Ok(_)) = ws.next().await {}
                Ok::<(), String>(())
            };
            let client = async {
                let stream = <ExchangeWsStream<LoopT<R>> as MarketStream<Binance<R::Server>, Key, OrderBooksL2>>::init::<LoopSnaps>(&subs).await.map_err(|e| format!("INIT: {e}"))?;
                let mut stream = Box::pin(stream);
                let mut items = vec![];
                while let Some(item) = stream.next().await {
                    items.push(item);
                    if items.len() > 10 * (payloads.len() + 8) {
                        return Err("stream yields more than ten items per delivered message".to_string());
                    }
                }
                Ok::<_, String>(items)
            };
            match tokio::time::timeout(Duration::from_secs(60), async { tokio::join!(server, client) }).await {
                Err(_) => Err("HARNESS: loopback session did not finish within 60 s".to_string()),
                Ok((Err(e), _)) => Err(if e.starts_with("VENUE") { e } else { format!("HARNESS: {e}") }),
                Ok((Ok(()), items)) => items,
            }
        })
    }
}

/// Judge one connection driven through the real `MarketStream::init` (stage 3).
fn judge_stage3<R: loopback::LoopRules>(env: &loopback::Env, h: &History, stats: &mut Stats) -> Option<Viol>
where
    R::T: Send,
    <R::T as Transformer>::Input: Send,
{
    let conn = &h.conns[0];
    let items = match loopback::run::<R>(env, h, conn) {
        Ok(items) => items,
        Err(e) if e.starts_with("HARNESS") => return Some(Viol { sig: "HARNESS".into(), detail: e }),
        Err(e) if e.starts_with("VENUE") => return Some(Viol { sig: "subscribe_request_does_not_name_the_depth_streams".into(), detail: e }),
        Err(e) => return Some(Viol { sig: "market_stream_init_failed".into(), detail: e }),
    };
    // reference: the same messages handed to the transformer directly (stage 1 machinery, unjudged here)
    let reference = match run_conn::<R>(h, conn, None, false, &mut Stats::default()) {
        Ok(r) => r,
        Err(v) => return Some(Viol { sig: "HARNESS".into(), detail: format!("reference run failed: {} {}", v.sig, v.detail) }),
    };
    let want_admitted = reference.iter().take_while(|o| !matches!(o, Some(Outcome::ErrSeq))).filter(|o| matches!(o, Some(Outcome::Admitted))).count();
    let (_, keys) = R::instrument_map(&h.venues.iter().map(|v| v.market).collect::<Vec<_>>());
    let mut books: Vec<Option<OrderBook>> = h.venues.iter().map(|_| None).collect();
    let mut admitted = 0usize;
    for (n, item) in items.iter().enumerate() {
        stats.messages += 1;
        stats.checks += 1;
        match item {
            Ok(ev) => {
                let Some(j) = keys.iter().position(|k| *k == ev.instrument) else {
                    return Some(Viol { sig: "update_attributed_to_wrong_instrument".into(), detail: format!("stage 3 item #{n}: unknown instrument {:?}", ev.instrument) });
                };
                match (&ev.kind, &mut books[j]) {
                    (OrderBookEvent::Snapshot(_), slot @ None) => {
                        let mut b = OrderBook::default();
                        b.update(ev.kind.clone());
                        *slot = Some(b);
                    }
                    (OrderBookEvent::Snapshot(_), Some(_)) => {
                        return Some(Viol { sig: "init_delivered_snapshot_after_updates_or_twice".into(), detail: format!("stage 3 item #{n}: a second snapshot / a snapshot after updates for {}", MARKETS[h.venues[j].market].2) });
                    }
                    (OrderBookEvent::Update(_), None) => {
                        return Some(Viol { sig: "init_delivered_update_before_the_snapshot".into(), detail: format!("stage 3 item #{n}: an update for {} reached the consumer before the REST snapshot", MARKETS[h.venues[j].market].2) });
                    }
                    (OrderBookEvent::Update(_), Some(b)) => {
                        if let Err(v) = apply_to_book(b, &ev.kind, &format!("stage 3 item #{n}")) {
                            return Some(v);
                        }
                        admitted += 1;
                    }
                }
                if let Err(d) = book_matches(&h.venues[j], books[j].as_ref().unwrap()) {
                    return Some(Viol { sig: "book_differs_from_venue".into(), detail: format!("stage 3 (MarketStream::init over loopback) item #{n}: {d}") });
                }
            }
            Err(e) if e.is_terminal() => break,
            Err(_) => {}
        }
    }
    stats.checks += 2;
    if books.iter().any(|b| b.is_none()) {
        return Some(Viol { sig: "init_did_not_deliver_every_snapshot".into(), detail: format!("stage 3: {} of {} instruments never received their REST snapshot", books.iter().filter(|b| b.is_none()).count(), books.len()) });
    }
    if admitted != want_admitted {
        return Some(Viol { sig: "init_lost_or_duplicated_admitted_updates".into(), detail: format!("stage 3: the stream yielded {admitted} updates before its first terminal error, the transformer admits {want_admitted} of the same messages") });
    }
    stats.cells.insert("stage3:market_stream_init_over_loopback");
    if admitted > 0 {
        stats.cells.insert("stage3:updates_admitted_after_snapshot");
    }
    None
}

fn execute_stage3(env: &loopback::Env, h: &History, report: &mut Report) {
    let mut stats = Stats::default();
    let v = match h.rule {
        Rule::Spot => judge_stage3::<SpotRules>(env, h, &mut stats),
        Rule::Futures => judge_stage3::<FuturesRules>(env, h, &mut stats),
    };
    report.events_observed += stats.messages;
    report.oracle_checks += stats.checks;
    for c in &stats.cells {
        report.cover(c);
    }
    let hash = fnv1a(format!("stage3{}", witness_json(h)).as_bytes());
    match v {
        None => report.case(hash, stats.cells.contains("stage3:updates_admitted_after_snapshot")),
        Some(v) if v.sig == "HARNESS" => report.harness_errors.push(format!("stage 3: {}", v.detail)),
        Some(v) => {
            report.case(hash, true);
            let mut w = witness_json(h);
            w["stage3"] = json!(true);
            report.violation(&v.sig, v.detail, w);
        }
    }
}

fn main() {
    let args = Args::parse();

    if let Some(path) = &args.replay {
        let v: serde_json::Value = serde_json::from_str(&std::fs::read_to_string(path).expect("read replay")).expect("json");
        let h: History = serde_json::from_value(v["history"]["case"].clone()).expect("history.case");
        let mut report = Report::new("C06");
        if v["history"]["stage3"] == json!(true) {
            match loopback::env() {
                Ok(env) => execute_stage3(&env, &h, &mut report),
                Err(e) => report.harness_errors.push(e),
            }
        } else {
            execute(&h, &mut report);
        }
        println!("{}", serde_json::to_string_pretty(&report.to_json()).unwrap());
        std::process::exit(if report.violation_count > 0 { 1 } else { 0 });
    }

    let small = args.tier == "miri" || args.tier == "tsan";
    let n_random = if small { 24 } else { args.size(4_000, 1_000_000) };
    let n_stage2 = if small { 2 } else { args.size(300, 20_000) };
    let (ex_win, ex_len) = if args.is_thorough() { (6, 6) } else { (5, 5) };
    let n_stage3 = args.size(60, 3_000);

    let mut report = run_workers(&args, "C06", |w, n, rng, report| {
        for rule in [Rule::Spot, Rule::Futures] {
            if !small {
                exhaustive_block(rule, ex_win, ex_len, w, n, report);
            }
            for _ in 0..Args::share(n_random, w, n) {
                let h = random_history(rng, rule);
                execute(&h, report);
            }
            for _ in 0..Args::share(n_stage2, w, n) {
                let h = random_stage2(rng, rule);
                execute(&h, report);
            }
        }
        // stage 3 (real MarketStream::init over a loopback venue): one worker, one listener
        if w == 0 && !small {
            match loopback::env() {
                Err(e) => {
                    // no loopback sockets in this environment: the stage cannot run; stages 1 and 2 decide
                    report.cover("stage3:skipped_loopback_unavailable");
                    report.notes.push(format!("stage 3 skipped: {e}"));
                }
                Ok(env) => {
                    for k in 0..n_stage3 {
                        let h = random_history(rng, if k % 2 == 0 { Rule::Spot } else { Rule::Futures });
                        execute_stage3(&env, &h, report);
                    }
                }
            }
        }
    });

    if !small {
        report.exhaustive_blocks.push(format!(
            "per rule set: one instrument, fixed {ex_win}-window venue (+2 re-aggregated overlapping messages), every snapshot id 0..=max+1 x every delivery word of length 1..={ex_len} over those {} messages (all drops, duplicates, swaps, replays, early/late starts of that size)", ex_win + 2
        ));
        for rule in ["spot", "futures"] {
            for c in REQUIRED {
                report.require(&format!("{rule}:{c}"));
            }
            report.require(&format!("{rule}:stage2_reinitialised_connection_admits_updates"));
            report.require(&format!("{rule}:stage2_multi_instrument_connection"));
            report.require(&format!("{rule}:stage2_exhausted_connection_one_notice"));
        }
        if !report.coverage.contains_key("stage3:skipped_loopback_unavailable") {
            report.require("stage3:market_stream_init_over_loopback");
            report.require("stage3:updates_admitted_after_snapshot");
        }
    }
    std::process::exit(report.finish(args.out.as_deref()));
}
