//! C01 — active-order tracking follows the documented order lifecycle.
//!
//! Drives the real `Orders` (unit backend) and the real `EngineState` (engine backend: routing over
//! 2 exchanges x 3 instruments) with bounded-exhaustive and random histories, and after EVERY step
//! judges the observed transition (abstract pre-state, input) -> abstract post-state against the
//! transition relation of DESIGN.md appendix A.1, plus the global rules: held exchange data was
//! delivered in this tracking episode, its exchange timestamp never decreases, and no other order's
//! entry changed.

use barter::engine::state::{
    EngineState,
    order::{Orders, in_flight_recorder::InFlightRequestRecorder, manager::OrderManager},
};
use barter_execution::{
    AccountEvent, AccountEventKind, AccountSnapshot, InstrumentAccountSnapshot,
    error::{ConnectivityError, OrderError},
    order::{
        Order, OrderKey, OrderKind, TimeInForce,
        id::{ClientOrderId, OrderId, StrategyId},
        request::{OrderRequestCancel, OrderRequestOpen, OrderResponseCancel, RequestCancel, RequestOpen},
        state::{ActiveOrderState, CancelInFlight, Cancelled, InactiveOrderState, Open, OpenInFlight, OrderState},
    },
};
use barter_instrument::{
    Side,
    asset::AssetIndex,
    exchange::{ExchangeId, ExchangeIndex},
    index::IndexedInstruments,
    instrument::InstrumentIndex,
};
use barter_integration::snapshot::Snapshot;
use rust_decimal::Decimal;
use serde::{Deserialize, Serialize};
use serde_json::json;
use std::collections::{BTreeMap, HashSet};
use vharness::{
    Args, Report, Rng, catch,
    fixtures::{self},
    fnv1a, run_workers, shrink,
};

const QTY: i64 = 10;
/// `filled` code for "everything but a sliver": filled = QTY - 1e-12. The order is NOT fully filled (a
/// non-zero remainder, however small, is still open on the exchange), so every rule treats it like a
/// partial fill - venues quote quantities with many decimals.
const NEAR: i64 = 9;

fn filled_dec(code: i64) -> Decimal {
    if code == NEAR { Decimal::from(QTY) - Decimal::new(1, 12) } else { Decimal::from(code) }
}

#[derive(Debug, Clone, Copy, PartialEq, Eq, Hash, Serialize, Deserialize, PartialOrd, Ord)]
struct D {
    id: u8,
    t: i64,
    filled: i64,
}

/// Exchange timestamps of this check are 300 microseconds apart (t = 0..5 spans 1.5 ms): "older" and "newer" are
/// decided on the timestamps as given, whatever their distance - also below one millisecond.
const TIME_UNIT_US: i64 = 300;
fn t(units: i64) -> chrono::DateTime<chrono::Utc> {
    fixtures::t0() + chrono::TimeDelta::microseconds(units * TIME_UNIT_US)
}
fn units_of(time: chrono::DateTime<chrono::Utc>) -> i64 {
    (time - fixtures::t0()).num_microseconds().unwrap_or(i64::MAX) / TIME_UNIT_US
}

impl D {
    fn zero_rem(&self) -> bool {
        self.filled == QTY
    }
    fn open(&self) -> Open {
        Open { id: OrderId::new(format!("oid{}", self.id)), time_exchange: t(self.t), filled_quantity: filled_dec(self.filled) }
    }
    fn of(open: &Open) -> D {
        D {
            id: open.id.0.trim_start_matches("oid").parse().unwrap_or(255),
            t: units_of(open.time_exchange),
            filled: if open.filled_quantity == filled_dec(NEAR) { NEAR } else if open.filled_quantity.fract().is_zero() { i64::try_from(open.filled_quantity).unwrap_or(-1) } else { -1 },
        }
    }
}

#[derive(Debug, Clone, PartialEq, Eq, Hash)]
enum Abs {
    U,
    IF,
    OP(D),
    CX(Option<D>),
}

impl Abs {
    fn of(state: Option<&ActiveOrderState>) -> Abs {
        match state {
            None => Abs::U,
            Some(ActiveOrderState::OpenInFlight(_)) => Abs::IF,
            Some(ActiveOrderState::Open(o)) => Abs::OP(D::of(o)),
            Some(ActiveOrderState::CancelInFlight(c)) => Abs::CX(c.order.as_ref().map(D::of)),
        }
    }
    fn phase(&self) -> &'static str {
        match self {
            Abs::U => "U",
            Abs::IF => "IF",
            Abs::OP(_) => "OP",
            Abs::CX(None) => "CX0",
            Abs::CX(Some(_)) => "CX1",
        }
    }
    fn data(&self) -> Option<D> {
        match self {
            Abs::OP(d) => Some(*d),
            Abs::CX(Some(d)) => Some(*d),
            _ => None,
        }
    }
    fn tracked(&self) -> bool {
        !matches!(self, Abs::U)
    }
}

#[derive(Debug, Clone, Copy, PartialEq, Eq, Hash, Serialize, Deserialize)]
enum In {
    ReqOpen,
    ReqCancel,
    SnapIF,
    SnapCIF(Option<D>),
    SnapOpen(D),
    SnapCancelled(i64),
    SnapFullyFilled,
    SnapExpired,
    SnapFailed,
    RespOk(i64),
    RespErr,
}

impl In {
    fn class(&self) -> &'static str {
        match self {
            In::ReqOpen => "ReqOpen",
            In::ReqCancel => "ReqCancel",
            In::SnapIF => "SnapIF",
            In::SnapCIF(_) => "SnapCIF",
            In::SnapOpen(d) if d.zero_rem() => "SnapOpenZero",
            In::SnapOpen(_) => "SnapOpenNZ",
            In::SnapCancelled(_) | In::SnapFullyFilled | In::SnapExpired | In::SnapFailed => "SnapInactive",
            In::RespOk(_) => "RespOk",
            In::RespErr => "RespErr",
        }
    }
    fn delivered(&self) -> Option<D> {
        match self {
            In::SnapOpen(d) => Some(*d),
            In::SnapCIF(Some(d)) => Some(*d),
            _ => None,
        }
    }
}

const PHASES: [&str; 5] = ["U", "IF", "OP", "CX0", "CX1"];
const CLASSES: [&str; 9] =
    ["ReqOpen", "ReqCancel", "SnapIF", "SnapCIF", "SnapOpenNZ", "SnapOpenZero", "SnapInactive", "RespOk", "RespErr"];

/// The transition relation (appendix A.1). Ok(()) if `post` is a permitted successor.
fn judge(pre: &Abs, input: &In, post: &Abs, delivered: &HashSet<D>) -> Result<(), (&'static str, String)> {
    use Abs::*;
    let bad = |sig: &'static str, want: &str| -> Result<(), (&'static str, String)> {
        Err((sig, format!("pre={pre:?} input={input:?} expected {want} observed post={post:?}")))
    };
    let mut reuse = false;

    match input {
        In::ReqOpen => match pre {
            U | IF => {
                if *post != IF {
                    return bad("open_request_not_in_flight", "IF");
                }
            }
            _ => reuse = true, // live cid reused: don't care
        },
        In::ReqCancel => {
            let want = match pre {
                U => U,
                IF => CX(None),
                OP(d) => CX(Some(*d)),
                CX(x) => CX(*x),
            };
            if *post != want {
                return bad("cancel_request_marking_wrong", &format!("{want:?}"));
            }
        }
        In::SnapOpen(dn) if !dn.zero_rem() => match pre {
            U | IF => {
                if *post != OP(*dn) {
                    return bad("open_report_not_tracked_open", &format!("OP({dn:?})"));
                }
            }
            OP(d) => {
                let ok = if dn.t > d.t {
                    *post == OP(*dn)
                } else if dn.t == d.t {
                    *post == OP(*dn) || *post == OP(*d)
                } else {
                    *post == OP(*d)
                };
                if !ok {
                    return bad("open_report_on_open_wrong", "newest-by-exchange-time Open");
                }
            }
            CX(None) => {
                if *post != CX(Some(*dn)) {
                    return bad("open_report_on_cancelling_wrong", &format!("CX(Some({dn:?}))"));
                }
            }
            CX(Some(d)) => {
                let ok = if dn.t > d.t {
                    *post == CX(Some(*dn))
                } else if dn.t == d.t {
                    *post == CX(Some(*dn)) || *post == CX(Some(*d))
                } else {
                    *post == CX(Some(*d))
                };
                if !ok {
                    return bad("open_report_on_cancelling_wrong", "CX with newest-by-exchange-time Open");
                }
            }
        },
        In::SnapOpen(dn) => {
            // zero remaining: the order is actually fully filled
            let stale = match pre.data() {
                Some(d) => dn.t < d.t,
                None => false,
            };
            if stale {
                // don't care on trackedness, but it must be either untouched or untracked
                if !(*post == U || post == pre) {
                    return bad("stale_zero_remaining_report_changed_state", "unchanged or untracked");
                }
            } else if *post != U {
                return bad("zero_remaining_open_report_keeps_order_tracked", "U (untracked)");
            }
        }
        In::SnapCancelled(_) | In::SnapFullyFilled | In::SnapExpired | In::SnapFailed => {
            if *post != U {
                return bad("inactive_report_keeps_order_tracked", "U (untracked)");
            }
        }
        In::RespOk(_) => {
            if *post != U {
                return bad("cancel_confirmation_keeps_order_tracked", "U (untracked)");
            }
        }
        In::RespErr => match pre {
            U | IF | OP(_) => {
                if post != pre {
                    return bad("failed_cancel_changed_non_cancelling_order", "unchanged");
                }
            }
            CX(Some(d)) => {
                if *post != OP(*d) {
                    return bad("failed_cancel_did_not_restore_open", &format!("OP({d:?})"));
                }
            }
            CX(None) => {
                if !(*post == U || *post == IF) {
                    return bad("failed_cancel_of_unconfirmed_order_wrong", "U or IF");
                }
            }
        },
        In::SnapIF | In::SnapCIF(_) => {
            if !post.tracked() {
                return bad("in_flight_report_untracked_order", "tracked");
            }
        }
    }

    // global: held data was delivered in this episode
    if let Some(d) = post.data() {
        if !delivered.contains(&d) {
            return bad("held_data_never_delivered", "data from a delivered report");
        }
    }
    // global: exchange timestamp of held data never moves back within an episode
    if !reuse {
        if let (Some(a), Some(b)) = (pre.data(), post.data()) {
            if b.t < a.t {
                return bad("held_exchange_time_moved_back", &format!("t >= {}", a.t));
            }
        }
    }
    Ok(())
}

type Key = (usize, usize); // (instrument, cid)

fn cid_of(c: usize) -> ClientOrderId {
    ClientOrderId::new(format!("cid{c}"))
}

// ------------------------------------------------------------------------------------------------
// Backends

trait Backend {
    fn apply(&mut self, key: Key, input: &In);
    /// Apply several order reports at once through a full account snapshot (engine only).
    fn apply_full_snapshot(&mut self, _items: &[(Key, In)]) -> bool {
        false
    }
    fn observe(&self) -> BTreeMap<Key, String>;
    fn abs(&self, key: Key) -> Abs;
    /// an independent copy of the current state (to deliver the items of a snapshot one by one)
    fn twin(&self) -> Box<dyn Backend>;
}

/// the failure a cancel response reports: the lifecycle treats every failure alike (the cancel did not
/// happen: restore the last confirmed open state), so the kind rotates with every failed response
fn cancel_failure<A, I>(n: u32) -> OrderError<A, I> {
    use barter_execution::error::ApiError;
    match n % 5 {
        0 => OrderError::Connectivity(ConnectivityError::Timeout),
        1 => OrderError::Rejected(ApiError::OrderAlreadyCancelled),
        2 => OrderError::Rejected(ApiError::OrderAlreadyFullyFilled),
        3 => OrderError::Rejected(ApiError::RateLimit),
        _ => OrderError::Rejected(ApiError::OrderRejected("scripted".into())),
    }
}

#[derive(Clone)]
struct UnitBackend {
    orders: Orders<ExchangeId, u64>,
    failures: u32,
}

fn unit_key(c: usize) -> OrderKey<ExchangeId, u64> {
    OrderKey { exchange: ExchangeId::BinanceSpot, instrument: 0u64, strategy: StrategyId::new("s"), cid: cid_of(c) }
}

fn mk_order<E, I, S>(key: OrderKey<E, I>, state: S) -> Order<E, I, S> {
    Order {
        key,
        side: Side::Buy,
        price: Decimal::from(100),
        quantity: Decimal::from(QTY),
        kind: OrderKind::Limit,
        time_in_force: TimeInForce::GoodUntilCancelled { post_only: false },
        state,
    }
}

fn snap_state<A, I>(input: &In) -> Option<OrderState<A, I>> {
    Some(match input {
        In::SnapIF => OrderState::active(OpenInFlight),
        In::SnapCIF(od) => OrderState::active(CancelInFlight { order: od.map(|d| d.open()) }),
        In::SnapOpen(d) => OrderState::active(d.open()),
        In::SnapCancelled(tt) => OrderState::inactive(Cancelled { id: OrderId::new("oid1"), time_exchange: t(*tt) }),
        In::SnapFullyFilled => OrderState::fully_filled(),
        In::SnapExpired => OrderState::expired(),
        In::SnapFailed => OrderState::Inactive(InactiveOrderState::OpenFailed(OrderError::Connectivity(ConnectivityError::Timeout))),
        _ => return None,
    })
}

impl Backend for UnitBackend {
    fn apply(&mut self, (_i, c): Key, input: &In) {
        let key = unit_key(c);
        match input {
            In::ReqOpen => self.orders.record_in_flight_open(&OrderRequestOpen {
                key,
                state: RequestOpen {
                    side: Side::Buy,
                    price: Decimal::from(100),
                    quantity: Decimal::from(QTY),
                    kind: OrderKind::Limit,
                    time_in_force: TimeInForce::GoodUntilCancelled { post_only: false },
                },
            }),
            In::ReqCancel => self.orders.record_in_flight_cancel(&OrderRequestCancel { key, state: RequestCancel { id: None } }),
            In::RespOk(tt) => self.orders.update_from_cancel_response::<u64>(&OrderResponseCancel {
                key,
                state: Ok(Cancelled { id: OrderId::new("oid1"), time_exchange: t(*tt) }),
            }),
            In::RespErr => {
                self.failures += 1;
                self.orders.update_from_cancel_response::<u64>(&OrderResponseCancel { key, state: Err(cancel_failure(self.failures)) })
            }
            snap => {
                let state: OrderState<u64, u64> = snap_state(snap).expect("snapshot input");
                let order = mk_order(key, state);
                self.orders.update_from_order_snapshot(Snapshot(&order));
            }
        }
    }
    fn observe(&self) -> BTreeMap<Key, String> {
        self.orders
            .0
            .iter()
            .map(|(cid, o)| ((0usize, cid.0.trim_start_matches("cid").parse().unwrap()), format!("{o:?}")))
            .collect()
    }
    fn twin(&self) -> Box<dyn Backend> {
        Box::new(self.clone())
    }

    fn abs(&self, (_i, c): Key) -> Abs {
        Abs::of(self.orders.0.get(&cid_of(c)).map(|o| &o.state))
    }
}

#[derive(Clone)]
struct EngineBackend {
    state: fixtures::DefState,
    exch_of_instr: Vec<usize>,
    failures: u32,
}

impl EngineBackend {
    fn new() -> Self {
        let instruments = IndexedInstruments::new([
            fixtures::spot(ExchangeId::Okx, "btc", "usdt"),
            fixtures::spot(ExchangeId::BinanceSpot, "btc", "usdt"),
            fixtures::spot(ExchangeId::Okx, "eth", "usdt"),
            fixtures::spot(ExchangeId::BinanceSpot, "eth", "btc"),
            fixtures::spot(ExchangeId::Okx, "sol", "usdt"),
            fixtures::spot(ExchangeId::BinanceSpot, "sol", "usdt"),
        ]);
        let exch_of_instr = instruments.instruments().iter().map(|i| i.value.exchange.key.index()).collect();
        let state = EngineState::builder(&instruments, Default::default(), Default::default)
            .time_engine_start(fixtures::t0())
            .build();
        Self { state, exch_of_instr, failures: 0 }
    }
    fn key(&self, (i, c): Key) -> OrderKey {
        OrderKey {
            exchange: ExchangeIndex(self.exch_of_instr[i]),
            instrument: InstrumentIndex(i),
            strategy: StrategyId::new("s"),
            cid: cid_of(c),
        }
    }
}

impl Backend for EngineBackend {
    fn apply(&mut self, k: Key, input: &In) {
        let key = self.key(k);
        let exchange = key.exchange;
        match input {
            In::ReqOpen => self.state.record_in_flight_open(&OrderRequestOpen {
                key,
                state: RequestOpen {
                    side: Side::Buy,
                    price: Decimal::from(100),
                    quantity: Decimal::from(QTY),
                    kind: OrderKind::Limit,
                    time_in_force: TimeInForce::GoodUntilCancelled { post_only: false },
                },
            }),
            In::ReqCancel => self.state.record_in_flight_cancel(&OrderRequestCancel { key, state: RequestCancel { id: None } }),
            In::RespOk(tt) => {
                let _ = self.state.update_from_account(&AccountEvent {
                    exchange,
                    kind: AccountEventKind::OrderCancelled(OrderResponseCancel {
                        key,
                        state: Ok(Cancelled { id: OrderId::new("oid1"), time_exchange: t(*tt) }),
                    }),
                });
            }
            In::RespErr => {
                self.failures += 1;
                let _ = self.state.update_from_account(&AccountEvent {
                    exchange,
                    kind: AccountEventKind::OrderCancelled(OrderResponseCancel {
                        key,
                        state: Err(cancel_failure(self.failures)),
                    }),
                });
            }
            snap => {
                let state: OrderState<AssetIndex, InstrumentIndex> = snap_state(snap).expect("snapshot input");
                let _ = self.state.update_from_account(&AccountEvent {
                    exchange,
                    kind: AccountEventKind::OrderSnapshot(Snapshot(mk_order(key, state))),
                });
            }
        }
    }

    fn apply_full_snapshot(&mut self, items: &[(Key, In)]) -> bool {
        // a BATCH OF REQUESTS (what an engine action records after sending): the opens through
        // `record_in_flight_opens`, then the cancels through `record_in_flight_cancels`
        if items.iter().all(|(_, i)| matches!(i, In::ReqOpen | In::ReqCancel)) {
            let opens: Vec<OrderRequestOpen> = items
                .iter()
                .filter(|(_, i)| matches!(i, In::ReqOpen))
                .map(|(k, _)| OrderRequestOpen {
                    key: self.key(*k),
                    state: RequestOpen { side: Side::Buy, price: Decimal::from(100), quantity: Decimal::from(QTY), kind: OrderKind::Limit, time_in_force: TimeInForce::GoodUntilCancelled { post_only: false } },
                })
                .collect();
            let cancels: Vec<OrderRequestCancel> = items.iter().filter(|(_, i)| matches!(i, In::ReqCancel)).map(|(k, _)| OrderRequestCancel { key: self.key(*k), state: RequestCancel { id: None } }).collect();
            self.state.record_in_flight_opens(opens.iter());
            self.state.record_in_flight_cancels(cancels.iter());
            return true;
        }
        // all items must belong to one exchange (a snapshot is per exchange)
        let exchange = ExchangeIndex(self.exch_of_instr[items[0].0.0]);
        let mut per_instr: BTreeMap<usize, Vec<Order<ExchangeIndex, InstrumentIndex, OrderState<AssetIndex, InstrumentIndex>>>> =
            BTreeMap::new();
        for (k, input) in items {
            let state = snap_state(input).expect("snapshot input");
            per_instr.entry(k.0).or_default().push(mk_order(self.key(*k), state));
        }
        let _ = self.state.update_from_account(&AccountEvent {
            exchange,
            kind: AccountEventKind::Snapshot(AccountSnapshot {
                exchange,
                balances: vec![],
                instruments: per_instr
                    .into_iter()
                    .map(|(i, orders)| InstrumentAccountSnapshot { instrument: InstrumentIndex(i), orders })
                    .collect(),
            }),
        });
        true
    }

    fn observe(&self) -> BTreeMap<Key, String> {
        let mut out = BTreeMap::new();
        for (i, (_name, s)) in self.state.instruments.0.iter().enumerate() {
            for (cid, o) in s.orders.0.iter() {
                out.insert((i, cid.0.trim_start_matches("cid").parse().unwrap()), format!("{o:?}"));
            }
        }
        out
    }
    fn twin(&self) -> Box<dyn Backend> {
        Box::new(self.clone())
    }

    fn abs(&self, (i, c): Key) -> Abs {
        Abs::of(self.state.instruments.instrument_index(&InstrumentIndex(i)).orders.0.get(&cid_of(c)).map(|o| &o.state))
    }
}

// ------------------------------------------------------------------------------------------------
// Running one history under the monitor

#[derive(Debug, Clone, Serialize, Deserialize)]
enum Step {
    One(Key, In),
    /// full account snapshot carrying one report for each listed (distinct) key of one exchange
    Full(Vec<(Key, In)>),
}

#[derive(Default)]
struct RunStats {
    steps: u64,
    checks: u64,
    transitions: HashSet<(&'static str, &'static str, &'static str)>,
    cells: Vec<(&'static str, &'static str)>,
    scenarios: Vec<&'static str>,
}

fn run_history(backend: &mut dyn Backend, history: &[Step], stats: &mut RunStats) -> Result<(), (&'static str, String, usize)> {
    let mut delivered: BTreeMap<Key, HashSet<D>> = BTreeMap::new();
    let mut last_fill_race: BTreeMap<Key, bool> = BTreeMap::new();
    run_steps(backend, history, stats, &mut delivered, &mut last_fill_race)
}

fn run_steps(backend: &mut dyn Backend, history: &[Step], stats: &mut RunStats, delivered_in: &mut BTreeMap<Key, HashSet<D>>, last_fill_race_in: &mut BTreeMap<Key, bool>) -> Result<(), (&'static str, String, usize)> {
    let mut delivered = std::mem::take(delivered_in);
    let mut last_fill_race = std::mem::take(last_fill_race_in);
    let res = run_steps_inner(backend, history, stats, &mut delivered, &mut last_fill_race);
    *delivered_in = delivered;
    *last_fill_race_in = last_fill_race;
    res
}

fn run_steps_inner(backend: &mut dyn Backend, history: &[Step], stats: &mut RunStats, delivered: &mut BTreeMap<Key, HashSet<D>>, last_fill_race: &mut BTreeMap<Key, bool>) -> Result<(), (&'static str, String, usize)> {
    for (idx, step) in history.iter().enumerate() {
        // A full account snapshot is judged in two parts: (1) its reports, delivered one by one in the listed
        // order to an independent copy of the state, follow the lifecycle item by item (the copy is judged like
        // any other step sequence, so one order may be listed more than once - e.g. Open, then FullyFilled);
        // (2) the snapshot as a whole leaves exactly the state the one-by-one delivery leaves.
        if let Step::Full(v) = step {
            let mut twin = backend.twin();
            let request_batch = v.iter().all(|(_, i)| matches!(i, In::ReqOpen | In::ReqCancel));
            // a request batch is recorded opens first, then cancels (each group in the listed order)
            let singles: Vec<Step> = if request_batch {
                v.iter().filter(|(_, i)| matches!(i, In::ReqOpen)).chain(v.iter().filter(|(_, i)| matches!(i, In::ReqCancel))).map(|(k, i)| Step::One(*k, *i)).collect()
            } else {
                v.iter().map(|(k, i)| Step::One(*k, *i)).collect()
            };
            let mut twin_delivered: BTreeMap<Key, HashSet<D>> = delivered.clone();
            run_steps(twin.as_mut(), &singles, stats, &mut twin_delivered, last_fill_race).map_err(|(sig, detail, _)| (sig, format!("{} {v:?}, delivered item by item: {detail}", if v.iter().all(|(_, i)| matches!(i, In::ReqOpen | In::ReqCancel)) { "request batch" } else { "full snapshot" }), idx))?;
            let before = backend.observe();
            if let Err(msg) = catch(|| {
                backend.apply_full_snapshot(v);
            }) {
                return Err(("panic_in_order_manager", format!("panic: {msg}"), idx));
            }
            stats.steps += 1;
            stats.checks += 1;
            let (got, want) = (backend.observe(), twin.observe());
            if got != want {
                let diff: Vec<_> = got.keys().chain(want.keys()).collect::<std::collections::BTreeSet<_>>().into_iter().filter(|k| got.get(*k) != want.get(*k)).map(|k| format!("{k:?}: snapshot -> {:?}, item by item -> {:?}", got.get(k), want.get(k))).collect();
                let sig = if request_batch { "request_batch_differs_from_request_by_request_recording" } else { "account_snapshot_differs_from_item_by_item_delivery" };
                return Err((sig, format!("{} {v:?} (state before: {before:?}): {}", if request_batch { "request batch" } else { "full snapshot" }, diff.join("; ")), idx));
            }
            *delivered = twin_delivered;
            if request_batch {
                let instrs: Vec<usize> = v.iter().map(|(k, _)| k.0).collect();
                if instrs.len() >= 3 && instrs.windows(2).any(|w| w[0] != w[1]) && instrs.iter().enumerate().any(|(p, i)| instrs[..p].contains(i) && instrs[p - 1] != *i) {
                    stats.scenarios.push("request_batch_returns_to_an_earlier_instrument");
                }
                continue;
            }
            if v.len() > 1 {
                stats.scenarios.push("full_account_snapshot_multi_order");
            }
            let mut seen_keys = HashSet::new();
            if v.iter().any(|(k, _)| !seen_keys.insert(*k)) {
                stats.scenarios.push("full_account_snapshot_lists_an_order_twice");
            }
            continue;
        }
        let items: Vec<(Key, In)> = match step {
            Step::One(k, i) => vec![(*k, *i)],
            Step::Full(v) => v.clone(),
        };
        let before = backend.observe();
        let pres: Vec<Abs> = items.iter().map(|(k, _)| backend.abs(*k)).collect();
        let res = catch(|| match step {
            Step::One(k, i) => backend.apply(*k, i),
            Step::Full(v) => {
                backend.apply_full_snapshot(v);
            }
        });
        if let Err(msg) = res {
            return Err(("panic_in_order_manager", format!("panic: {msg}"), idx));
        }
        stats.steps += 1;
        let after = backend.observe();
        for ((k, input), pre) in items.iter().zip(pres.iter()) {
            let del = delivered.entry(*k).or_default();
            if !pre.tracked() {
                del.clear();
            }
            if let Some(d) = input.delivered() {
                del.insert(d);
            }
            if let (Abs::OP(_) | Abs::CX(_), In::ReqOpen) = (pre, input) {
                // cid reuse starts a new episode: previous data is no longer "held"
            }
            let post = backend.abs(*k);
            stats.checks += 1;
            stats.cells.push((pre.phase(), input.class()));
            stats.transitions.insert((pre.phase(), input.class(), post.phase()));
            // WHY scenarios
            match (pre, input) {
                (Abs::CX(_), In::SnapOpen(d)) if d.filled > 0 => stats.scenarios.push("cancel_raced_by_fill"),
                (Abs::CX(Some(d)), In::SnapOpen(dn)) if dn.t < d.t => stats.scenarios.push("stale_open_after_cancel_in_flight"),
                (Abs::OP(_), In::SnapOpen(dn)) if dn.zero_rem() => stats.scenarios.push("fully_filled_open_on_open_order"),
                (Abs::OP(d), In::SnapOpen(dn)) if dn.t == d.t => stats.scenarios.push("equal_timestamp_open_reports"),
                (Abs::CX(Some(_)), In::RespErr) => stats.scenarios.push("failed_cancel_restores_open"),
                _ => {}
            }
            last_fill_race.insert(*k, false);
            if let Err((sig, detail)) = judge(pre, input, &post, del) {
                return Err((sig, detail, idx));
            }
        }
        // isolation: every entry not addressed by this step is byte-identical
        let touched: HashSet<Key> = items.iter().map(|(k, _)| *k).collect();
        stats.checks += 1;
        let keys: HashSet<&Key> = before.keys().chain(after.keys()).collect();
        for k in keys {
            if touched.contains(k) {
                continue;
            }
            if before.get(k) != after.get(k) {
                return Err((
                    "report_changed_another_order",
                    format!("step {idx} {step:?} changed entry {k:?}: {:?} -> {:?}", before.get(k), after.get(k)),
                    idx,
                ));
            }
        }
        if items.len() > 1 {
            stats.scenarios.push("full_account_snapshot_multi_order");
        }
        if touched.iter().map(|k| k.1).collect::<HashSet<_>>().len() >= 1 && before.len() >= 2 {
            stats.scenarios.push("two_cids_interleaved");
        }
    }
    Ok(())
}

fn fresh_backend(engine: bool) -> Box<dyn Backend> {
    if engine { Box::new(EngineBackend::new()) } else { Box::new(UnitBackend { orders: Orders::default(), failures: 0 }) }
}

fn execute(engine: bool, history: &[Step], report: &mut Report, label: &str) {
    let mut stats = RunStats::default();
    let mut backend = fresh_backend(engine);
    let res = run_history(backend.as_mut(), history, &mut stats);
    report.events_observed += stats.steps;
    report.oracle_checks += stats.checks;
    for (p, c) in &stats.cells {
        report.cover(&format!("{p}x{c}"));
    }
    for s in &stats.scenarios {
        report.cover(&format!("scenario:{s}"));
    }
    report.cover(&format!("backend:{}", if engine { "engine" } else { "unit" }));
    let nontrivial = history.len() >= 3 && stats.transitions.iter().filter(|(a, _, b)| a != b).count() >= 2;
    let h = fnv1a(format!("{engine}{history:?}").as_bytes());
    report.case(h, nontrivial);
    if nontrivial && history.len() >= 5 {
        report.sample(|| json!({"backend": label, "history": history}));
    }
    if let Err((sig, detail, _idx)) = res {
        // shrink: drop steps while the same signature still fires
        let small = shrink(history, |cand| {
            let mut st = RunStats::default();
            let mut b = fresh_backend(engine);
            matches!(run_history(b.as_mut(), cand, &mut st), Err((s, _, _)) if s == sig)
        });
        let mut st = RunStats::default();
        let mut b = fresh_backend(engine);
        let detail_small = match run_history(b.as_mut(), &small, &mut st) {
            Err((_, d, _)) => d,
            Ok(()) => detail,
        };
        report.violation(sig, detail_small, json!({"engine": engine, "history": small}));
    }
}

// ------------------------------------------------------------------------------------------------
// Generators

fn alphabet(ts: &[i64], ids: &[u8]) -> Vec<In> {
    let mut a = vec![In::ReqOpen, In::ReqCancel, In::SnapIF, In::SnapCIF(None), In::SnapFullyFilled, In::SnapExpired, In::SnapFailed, In::RespErr];
    a.push(In::SnapCancelled(ts[0]));
    a.push(In::RespOk(ts[0]));
    for &tt in ts {
        for &id in ids {
            for filled in [0, 4, QTY] {
                a.push(In::SnapOpen(D { id, t: tt, filled }));
            }
            for filled in [0, 4] {
                a.push(In::SnapCIF(Some(D { id, t: tt, filled })));
            }
        }
    }
    a
}

fn core_alphabet() -> Vec<In> {
    vec![
        In::ReqOpen,
        In::ReqCancel,
        In::SnapOpen(D { id: 1, t: 1, filled: 0 }),
        In::SnapOpen(D { id: 1, t: 2, filled: 4 }),
        In::SnapOpen(D { id: 1, t: 3, filled: 4 }),
        In::SnapOpen(D { id: 1, t: 2, filled: QTY }),
        In::SnapOpen(D { id: 1, t: 3, filled: QTY }),
        In::SnapOpen(D { id: 1, t: 3, filled: NEAR }),
        In::SnapCIF(None),
        In::SnapCancelled(3),
        In::SnapFullyFilled,
        In::RespOk(3),
        In::RespErr,
    ]
}

fn enumerate(alpha: &[In], len: usize, from: u64, step: u64, mut f: impl FnMut(&[Step])) -> u64 {
    // enumerate all words of exactly `len`, striding by worker
    let n = alpha.len() as u64;
    let total = n.pow(len as u32);
    let mut idx = from;
    let mut word: Vec<Step> = Vec::with_capacity(len);
    while idx < total {
        word.clear();
        let mut x = idx;
        for _ in 0..len {
            word.push(Step::One((0, 0), alpha[(x % n) as usize]));
            x /= n;
        }
        f(&word);
        idx += step;
    }
    total
}

fn random_input(rng: &mut Rng) -> In {
    let tt = rng.range(1, 6);
    let id = rng.range(1, 2) as u8;
    match rng.below(100) {
        0..=11 => In::ReqOpen,
        12..=23 => In::ReqCancel,
        24..=27 => In::SnapIF,
        28..=33 => {
            if rng.bool() {
                In::SnapCIF(None)
            } else {
                In::SnapCIF(Some(D { id, t: tt, filled: *rng.pick(&[0, 4]) }))
            }
        }
        34..=63 => In::SnapOpen(D { id, t: tt, filled: *rng.pick(&[0, 0, 4, 4, QTY, QTY, NEAR]) }),
        64..=69 => In::SnapCancelled(tt),
        70..=74 => In::SnapFullyFilled,
        75..=77 => In::SnapExpired,
        78..=80 => In::SnapFailed,
        81..=89 => In::RespOk(tt),
        _ => In::RespErr,
    }
}

fn random_history(rng: &mut Rng, engine: bool) -> Vec<Step> {
    let n_cids = rng.range_u(2, 4);
    let n_instr = if engine { 6 } else { 1 };
    let len = rng.range_u(3, 40);
    let mut h = Vec::with_capacity(len);
    for _ in 0..len {
        if engine && rng.chance(1, 10) {
            // full account snapshot for one exchange: instruments 0,2,4 are Okx ... see EngineBackend;
            // exchanges sort as BinanceSpot(0) < Okx(1); instrument -> exchange taken from backend below.
            let parity = rng.usize_below(2);
            let mut items: Vec<(Key, In)> = Vec::new();
            let k = rng.range_u(1, 4);
            for _ in 0..k {
                // instruments are sorted by (exchange, name): first three belong to exchange 0
                let instr = parity * 3 + rng.usize_below(3);
                let key = (instr, rng.usize_below(n_cids));
                // mostly distinct orders; sometimes the snapshot lists one order twice
                if items.iter().any(|(kk, _)| *kk == key) && rng.chance(2, 3) {
                    continue;
                }
                let input = loop {
                    let i = random_input(rng);
                    if !matches!(i, In::ReqOpen | In::ReqCancel | In::RespOk(_) | In::RespErr) {
                        break i;
                    }
                };
                items.push((key, input));
            }
            h.push(Step::Full(items));
        } else if engine && rng.chance(1, 10) {
            // a batch of requests over interleaved instruments (A, B, A, ...), distinct orders
            let mut items: Vec<(Key, In)> = Vec::new();
            let a = rng.usize_below(n_instr);
            let b = (a + 1 + rng.usize_below(n_instr - 1)) % n_instr;
            for p in 0..rng.range_u(3, 5) {
                let key = (if p % 2 == 0 { a } else { b }, rng.usize_below(n_cids));
                if items.iter().any(|(kk, _)| *kk == key) {
                    continue;
                }
                items.push((key, if rng.chance(2, 3) { In::ReqOpen } else { In::ReqCancel }));
            }
            if items.len() >= 2 {
                h.push(Step::Full(items));
            }
        } else {
            let key = (rng.usize_below(n_instr), rng.usize_below(n_cids));
            h.push(Step::One(key, random_input(rng)));
        }
    }
    h
}

fn main() {
    let args = Args::parse();

    if let Some(path) = &args.replay {
        let v: serde_json::Value = serde_json::from_str(&std::fs::read_to_string(path).expect("read replay")).expect("json");
        let engine = v["history"]["engine"].as_bool().unwrap_or(false);
        let history: Vec<Step> = serde_json::from_value(v["history"]["history"].clone()).expect("history");
        let mut report = Report::new("C01");
        execute(engine, &history, &mut report, "replay");
        println!("{}", serde_json::to_string_pretty(&report.to_json()).unwrap());
        std::process::exit(if report.violation_count > 0 { 1 } else { 0 });
    }

    let exhaustive_len_full = if args.is_thorough() { 4 } else { 3 };
    let exhaustive_len_core = if args.is_thorough() { 6 } else { 5 };
    let small = args.tier == "miri" || args.tier == "tsan";
    let n_random = if small { 30 } else { args.size(20_000, 2_000_000) };

    let mut report = run_workers(&args, "C01", |w, n, rng, report| {
        if !small {
            let full = alphabet(&[1, 2, 3], &[1]);
            for len in 1..=exhaustive_len_full {
                for engine in [false, true] {
                    if engine && len > 3 {
                        continue;
                    }
                    enumerate(&full, len, w as u64, n as u64, |word| execute(engine, word, report, "exhaustive-full"));
                }
            }
            let core = core_alphabet();
            for len in 4..=exhaustive_len_core {
                enumerate(&core, len, w as u64, n as u64, |word| execute(false, word, report, "exhaustive-core"));
            }
        }
        let mine = Args::share(n_random, w, n);
        for i in 0..mine {
            let engine = i % 3 == 0;
            let h = random_history(rng, engine);
            execute(engine, &h, report, "random");
        }
    });

    if !small {
        report.exhaustive_blocks.push(format!(
            "all single-order histories of length 1..={exhaustive_len_full} over the {}-symbol alphabet (unit; engine up to 3); all of length 4..={exhaustive_len_core} over the 12-symbol core alphabet",
            alphabet(&[1, 2, 3], &[1]).len()
        ));
        for p in PHASES {
            for c in CLASSES {
                report.require(&format!("{p}x{c}"));
            }
        }
        for s in [
            "cancel_raced_by_fill",
            "stale_open_after_cancel_in_flight",
            "fully_filled_open_on_open_order",
            "equal_timestamp_open_reports",
            "failed_cancel_restores_open",
            "two_cids_interleaved",
            "full_account_snapshot_multi_order",
            "full_account_snapshot_lists_an_order_twice",
            "request_batch_returns_to_an_earlier_instrument",
        ] {
            report.require(&format!("scenario:{s}"));
        }
        report.require("backend:engine");
        report.require("backend:unit");
    }
    std::process::exit(report.finish(args.out.as_deref()));
}
