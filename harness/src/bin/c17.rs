//! C17 — running dataset statistics equal the statistics of the whole dataset.
//!
//! Drives the real `DataSetSummary::update` with generated decimal sequences (and three random
//! permutations of each) and judges the public fields after EVERY update:
//!
//! * every step (cheap rules): `count == k`; `sum` = left-to-right sum within rounding; `range.high`
//!   / `range.low` == max / min of the prefix exactly, `range()` == max − min within one rounding;
//!   `variance >= 0`; `low <= mean <= high`; `std_dev >= 0` and `std_dev² ≈ |variance|`.
//! * at sampled prefixes (every prefix when n <= 32, else the Fibonacci prefixes, n/2, n−1, n): the
//!   mean and the population variance are recomputed from the whole prefix with the two-pass batch
//!   formulas (mean = Σx/k, variance = Σ(x−mean)²/k) and compared within the stated tolerance.
//! * per group (sequence + 3 permutations): the order-free quantities of the final summaries agree
//!   (count/high/low exactly; sum/mean/variance/std_dev² within twice the rounding tolerance).
//!
//! Each run is first observed (public fields recorded after every update, panics captured), then
//! judged. The observations (all runs at quick, a strided subset of <= 5k groups = 20k runs at
//! thorough; whatever the in-Rust verdict) are written to the JSONL log with the fields as strings at
//! up to 9 prefixes per run; `/verif/oracles/c17_welford.py` re-derives everything exactly.
//! Workload: 5k groups (quick) / 750k groups (thorough) of 4 runs each, n = 1..=500, |x| <= 1e9,
//! scale <= 27, 13 value classes in turn.
//!
//! Tolerances (u = 1e-28, X = max |x| of the prefix, k = prefix length). rust_decimal keeps a
//! 96-bit mantissa with scale <= 28, every operation is rounded to the largest scale that fits, so
//! one operation with result r is off by at most one unit in the last place <= u·(1 + 1.27|r|); the
//! derivation uses eps(r) = 2u(1+|r|) per operation (>= 1.5 ulp):
//!   mean (3 ops per step, error recurrence k·e_k = Σ j·eta_j, eta <= 10u(1+X)):  5u(k+1)(1+X)
//!   M/variance (step error <= u(1+X)²(22k+35), summed, /k, + final division):   u(1+X)²(12k+100)
//!   sum: 2u·k(1+kX);  range(): 2u(1+2X);  std_dev (Newton fixed point, <= 13 ulp):  24u(1+sd)²
//! The in-Rust reference is itself computed in Decimal, so its own (derived the same way) rounding
//! budget is added: mean + 2u(k+3)(1+X), variance + u(1+X)²(9k+43).
//!
//! Non-trivial run (for `distinct_nontrivial`): at least 3 values, at least 2 distinct values.
//! Distinct = FNV-1a over the value strings in arrival order.

use barter::statistic::summary::dataset::DataSetSummary;
use rust_decimal::Decimal;
use serde_json::{Value, json};
use std::str::FromStr;
use vharness::{Args, Report, Rng, catch, fnv1a, report::LogSink, run_workers, shrink};

const N_MAX: usize = 500;

fn u() -> Decimal {
    Decimal::new(1, 28)
}
fn d(n: i64) -> Decimal {
    Decimal::from(n)
}

// ------------------------------------------------------------------------------------------------
// Tolerances (see header)

fn tol_sum(k: usize, x: Decimal) -> Decimal {
    let k = d(k as i64);
    d(2) * u() * k * (Decimal::ONE + k * x)
}
fn tol_mean_welford(k: usize, x: Decimal) -> Decimal {
    d(5) * u() * d(k as i64 + 1) * (Decimal::ONE + x)
}
fn tol_mean_batch(k: usize, x: Decimal) -> Decimal {
    d(2) * u() * d(k as i64 + 3) * (Decimal::ONE + x)
}
fn tol_var_welford(k: usize, x: Decimal) -> Decimal {
    let a = Decimal::ONE + x;
    u() * d(12 * k as i64 + 100) * a * a
}
fn tol_var_batch(k: usize, x: Decimal) -> Decimal {
    let a = Decimal::ONE + x;
    u() * d(9 * k as i64 + 43) * a * a
}
fn tol_sd2(sd: Decimal) -> Decimal {
    let a = Decimal::ONE + sd;
    d(24) * u() * a * a
}
fn tol_range(x: Decimal) -> Decimal {
    d(2) * u() * (Decimal::ONE + d(2) * x)
}

// ------------------------------------------------------------------------------------------------
// Observation + judgement

#[derive(Debug, Clone)]
struct Obs {
    k: usize,
    count: Decimal,
    sum: Decimal,
    mean: Decimal,
    variance: Decimal,
    std_dev: Decimal,
    high: Decimal,
    low: Decimal,
    range: Decimal,
    activated: bool,
}

impl Obs {
    fn of(k: usize, s: &DataSetSummary) -> Obs {
        Obs {
            k,
            count: s.count,
            sum: s.sum,
            mean: s.mean,
            variance: s.dispersion.variance,
            std_dev: s.dispersion.std_dev,
            high: s.dispersion.range.high,
            low: s.dispersion.range.low,
            range: s.dispersion.range.range(),
            activated: s.dispersion.range.activated,
        }
    }
    fn to_json(&self) -> Value {
        json!({
            "k": self.k,
            "count": self.count.to_string(),
            "sum": self.sum.to_string(),
            "mean": self.mean.to_string(),
            "variance": self.variance.to_string(),
            "std_dev": self.std_dev.to_string(),
            "high": self.high.to_string(),
            "low": self.low.to_string(),
            "range": self.range.to_string(),
        })
    }
}

/// Prefix lengths at which the whole-prefix batch recomputation is done (deterministic in n).
fn batch_prefixes(n: usize) -> Vec<usize> {
    if n <= 32 {
        return (1..=n).collect();
    }
    let mut v = vec![1usize, 2, 3, 5, 8, 13, 21, 34, 55, 89, 144, 233, 377, n / 2, n - 1, n];
    v.retain(|k| *k >= 1 && *k <= n);
    v.sort_unstable();
    v.dedup();
    v
}

/// Prefix lengths whose observation is written to the log (subset of `batch_prefixes`).
fn log_prefixes(n: usize) -> Vec<usize> {
    let mut v = vec![1usize, 2, 3, 5, 13, 55, 233, n / 2, n];
    v.retain(|k| *k >= 1 && *k <= n);
    v.sort_unstable();
    v.dedup();
    v
}

#[derive(Default)]
struct RunStats {
    steps: u64,
    checks: u64,
    cells: Vec<&'static str>,
    /// histogram buckets of (observed error / tolerance) for mean and variance at batch prefixes
    ratio_buckets: Vec<String>,
}

type Fail = (&'static str, String);

fn bucket(name: &str, err: Decimal, tol: Decimal) -> String {
    let r = if tol.is_zero() { Decimal::ZERO } else { err / tol };
    let b = if r.is_zero() {
        "0"
    } else if r <= Decimal::new(1, 6) {
        "<=1e-6"
    } else if r <= Decimal::new(1, 4) {
        "<=1e-4"
    } else if r <= Decimal::new(1, 2) {
        "<=1e-2"
    } else if r <= Decimal::new(1, 1) {
        "<=1e-1"
    } else {
        "<=1"
    };
    format!("{name}_err_over_tol:{b}")
}

/// What the real code did: the public fields after every update, and the panic (if any) that
/// ended the run early.
struct Observed {
    obs: Vec<Obs>,
    panic: Option<String>,
    /// how often the run continued on a copy restored from its serialised form
    restores: u32,
}

/// Feed `values` to a fresh real `DataSetSummary`, recording the public fields after every update.
fn observe(values: &[Decimal]) -> Observed {
    let mut summary = DataSetSummary::default();
    let mut obs = Vec::with_capacity(values.len());
    let mut restores = 0u32;
    for (i, x) in values.iter().copied().enumerate() {
        if let Err(msg) = catch(|| summary.update(x)) {
            return Observed { obs, panic: Some(format!("update #{} with {x} panicked: {msg}", i + 1)), restores };
        }
        obs.push(Obs::of(i + 1, &summary));
        // a running summary is state that gets persisted and restored (it is `Serialize + Deserialize` and part
        // of the engine state / audit snapshots): at some prefixes the run continues on a restored copy
        if (i * 7 + values.len()) % 5 == 0 {
            match serde_json::to_string(&summary).ok().and_then(|text| serde_json::from_str::<DataSetSummary>(&text).ok()) {
                Some(restored) => {
                    if restored != summary {
                        return Observed { obs, panic: Some(format!("RESTORE after update #{}: the restored summary differs from the persisted one: {restored:?} vs {summary:?}", i + 1)), restores };
                    }
                    summary = restored;
                    restores += 1;
                }
                None => return Observed { obs, panic: Some(format!("RESTORE after update #{}: the summary does not survive a serde_json round trip", i + 1)), restores },
            }
        }
    }
    Observed { obs, panic: None, restores }
}

/// Judge the observations of one run after every update.
fn judge(values: &[Decimal], seen: &Observed, stats: &mut RunStats) -> Result<(), Fail> {
    let n = values.len();
    if n == 0 {
        return Ok(());
    }
    let batch_at = batch_prefixes(n);
    let mut run_sum = Decimal::ZERO;
    let mut max = values[0];
    let mut min = values[0];
    let mut xabs = Decimal::ZERO;

    for (i, x) in values.iter().copied().enumerate() {
        let k = i + 1;
        let Some(o) = seen.obs.get(i) else {
            let msg = seen.panic.clone().unwrap_or_else(|| format!("no observation after update #{k}"));
            let sig = if msg.starts_with("RESTORE") { "summary_changed_by_persisting_and_restoring" } else { "panic_in_dataset_update" };
            return Err((sig, msg));
        };
        stats.steps += 1;

        run_sum += x;
        if x > max {
            max = x;
        }
        if x < min {
            min = x;
        }
        if x.abs() > xabs {
            xabs = x.abs();
        }

        // ---- every-step rules
        stats.checks += 1;
        if o.count != d(k as i64) {
            return Err(("count_mismatch", format!("after {k} updates count={} expected {k}", o.count)));
        }
        let ts = d(2) * tol_sum(k, xabs);
        if (o.sum - run_sum).abs() > ts {
            return Err(("sum_mismatch", format!("after {k} updates sum={} expected {run_sum} (tol {ts})", o.sum)));
        }
        if !o.activated || o.high != max || o.low != min {
            return Err((
                "range_mismatch",
                format!("after {k} updates range=[{}, {}] activated={} expected [{min}, {max}]", o.low, o.high, o.activated),
            ));
        }
        let tr = d(2) * tol_range(xabs);
        if (o.range - (max - min)).abs() > tr {
            return Err(("range_mismatch", format!("after {k} updates range()={} expected {} (tol {tr})", o.range, max - min)));
        }
        if o.variance < Decimal::ZERO {
            return Err(("variance_negative", format!("after {k} updates variance={}", o.variance)));
        }
        if o.mean < min || o.mean > max {
            return Err(("mean_outside_range", format!("after {k} updates mean={} outside [{min}, {max}]", o.mean)));
        }
        let sd2 = o.std_dev * o.std_dev;
        let tsd = tol_sd2(o.std_dev.abs());
        if o.std_dev < Decimal::ZERO || (sd2 - o.variance.abs()).abs() > tsd {
            return Err((
                "std_dev_mismatch",
                format!("after {k} updates std_dev={} (squared {sd2}) but variance={} (tol {tsd})", o.std_dev, o.variance),
            ));
        }
        if max == min {
            stats.cells.push("step:all_equal_so_far");
        }

        // ---- whole-prefix batch recomputation
        if batch_at.binary_search(&k).is_ok() {
            stats.checks += 1;
            let kd = d(k as i64);
            let mean_b = run_sum / kd;
            let mut acc = Decimal::ZERO;
            for y in &values[..k] {
                let dev = *y - mean_b;
                acc += dev * dev;
            }
            let var_b = acc / kd;
            let tm = tol_mean_welford(k, xabs) + tol_mean_batch(k, xabs);
            let em = (o.mean - mean_b).abs();
            if em > tm {
                return Err((
                    "mean_mismatch",
                    format!("after {k} updates mean={} but sum/count over the whole prefix = {mean_b} (|diff| {em} > tol {tm})", o.mean),
                ));
            }
            let tv = tol_var_welford(k, xabs) + tol_var_batch(k, xabs);
            let ev = (o.variance - var_b).abs();
            if ev > tv {
                return Err((
                    "variance_mismatch",
                    format!(
                        "after {k} updates variance={} but population variance of the whole prefix = {var_b} (|diff| {ev} > tol {tv})",
                        o.variance
                    ),
                ));
            }
            stats.ratio_buckets.push(bucket("mean", em, tm));
            stats.ratio_buckets.push(bucket("variance", ev, tv));
            stats.cells.push("check:batch_prefix");
            if k < n {
                stats.cells.push("check:batch_at_inner_prefix");
            }
            if var_b.is_zero() {
                stats.cells.push("state:variance_zero");
            } else {
                stats.cells.push("state:variance_positive");
            }
            if mean_b.is_sign_negative() && !mean_b.is_zero() {
                stats.cells.push("state:mean_negative");
            } else {
                stats.cells.push("state:mean_non_negative");
            }
            if o.mean.scale() >= 20 {
                stats.cells.push("state:mean_rounded_division");
            }
        }
    }
    Ok(())
}

/// Observe + judge; returns the observations as well (they are logged whatever the verdict).
fn run_sequence(values: &[Decimal], stats: &mut RunStats) -> (Observed, Result<(), Fail>) {
    let seen = observe(values);
    if seen.restores > 0 {
        stats.cells.push("state:continued_on_a_restored_copy");
    }
    let res = judge(values, &seen, stats);
    (seen, res)
}

fn log_record(id: &str, group: &str, class: &str, values: &[Decimal], seen: &Observed) -> Value {
    let at = log_prefixes(values.len());
    json!({
        "id": id,
        "group": group,
        "class": class,
        "values": strs(values),
        "obs": seen.obs.iter().filter(|o| at.binary_search(&o.k).is_ok()).map(|o| o.to_json()).collect::<Vec<_>>(),
        "panic": seen.panic,
    })
}

/// Order-free quantities of two final summaries of the same multiset.
fn compare_orders(a: &Obs, b: &Obs, xabs: Decimal) -> Result<(), Fail> {
    let n = a.k;
    let bad = |what: &str, x: Decimal, y: Decimal, tol: Decimal| -> Result<(), Fail> {
        Err(("order_dependence", format!("{what} depends on arrival order: {x} vs {y} (n={n}, tol {tol})")))
    };
    if a.count != b.count {
        return bad("count", a.count, b.count, Decimal::ZERO);
    }
    if a.high != b.high {
        return bad("range.high", a.high, b.high, Decimal::ZERO);
    }
    if a.low != b.low {
        return bad("range.low", a.low, b.low, Decimal::ZERO);
    }
    let t = d(2) * tol_sum(n, xabs);
    if (a.sum - b.sum).abs() > t {
        return bad("sum", a.sum, b.sum, t);
    }
    let t = d(2) * tol_mean_welford(n, xabs);
    if (a.mean - b.mean).abs() > t {
        return bad("mean", a.mean, b.mean, t);
    }
    let t = d(2) * tol_var_welford(n, xabs);
    if (a.variance - b.variance).abs() > t {
        return bad("variance", a.variance, b.variance, t);
    }
    let t2 = t + tol_sd2(a.std_dev.abs()) + tol_sd2(b.std_dev.abs());
    let (sa, sb) = (a.std_dev * a.std_dev, b.std_dev * b.std_dev);
    if (sa - sb).abs() > t2 {
        return bad("std_dev (squared)", sa, sb, t2);
    }
    Ok(())
}

fn strs(values: &[Decimal]) -> Vec<String> {
    values.iter().map(|v| v.to_string()).collect()
}

fn parse(values: &Value) -> Vec<Decimal> {
    values
        .as_array()
        .expect("values array")
        .iter()
        .map(|s| Decimal::from_str(s.as_str().expect("decimal string")).expect("decimal"))
        .collect()
}

fn max_abs(values: &[Decimal]) -> Decimal {
    values.iter().map(|v| v.abs()).max().unwrap_or(Decimal::ZERO)
}

/// Execute one group: the base sequence and its permutations, with all bookkeeping.
fn execute_group(class: &'static str, base: &[Decimal], perms: &[Vec<Decimal>], id: &str, report: &mut Report, log: Option<&LogSink>) {
    let mut finals: Vec<(Obs, &[Decimal])> = Vec::new();
    let orders: Vec<&[Decimal]> = std::iter::once(base).chain(perms.iter().map(|p| p.as_slice())).collect();
    for (pi, values) in orders.iter().enumerate() {
        let mut stats = RunStats::default();
        let (seen, res) = run_sequence(values, &mut stats);
        report.events_observed += stats.steps;
        report.oracle_checks += stats.checks;
        for c in &stats.cells {
            report.cover(c);
        }
        for b in &stats.ratio_buckets {
            report.info(b, 1);
        }
        let n = values.len();
        report.cover(&format!("class:{class}"));
        report.cover(match n {
            1 => "len:1",
            2..=12 => "len:2-12",
            13..=100 => "len:13-100",
            _ => "len:101-500",
        });
        let distinct_vals = values.iter().any(|v| *v != values[0]);
        let nontrivial = n >= 3 && distinct_vals;
        report.case(fnv1a(strs(values).join(",").as_bytes()), nontrivial);
        if nontrivial && (5..=12).contains(&n) {
            report.sample(|| json!({"class": class, "values": strs(values)}));
        }
        if let Some(log) = log {
            log.write(&log_record(&format!("{id}-{pi}"), id, class, values, &seen));
        }
        match res {
            Ok(()) => finals.push((seen.obs.last().expect("final obs").clone(), values)),
            Err((sig, detail)) => {
                let small = shrink(values, |cand| {
                    !cand.is_empty() && matches!(run_sequence(cand, &mut RunStats::default()).1, Err((s, _)) if s == sig)
                });
                let detail_small = match run_sequence(&small, &mut RunStats::default()).1 {
                    Err((_, dd)) => dd,
                    Ok(()) => detail,
                };
                report.violation(sig, detail_small, json!({"class": class, "values": strs(&small)}));
            }
        }
    }
    // permutation invariance of the order-free quantities
    if finals.len() >= 2 {
        let xabs = max_abs(base);
        let (first, first_values) = &finals[0];
        for (other, other_values) in &finals[1..] {
            report.oracle_checks += 1;
            report.cover("check:permutation_compared");
            if first_values != other_values {
                report.cover("check:permutation_really_reordered");
            }
            if let Err((sig, detail)) = compare_orders(first, other, xabs) {
                report.violation(sig, detail, json!({"class": class, "values": strs(first_values), "perm": strs(other_values)}));
            }
        }
    }
}

// ------------------------------------------------------------------------------------------------
// Generators

const CLASSES: [&str; 13] = [
    "positive",
    "negative",
    "mixed_sign",
    "repeated",
    "constant",
    "tiny_magnitude",
    "huge_magnitude",
    "wide_magnitude",
    "huge_then_tiny",
    "alternating_sign",
    "near_equal_large",
    "small_integers",
    "bound_values",
];

fn pow10(e: u32) -> i128 {
    10i128.pow(e)
}

/// Decimal whose leading digit has weight 10^e (e in [-10, 8]) with `digits` significant digits.
fn value(rng: &mut Rng, e_lo: i32, e_hi: i32, negative: bool) -> Decimal {
    let e = rng.range(e_lo as i64, e_hi as i64) as i32;
    let digits = if rng.chance(1, 6) { rng.range(11, 18) } else { rng.range(1, 10) } as u32;
    let lo = pow10(digits - 1);
    let hi = pow10(digits) - 1;
    let m = lo + (rng.next_u64() as i128 % (hi - lo + 1));
    // value = m * 10^(e - (digits-1))
    let shift = e - (digits as i32 - 1);
    let v = if shift >= 0 {
        Decimal::from_i128_with_scale(m * pow10(shift as u32), 0)
    } else {
        Decimal::from_i128_with_scale(m, (-shift) as u32)
    };
    if negative { -v } else { v }
}

fn length(rng: &mut Rng, max_len: usize) -> usize {
    let n = match rng.below(100) {
        0..=4 => 1,
        5..=9 => 2,
        10..=39 => rng.range_u(3, 12),
        40..=79 => rng.range_u(13, 100),
        _ => rng.range_u(101, N_MAX),
    };
    n.min(max_len)
}

fn sequence(rng: &mut Rng, class: &str, n: usize) -> Vec<Decimal> {
    let bound = Decimal::from(1_000_000_000i64);
    let mut v = Vec::with_capacity(n);
    match class {
        "positive" => (0..n).for_each(|_| v.push(value(rng, -3, 6, false))),
        "negative" => (0..n).for_each(|_| v.push(value(rng, -3, 6, true))),
        "mixed_sign" => (0..n).for_each(|_| {
            let neg = rng.bool();
            v.push(value(rng, -3, 6, neg))
        }),
        "repeated" => {
            let pool: Vec<Decimal> = (0..rng.range_u(2, 4))
                .map(|_| {
                    let neg = rng.bool();
                    value(rng, -4, 7, neg)
                })
                .collect();
            (0..n).for_each(|_| v.push(*rng.pick(&pool)));
        }
        "constant" => {
            let neg = rng.bool();
            let c = if rng.chance(1, 8) { Decimal::ZERO } else { value(rng, -10, 8, neg) };
            (0..n).for_each(|_| v.push(c));
        }
        "tiny_magnitude" => (0..n).for_each(|_| {
            let neg = rng.chance(1, 3);
            v.push(value(rng, -10, -6, neg))
        }),
        "huge_magnitude" => (0..n).for_each(|_| {
            let neg = rng.chance(1, 3);
            v.push(value(rng, 6, 8, neg))
        }),
        "wide_magnitude" => (0..n).for_each(|_| {
            let neg = rng.bool();
            v.push(value(rng, -10, 8, neg))
        }),
        "huge_then_tiny" => {
            let cut = if n >= 2 { rng.range_u(1, n - 1) } else { 1 };
            for i in 0..n {
                let neg = rng.chance(1, 4);
                v.push(if i < cut { value(rng, 7, 8, neg) } else { value(rng, -10, -7, neg) });
            }
        }
        "alternating_sign" => {
            let e = rng.range(-2, 8) as i32;
            for i in 0..n {
                v.push(value(rng, e, e, i % 2 == 1));
            }
        }
        "near_equal_large" => {
            // large common offset, tiny noise: cancellation stress; stays below the 1e9 bound
            let neg = rng.bool();
            let off = value(rng, 5, 8, neg);
            for _ in 0..n {
                let nn = rng.bool();
                let noise = value(rng, -10, -4, nn);
                let x = off + noise;
                v.push(if x.abs() <= bound { x } else { off });
            }
        }
        "small_integers" => (0..n).for_each(|_| v.push(Decimal::from(rng.range(-20, 20)))),
        "bound_values" => {
            // exactly ±1e9 mixed with zeros and small values
            for _ in 0..n {
                v.push(match rng.below(5) {
                    0 => bound,
                    1 => -bound,
                    2 => Decimal::ZERO,
                    3 => Decimal::new(1, 10),
                    _ => {
                        let neg = rng.bool();
                        value(rng, -10, 8, neg)
                    }
                });
            }
        }
        other => panic!("unknown class {other}"),
    }
    v
}

fn replay(path: &std::path::Path) -> i32 {
    let v: Value = serde_json::from_str(&std::fs::read_to_string(path).expect("read replay")).expect("json");
    let sig = v["signature"].as_str().unwrap_or("").to_string();
    let values = parse(&v["history"]["values"]);
    let mut reproduced = false;
    let mut stats = RunStats::default();
    let (seen, res) = run_sequence(&values, &mut stats);
    println!("sequence of {} values; final observation {}", values.len(), seen.obs.last().map(|o| o.to_json()).unwrap_or(Value::Null));
    match res {
        Ok(()) => {
            println!("all step rules held");
            if !v["history"]["perm"].is_null() {
                let perm = parse(&v["history"]["perm"]);
                let (seen2, res2) = run_sequence(&perm, &mut stats);
                println!("permutation: final observation {}", seen2.obs.last().map(|o| o.to_json()).unwrap_or(Value::Null));
                let verdict = match res2 {
                    Ok(()) => compare_orders(seen.obs.last().unwrap(), seen2.obs.last().unwrap(), max_abs(&values)),
                    Err(e) => Err(e),
                };
                if let Err((s, detail)) = verdict {
                    println!("VIOLATION {s}: {detail}");
                    reproduced = sig.is_empty() || s == sig;
                }
            }
        }
        Err((s, detail)) => {
            println!("VIOLATION {s}: {detail}");
            reproduced = sig.is_empty() || s == sig;
        }
    }
    println!("{}", if reproduced { "reproduced" } else { "not reproduced" });
    if reproduced { 1 } else { 0 }
}

fn main() {
    let args = Args::parse();
    if let Some(path) = &args.replay {
        std::process::exit(replay(path));
    }

    let small = args.tier == "miri" || args.tier == "tsan";
    // base sequences; each is also run in 3 random permutations (4 runs per group)
    let n_groups = if small { 13 } else { args.size(5_000, 750_000) };
    let max_len = if small { 8 } else { N_MAX };
    // log everything at quick, a strided subset (<= ~5k groups = 20k runs) at thorough
    let log_stride = n_groups.div_ceil(5_000).max(1);
    let log = LogSink::open(args.log.as_deref());

    let mut report = run_workers(&args, "C17", |w, n, rng, report| {
        let mine = Args::share(n_groups, w, n);
        for i in 0..mine {
            let global = i * n as u64 + w as u64;
            let class = CLASSES[(global % CLASSES.len() as u64) as usize];
            // sanitizer tiers: lengths 1..=max_len in turn (so the floors are met deterministically)
            let len = if small { (global as usize % max_len) + 1 } else { length(rng, max_len) };
            let base = sequence(rng, class, len);
            let perms: Vec<Vec<Decimal>> = (0..3)
                .map(|_| {
                    let mut p = base.clone();
                    rng.shuffle(&mut p);
                    p
                })
                .collect();
            let do_log = log.enabled() && global % log_stride == 0;
            execute_group(class, &base, &perms, &format!("{w}-{i}"), report, do_log.then_some(&log));
        }
    });
    log.flush();

    for c in CLASSES {
        report.require(&format!("class:{c}"));
    }
    report.require("len:1");
    report.require("len:2-12");
    report.require("check:batch_prefix");
    report.require("state:continued_on_a_restored_copy");
    report.require("check:permutation_compared");
    report.require("state:variance_zero");
    report.require("state:variance_positive");
    report.require("state:mean_negative");
    report.require("state:mean_non_negative");
    report.require("state:mean_rounded_division");
    if !small {
        report.require("len:13-100");
        report.require("len:101-500");
        report.require("check:batch_at_inner_prefix");
        report.require("check:permutation_really_reordered");
    }
    std::process::exit(report.finish(args.out.as_deref()));
}
