//! C14 — global connectivity is healthy exactly when every exchange link is.
//!
//! A real `Engine` (1-5 exchanges, 1-2 instruments each, `ScriptStrategy` recording every
//! `on_disconnect(exchange)` call, trading disabled) processes sequences over the alphabet
//! {market item, account item, market reconnecting notice, account reconnecting notice} x exchanges
//! from the initial all-reconnecting state. After EVERY `Engine::process` the monitor compares with
//! an independent per-link boolean model (a notice marks exactly that link reconnecting; any item
//! arriving over a link marks exactly that link healthy):
//!   R1 every exchange's `market_data` / `account` flag equals the model, looked up both by
//!      `ExchangeIndex` and by `ExchangeId`
//!      (`notice_did_not_mark_link_reconnecting`, `item_did_not_mark_link_healthy`,
//!       `event_changed_another_link`, `index_and_id_lookup_disagree`)
//!   R2 `connectivity.global == Healthy` iff every link of the model is healthy
//!      (`global_healthy_while_a_link_is_reconnecting`, `global_reconnecting_while_all_links_healthy`)
//!   R3 the returned audit carries exactly one `MarketDisconnect` / `AccountDisconnect` output (of
//!      the right kind, for the right exchange) for a notice and none for an item
//!      (`disconnect_output_mismatch`)
//!   R4 the strategy's `on_disconnect` was called exactly once with the notice's exchange, and not
//!      at all for items (`on_disconnect_call_mismatch`)
//!
//! distinct non-trivial rule: >= 3 events of which at least 2 change a link of the model; distinct =
//! FNV-1a hash of (topology, step list).

use barter::engine::{
    EngineOutput, Processor,
    audit::EngineAudit,
    state::{connectivity::Health, trading::TradingState},
};
use barter_execution::{AccountEventKind, AccountSnapshot, order::{id::OrderId, state::{Open, OrderState}}};
use barter_instrument::{Side, exchange::{ExchangeId, ExchangeIndex}, index::IndexedInstruments};
use rust_decimal::Decimal;
use serde::{Deserialize, Serialize};
use serde_json::{Value, json};
use vharness::{
    Args, Report, Rng, catch,
    fixtures::{self, DisconnectSeen, t},
    fnv1a, run_workers, shrink,
};

#[derive(Debug, Clone, Copy, PartialEq, Eq, Hash, Serialize, Deserialize)]
enum K {
    /// market item: a market event of an instrument of the exchange
    M,
    /// account item: an account event of the exchange
    A,
    /// market stream reconnecting notice
    MR,
    /// account stream reconnecting notice
    AR,
}

const KS: [K; 4] = [K::M, K::A, K::MR, K::AR];

impl K {
    fn name(&self) -> &'static str {
        match self {
            K::M => "market_item",
            K::A => "account_item",
            K::MR => "market_notice",
            K::AR => "account_notice",
        }
    }
    fn is_market(&self) -> bool {
        matches!(self, K::M | K::MR)
    }
    fn is_notice(&self) -> bool {
        matches!(self, K::MR | K::AR)
    }
}

#[derive(Debug, Clone, Copy, PartialEq, Eq, Hash, Serialize, Deserialize)]
struct Step {
    /// exchange index
    e: usize,
    k: K,
    /// which concrete item is sent (trade / L1, balance / order report / empty full snapshot; which
    /// instrument); irrelevant for notices
    var: u8,
}

struct Topo {
    counts: Vec<usize>,
    ins: IndexedInstruments,
    exch_id: Vec<ExchangeId>,
    instr_of: Vec<Vec<usize>>,
    asset_of: Vec<Vec<usize>>,
}

impl Topo {
    fn new(counts: &[usize]) -> Self {
        let bases = ["btc", "eth"];
        let mut list = Vec::new();
        // round-robin insertion so that instrument / asset indices are not grouped by exchange
        for j in 0..2 {
            for (e, cnt) in counts.iter().enumerate() {
                if j < *cnt {
                    list.push(fixtures::spot(fixtures::EXCHANGES[e], bases[j], "usdt"));
                }
            }
        }
        let ins = IndexedInstruments::new(list);
        let exch_id: Vec<ExchangeId> = ins.exchanges().iter().map(|e| e.value).collect();
        let n = exch_id.len();
        let instr_of = (0..n)
            .map(|e| ins.instruments().iter().enumerate().filter(|(_, i)| i.value.exchange.key.index() == e).map(|(k, _)| k).collect())
            .collect();
        let asset_of = (0..n)
            .map(|e| ins.assets().iter().enumerate().filter(|(_, a)| a.value.exchange == exch_id[e]).map(|(k, _)| k).collect())
            .collect();
        Topo { counts: counts.to_vec(), ins, exch_id, instr_of, asset_of }
    }

    fn n(&self) -> usize {
        self.exch_id.len()
    }

    fn event(&self, step: &Step, idx: usize) -> fixtures::Ev {
        let e = step.e;
        let id = self.exch_id[e];
        let var = step.var as usize;
        let time = idx as i64 + 1;
        match step.k {
            K::MR => fixtures::ev_market_reconnecting(id),
            K::AR => fixtures::ev_account_reconnecting(id),
            K::M => {
                let i = self.instr_of[e][(var / 2) % self.instr_of[e].len()];
                if var % 2 == 0 {
                    fixtures::ev_market_trade(id, i, time, 100.0 + var as f64)
                } else {
                    fixtures::ev_market_l1(id, i, time, Some((Decimal::from(100), Decimal::ONE)), Some((Decimal::from(101), Decimal::ONE)))
                }
            }
            // every kind of item an account link delivers - incl. the order responses the execution manager
            // fabricates when a request times out - is "an event from that link"
            K::A => match var % 6 {
                3 => {
                    let i = self.instr_of[e][(var / 6) % self.instr_of[e].len()];
                    fixtures::ev_order_snapshot(
                        e,
                        i,
                        "cid1",
                        Side::Buy,
                        Decimal::from(100),
                        Decimal::from(10),
                        OrderState::inactive(barter_execution::error::OrderError::Connectivity(barter_execution::error::ConnectivityError::Timeout)),
                    )
                }
                4 => {
                    let i = self.instr_of[e][(var / 6) % self.instr_of[e].len()];
                    fixtures::ev_cancel_response(e, i, "cid2", Err(barter_execution::error::OrderError::Connectivity(barter_execution::error::ConnectivityError::Timeout)))
                }
                5 => {
                    let i = self.instr_of[e][(var / 6) % self.instr_of[e].len()];
                    fixtures::ev_trade(e, i, &format!("tr{idx}"), time, Side::Buy, Decimal::from(100), Decimal::ONE, Decimal::ZERO)
                }
                0 => {
                    let a = self.asset_of[e][(var / 3) % self.asset_of[e].len()];
                    fixtures::ev_balance(e, a, time, Decimal::from(10 + var as i64), Decimal::from(5))
                }
                1 => {
                    let i = self.instr_of[e][(var / 3) % self.instr_of[e].len()];
                    fixtures::ev_order_snapshot(
                        e,
                        i,
                        "cid0",
                        Side::Buy,
                        Decimal::from(100),
                        Decimal::from(10),
                        OrderState::active(Open { id: OrderId::new("oid0"), time_exchange: t(time), filled_quantity: Decimal::ZERO }),
                    )
                }
                _ => fixtures::ev_account(
                    e,
                    AccountEventKind::Snapshot(AccountSnapshot { exchange: ExchangeIndex(e), balances: vec![], instruments: vec![] }),
                ),
            },
        }
    }
}

#[derive(Default)]
struct Stats {
    events: u64,
    checks: u64,
    cells: Vec<String>,
    link_changes: u64,
}

type Fail = (&'static str, String, usize);

fn run_history(topo: &Topo, steps: &[Step], stats: &mut Stats) -> Result<(), Fail> {
    let n = topo.n();
    // half of the histories run with algorithmic trading enabled: a scripted strategy then reacts to some notices by
    // issuing an order on the very tick of the notice - sometimes while that exchange's execution link is gone too
    // (a real outage), which makes the tick end in a fatal delivery error. The notice must be reported all the same.
    let enabled = steps.len() % 2 == 1;
    let (mut engine, txs) = fixtures::engine_with_rec_txs(&topo.ins, if enabled { TradingState::Enabled } else { TradingState::Disabled });
    // model: (market healthy, account healthy) per exchange; everything starts reconnecting
    let mut model = vec![(false, false); n];
    let healthy = |h: Health| h == Health::Healthy;

    // the initial state itself
    stats.checks += 1;
    if healthy(engine.state.connectivity.global) || engine.state.connectivity.exchange_states().any(|s| healthy(s.market_data) || healthy(s.account)) {
        return Err(("initial_state_not_all_reconnecting", format!("{:?}", engine.state.connectivity), 0));
    }
    let _ = engine.strategy.take_disconnects();

    for (idx, step) in steps.iter().enumerate() {
        let e = step.e;
        let id = topo.exch_id[e];
        let all_before = model.iter().all(|(m, a)| *m && *a);
        let link_before = if step.k.is_market() { model[e].0 } else { model[e].1 };
        stats.cells.push(format!("{}:link_{}:global_{}", step.k.name(), if link_before { "H" } else { "R" }, if all_before { "H" } else { "R" }));
        if step.k.is_notice() && !link_before {
            stats.cells.push("notice_on_already_reconnecting_link".into());
        }
        if step.k.is_notice() && model.iter().enumerate().any(|(x, (m, a))| x != e && !(*m && *a)) {
            stats.cells.push("notice_while_another_exchange_reconnecting".into());
        }

        let event = topo.event(step, idx);
        let reacts = enabled && step.k.is_notice() && step.var % 3 == 0;
        let link_gone = reacts && step.var % 2 == 0;
        if reacts {
            let instr = topo.instr_of[e][0];
            engine.strategy.push((vec![], vec![fixtures::req_open(e, instr, &format!("n{idx}"), Side::Buy, Decimal::from(100), Decimal::ONE)]));
            stats.cells.push(if link_gone { "strategy_reacts_to_notice_while_execution_link_is_gone".into() } else { "strategy_reacts_to_notice_with_an_order".into() });
            if link_gone {
                txs[e].set_mode(fixtures::TxMode::Closed);
            }
        }
        let audit = catch(|| engine.process(event)).map_err(|m| ("panic_in_engine_process", format!("event #{idx} {step:?}: {m}"), idx))?;
        if link_gone {
            txs[e].set_mode(fixtures::TxMode::Healthy);
        }
        for tx in &txs {
            let _ = tx.drain();
        }
        stats.events += 1;

        // LIFE CYCLE: the connectivity state is `Serialize + Deserialize` engine state (persisted with it, shipped in
        // audit snapshots): at some points it is replaced by the copy restored from its own JSON, which must equal it,
        // and the history carries on with the copy (everything below judges the copy)
        if step.var % 5 == 2 {
            let before = engine.state.connectivity.clone();
            let text = serde_json::to_string(&before).map_err(|e| ("connectivity_state_changed_by_persisting_and_restoring", format!("event #{idx} {step:?}: does not serialise: {e}"), idx))?;
            let back: barter::engine::state::connectivity::ConnectivityStates =
                serde_json::from_str(&text).map_err(|e| ("connectivity_state_changed_by_persisting_and_restoring", format!("event #{idx} {step:?}: does not deserialise: {e}"), idx))?;
            stats.checks += 1;
            if back != before {
                return Err(("connectivity_state_changed_by_persisting_and_restoring", format!("after event #{idx} {step:?}: restored {back:?} differs from the persisted {before:?}"), idx));
            }
            stats.cells.push(format!("lifecycle:state_persisted_and_restored:global_{}", if healthy(before.global) { "H" } else { "R" }));
            engine.state.connectivity = back;
        }

        // model transition
        let new = !step.k.is_notice();
        let slot = if step.k.is_market() { &mut model[e].0 } else { &mut model[e].1 };
        if *slot != new {
            stats.link_changes += 1;
        }
        *slot = new;
        let all_after = model.iter().all(|(m, a)| *m && *a);
        if all_after && !all_before {
            stats.cells.push("global_became_healthy".into());
        }
        if !all_after && all_before {
            stats.cells.push("global_became_reconnecting".into());
        }

        // R1 per-link flags, by index and by id
        let conn = &engine.state.connectivity;
        for x in 0..n {
            stats.checks += 1;
            let by_index = catch(|| conn.connectivity_index(&ExchangeIndex(x)).clone())
                .map_err(|m| ("panic_in_engine_process", format!("connectivity_index({x}): {m}"), idx))?;
            let by_id = catch(|| conn.connectivity(&topo.exch_id[x]).clone())
                .map_err(|m| ("panic_in_engine_process", format!("connectivity({}): {m}", topo.exch_id[x]), idx))?;
            if by_index != by_id {
                return Err((
                    "index_and_id_lookup_disagree",
                    format!("event #{idx} {step:?}: exchange {x} ({}) by index {by_index:?} vs by id {by_id:?}", topo.exch_id[x]),
                    idx,
                ));
            }
            let obs = (healthy(by_index.market_data), healthy(by_index.account));
            if obs != model[x] {
                let addressed_ok = if step.k.is_market() { obs.0 == model[x].0 } else { obs.1 == model[x].1 };
                let sig = if x == e && !addressed_ok {
                    if step.k.is_notice() { "notice_did_not_mark_link_reconnecting" } else { "item_did_not_mark_link_healthy" }
                } else {
                    "event_changed_another_link"
                };
                return Err((
                    sig,
                    format!(
                        "event #{idx} {step:?} (exchange {id}): exchange {x} ({}) reports (market healthy, account healthy) = {obs:?}, model says {:?}",
                        topo.exch_id[x], model[x]
                    ),
                    idx,
                ));
            }
        }
        // R2 global iff conjunction
        stats.checks += 1;
        let global = healthy(conn.global);
        if global != all_after {
            let sig = if global { "global_healthy_while_a_link_is_reconnecting" } else { "global_reconnecting_while_all_links_healthy" };
            return Err((sig, format!("event #{idx} {step:?}: global={:?} but links (market, account) per exchange = {model:?}", conn.global), idx));
        }
        // R3 audit outputs
        stats.checks += 1;
        let (mut market_out, mut account_out, mut other_out) = (Vec::new(), Vec::new(), 0usize);
        match &audit {
            EngineAudit::Process(p) => {
                for o in p.outputs.iter() {
                    match o {
                        EngineOutput::MarketDisconnect(DisconnectSeen(x)) => market_out.push(*x),
                        EngineOutput::AccountDisconnect(DisconnectSeen(x)) => account_out.push(*x),
                        _ => other_out += 1,
                    }
                }
            }
            EngineAudit::FeedEnded => {
                return Err(("disconnect_output_mismatch", format!("event #{idx} {step:?}: audit is FeedEnded"), idx));
            }
        }
        let (want_market, want_account): (Vec<ExchangeId>, Vec<ExchangeId>) = match step.k {
            K::MR => (vec![id], vec![]),
            K::AR => (vec![], vec![id]),
            _ => (vec![], vec![]),
        };
        // the strategy's own orders show up as one further output when they could be delivered (on a fatal delivery
        // error the engine drops that output - documented - and keeps what the event itself produced)
        let want_other = if reacts && !link_gone { 1 } else { 0 };
        if market_out != want_market || account_out != want_account || (step.k.is_notice() && other_out != want_other) {
            return Err((
                "disconnect_output_mismatch",
                format!(
                    "event #{idx} {step:?}: audit outputs MarketDisconnect{market_out:?} AccountDisconnect{account_out:?} (+{other_out} other); expected MarketDisconnect{want_market:?} AccountDisconnect{want_account:?}"
                ),
                idx,
            ));
        }
        // R4 strategy calls
        stats.checks += 1;
        let calls = engine.strategy.take_disconnects();
        let want_calls: Vec<ExchangeId> = if step.k.is_notice() { vec![id] } else { vec![] };
        if calls != want_calls {
            return Err((
                "on_disconnect_call_mismatch",
                format!("event #{idx} {step:?}: on_disconnect called for {calls:?}, expected {want_calls:?}"),
                idx,
            ));
        }
    }
    Ok(())
}

fn execute(topo: &Topo, steps: &[Step], report: &mut Report, label: &str) {
    let mut stats = Stats::default();
    let res = run_history(topo, steps, &mut stats);
    report.events_observed += stats.events;
    report.oracle_checks += stats.checks;
    for c in &stats.cells {
        report.cover(c);
    }
    report.cover(&format!("exchanges:{}", topo.n()));
    let nontrivial = steps.len() >= 3 && stats.link_changes >= 2;
    report.case(fnv1a(format!("{:?}{steps:?}", topo.counts).as_bytes()), nontrivial);
    if nontrivial && steps.len() >= 5 && steps.len() <= 10 {
        report.sample(|| json!({"source": label, "topology": topo.counts, "steps": steps}));
    }
    if let Err((sig, detail, _)) = res {
        let small = shrink(steps, |cand| matches!(run_history(topo, cand, &mut Stats::default()), Err((s, _, _)) if s == sig));
        let detail = match run_history(topo, &small, &mut Stats::default()) {
            Err((_, d, _)) => d,
            Ok(()) => detail,
        };
        report.violation(sig, detail, json!({"topology": topo.counts, "steps": small}));
    }
}

/// All words of exactly `len` over {M,A,MR,AR} x exchanges, worker-strided.
fn enumerate(topo: &Topo, len: usize, w: usize, n_workers: usize, mut f: impl FnMut(&[Step])) -> u64 {
    let alpha: Vec<(usize, K)> = (0..topo.n()).flat_map(|e| KS.iter().map(move |k| (e, *k))).collect();
    let n = alpha.len() as u64;
    let total = n.pow(len as u32);
    let mut word = Vec::with_capacity(len);
    let mut idx = w as u64;
    while idx < total {
        word.clear();
        let mut x = idx;
        for pos in 0..len {
            let (e, k) = alpha[(x % n) as usize];
            word.push(Step { e, k, var: ((idx / 7 + pos as u64) % 6) as u8 });
            x /= n;
        }
        f(&word);
        idx += n_workers as u64;
    }
    total
}

fn random_history(topo: &Topo, rng: &mut Rng, max_len: usize) -> Vec<Step> {
    let len = rng.range_u(1, max_len);
    let notice_den = *rng.pick(&[3u64, 8, 20, 50]);
    // sometimes concentrate on a subset of exchanges for a while
    let mut h = Vec::with_capacity(len);
    for _ in 0..len {
        let e = rng.usize_below(topo.n());
        let market = rng.bool();
        let notice = rng.chance(1, notice_den);
        let k = match (market, notice) {
            (true, false) => K::M,
            (false, false) => K::A,
            (true, true) => K::MR,
            (false, true) => K::AR,
        };
        h.push(Step { e, k, var: rng.below(12) as u8 });
    }
    h
}

fn random_topology(rng: &mut Rng, n: usize) -> Vec<usize> {
    (0..n).map(|_| rng.range_u(1, 2)).collect()
}

fn main() {
    let args = Args::parse();

    if let Some(path) = &args.replay {
        let v: Value = serde_json::from_str(&std::fs::read_to_string(path).expect("read replay")).expect("json");
        let counts: Vec<usize> = serde_json::from_value(v["history"]["topology"].clone()).expect("topology");
        let steps: Vec<Step> = serde_json::from_value(v["history"]["steps"].clone()).expect("steps");
        if counts.is_empty() || counts.len() > 5 || counts.iter().any(|c| !(1..=2).contains(c)) || steps.iter().any(|s| s.e >= counts.len()) {
            println!("replay history is outside the domain of C14");
            std::process::exit(2);
        }
        let topo = Topo::new(&counts);
        let mut report = Report::new("C14");
        execute(&topo, &steps, &mut report, "replay");
        println!("{}", serde_json::to_string_pretty(&report.to_json()).unwrap());
        std::process::exit(if report.violation_count > 0 { 1 } else { 0 });
    }

    let small = args.tier == "miri" || args.tier == "tsan";
    let len2 = if args.is_thorough() { 7 } else { 6 };
    let len3 = if args.is_thorough() { 5 } else { 4 };
    let len1 = 8;
    let n_random = match args.tier.as_str() {
        "miri" => 10,
        "tsan" => 100,
        _ => args.size(60_000, 3_000_000),
    };
    let max_len = if args.tier == "miri" { 40 } else { 200 };

    let mut report = run_workers(&args, "C14", |w, n, rng, report| {
        if !small {
            let t1 = Topo::new(&[2]);
            for len in 1..=len1 {
                enumerate(&t1, len, w, n, |word| execute(&t1, word, report, "exhaustive-1"));
            }
            let t2 = Topo::new(&[1, 2]);
            for len in 1..=len2 {
                enumerate(&t2, len, w, n, |word| execute(&t2, word, report, "exhaustive-2"));
            }
            let t3 = Topo::new(&[1, 1, 1]);
            for len in 1..=len3 {
                enumerate(&t3, len, w, n, |word| execute(&t3, word, report, "exhaustive-3"));
            }
        }
        let mine = Args::share(n_random, w, n);
        for k in 0..mine {
            let n_exch = 1 + ((k as usize + w) % 5);
            let topo = Topo::new(&random_topology(rng, n_exch));
            let h = random_history(&topo, rng, max_len);
            execute(&topo, &h, report, "random");
        }
    });

    if !small {
        report.exhaustive_blocks.push(format!(
            "from the initial all-reconnecting state, every sequence over {{market item, account item, market notice, account notice}} x exchanges: 1 exchange up to length {len1} (4 symbols), 2 exchanges up to length {len2} (8 symbols), 3 exchanges up to length {len3} (12 symbols)"
        ));
        for k in KS {
            for cell in ["link_R:global_R", "link_H:global_R", "link_H:global_H"] {
                report.require(&format!("{}:{cell}", k.name()));
            }
        }
        for c in [
            "global_became_healthy",
            "global_became_reconnecting",
            "notice_on_already_reconnecting_link",
            "notice_while_another_exchange_reconnecting",
            "strategy_reacts_to_notice_with_an_order",
            "strategy_reacts_to_notice_while_execution_link_is_gone",
            "exchanges:1",
            "exchanges:2",
            "exchanges:3",
            "exchanges:4",
            "exchanges:5",
            "lifecycle:state_persisted_and_restored:global_H",
            "lifecycle:state_persisted_and_restored:global_R",
        ] {
            report.require(c);
        }
    }
    std::process::exit(report.finish(args.out.as_deref()));
}
