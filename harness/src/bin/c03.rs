//! C03 — order requests: sent => delivered once and in flight; refused / failed => neither.
//!
//! A real `Engine` over 3 exchanges x 2 instruments with one execution link per exchange, each
//! link being a recording, fault-injecting transmitter (healthy / closed = unrecoverable /
//! transiently failing = recoverable / missing = `None` entry; one variant uses barter's real
//! `UnboundedTx` with a dropped receiver as the closed link), a scripted strategy (queue of
//! cancel/open batches with unique client order ids, also naming an exchange index beyond the link
//! table), a scripted risk manager (refuses ids ending in `!r`), trading-state toggles, the four
//! command kinds, market and account items and a final shutdown.
//!
//! After EVERY processed event the monitor drains all links and compares three independent
//! observations: what the returned audit CLAIMS (sent / errors / refused), what was DELIVERED on
//! which link, and what `InstrumentState.orders` SHOWS.
//!
//! distinct non-trivial rule: >= 5 events with at least one delivered request and at least one
//! request that was refused or failed; distinct = hash of (fault pattern, history).

use barter::{
    EngineEvent,
    engine::{
        Engine, EngineOutput, Processor,
        action::{ActionOutput, send_requests::SendRequestsOutput},
        audit::EngineAudit,
        command::Command,
        error::EngineError,
        execution_tx::MultiExchangeTxMap,
        state::{instrument::filter::InstrumentFilter, trading::TradingState},
    },
    execution::request::ExecutionRequest,
};
use barter_execution::order::{
    id::ClientOrderId,
    request::{OrderRequestCancel, OrderRequestOpen},
    state::{ActiveOrderState, Open, OrderState},
};
use barter_instrument::{
    Side,
    exchange::ExchangeId,
    index::IndexedInstruments,
    instrument::InstrumentIndex,
};
use barter_integration::{
    Terminal, Unrecoverable,
    channel::{Tx, UnboundedRx, UnboundedTx, mpsc_unbounded},
    collection::one_or_many::OneOrMany,
};
use rust_decimal::Decimal;
use serde::{Deserialize, Serialize};
use serde_json::{Value, json};
use std::collections::{BTreeMap, BTreeSet};
use vharness::{
    Args, Report, Rng, catch,
    fixtures::{self, RecTx, ScriptRisk, ScriptStrategy, TestClock, TxMode, cid_is_refused},
    fnv1a, run_workers, shrink,
};

const N_EX: usize = 3;
const N_INSTR: usize = 6;

#[derive(Debug, Clone, Copy, Serialize, Deserialize, PartialEq, Eq, Hash, PartialOrd, Ord)]
enum Link {
    Healthy,
    Closed,
    /// closed, implemented by barter's real UnboundedTx whose receiver was dropped
    ClosedReal,
    Recoverable,
    Missing,
}

#[derive(Debug, Clone, Serialize, Deserialize, PartialEq)]
struct ReqSpec {
    open: bool,
    exchange: usize, // may be >= N_EX (unknown exchange index)
    instr: usize,
    cid: String,
}

#[derive(Debug, Clone, Serialize, Deserialize, PartialEq)]
enum Ev {
    Market { instr: usize, t: i64, price: i64 },
    Balance { exchange: usize, t: i64 },
    /// exchange confirms an in-flight open order as Open
    ConfirmOpen { instr: usize, cid: String, t: i64 },
    /// a fill that opens / changes a position (for ClosePositions)
    Fill { instr: usize, buy: bool, t: i64 },
    /// a full account snapshot of one exchange: names every instrument of the exchange, with the listed
    /// orders reported Open (taken by the venue before it knew of anything not listed)
    Snapshot { exchange: usize, listed: Vec<(usize, String)>, t: i64 },
    Trading(bool),
    /// the strategy's next algo batch (consumed on the next event processed with trading enabled)
    QueueAlgo(Vec<ReqSpec>),
    CmdOpen(Vec<ReqSpec>),
    CmdCancel(Vec<ReqSpec>),
    CmdCancelAll,
    CmdCloseAll,
    SetLink { exchange: usize, mode: Link },
    /// a disconnect notice of one exchange's account / market stream; with `halt` the strategy's on-disconnect hook
    /// disables trading (a documented use of the hook): nothing is generated on that very event any more
    Disconnect { exchange: usize, account: bool, halt: bool },
    Shutdown,
}

#[derive(Debug, Clone, Serialize, Deserialize, PartialEq)]
struct Case {
    links: [Link; N_EX],
    start_enabled: bool,
    events: Vec<Ev>,
}

// ---- transmitter double that can be a RecTx or barter's real channel ---------------------------

#[derive(Debug, Clone)]
enum AnyTx {
    Rec(RecTx),
    Real(UnboundedTx<ExecutionRequest>),
}

#[derive(Debug)]
struct AnyErr(bool);
impl Unrecoverable for AnyErr {
    fn is_unrecoverable(&self) -> bool {
        self.0
    }
}

impl Tx for AnyTx {
    type Item = ExecutionRequest;
    type Error = AnyErr;
    fn send<Item: Into<Self::Item>>(&self, item: Item) -> Result<(), Self::Error> {
        match self {
            AnyTx::Rec(tx) => tx.send(item).map_err(|e| AnyErr(e.is_unrecoverable())),
            AnyTx::Real(tx) => tx.send(item).map_err(|e| AnyErr(e.is_unrecoverable())),
        }
    }
}

type Eng = Engine<TestClock, fixtures::DefState, MultiExchangeTxMap<AnyTx>, ScriptStrategy<fixtures::DefState>, ScriptRisk<fixtures::DefState>>;

fn instruments() -> IndexedInstruments {
    // sorted: BinanceSpot(0): btc_usdt(0) eth_usdt(1); Kraken(1): btc_usdt(2) eth_usdt(3); Okx(2): btc_usdt(4) eth_usdt(5)
    IndexedInstruments::new([
        fixtures::spot(ExchangeId::Okx, "btc", "usdt"),
        fixtures::spot(ExchangeId::BinanceSpot, "btc", "usdt"),
        fixtures::spot(ExchangeId::Kraken, "eth", "usdt"),
        fixtures::spot(ExchangeId::Okx, "eth", "usdt"),
        fixtures::spot(ExchangeId::BinanceSpot, "eth", "usdt"),
        fixtures::spot(ExchangeId::Kraken, "btc", "usdt"),
    ])
}

struct Links {
    rec: Vec<Option<RecTx>>,
    real_rx: Vec<Option<UnboundedRx<ExecutionRequest>>>,
    mode: Vec<Link>,
}

fn build(case: &Case) -> (Eng, Links) {
    let ins = instruments();
    let mut links = Links { rec: vec![], real_rx: vec![], mode: case.links.to_vec() };
    let mut entries = vec![];
    for (e, ex) in ins.exchanges().iter().enumerate() {
        match case.links[e] {
            Link::Missing => {
                links.rec.push(None);
                links.real_rx.push(None);
                entries.push((ex.value, None));
            }
            Link::ClosedReal => {
                let (tx, rx) = mpsc_unbounded::<ExecutionRequest>();
                drop(rx);
                links.rec.push(None);
                links.real_rx.push(None);
                entries.push((ex.value, Some(AnyTx::Real(tx))));
            }
            m => {
                let tx = RecTx::new(match m {
                    Link::Healthy => TxMode::Healthy,
                    Link::Closed => TxMode::Closed,
                    _ => TxMode::Recoverable,
                });
                links.rec.push(Some(tx.clone()));
                links.real_rx.push(None);
                entries.push((ex.value, Some(AnyTx::Rec(tx))));
            }
        }
    }
    let engine = Engine::new(
        TestClock::new(fixtures::t0()),
        fixtures::default_state(&ins, if case.start_enabled { TradingState::Enabled } else { TradingState::Disabled }),
        MultiExchangeTxMap::from_iter(entries),
        ScriptStrategy::default(),
        ScriptRisk::default(),
    );
    (engine, links)
}

fn to_open(r: &ReqSpec) -> OrderRequestOpen {
    fixtures::req_open(r.exchange, r.instr, &r.cid, Side::Buy, Decimal::from(100), Decimal::from(2))
}
fn to_cancel(r: &ReqSpec) -> OrderRequestCancel {
    let mut req = fixtures::req_cancel(r.exchange, r.instr, &r.cid, None);
    // a third of the cancels are issued under ANOTHER strategy id than the one that opened the order (an operator's
    // command, a supervising component): the tracked order a delivered cancel names is in flight all the same
    if r.cid.bytes().map(|b| b as u32).sum::<u32>() % 3 == 0 {
        req.key.strategy = barter_execution::order::id::StrategyId::new("operator");
    }
    req
}

#[derive(Debug, Clone, PartialEq, Eq, PartialOrd, Ord)]
struct Rk {
    open: bool,
    exchange: usize,
    instr: usize,
    cid: String,
}

fn rk_open(r: &OrderRequestOpen) -> Rk {
    Rk { open: true, exchange: r.key.exchange.index(), instr: r.key.instrument.index(), cid: r.key.cid.0.to_string() }
}
fn rk_cancel(r: &OrderRequestCancel) -> Rk {
    Rk { open: false, exchange: r.key.exchange.index(), instr: r.key.instrument.index(), cid: r.key.cid.0.to_string() }
}

#[derive(Default)]
struct Claims {
    sent: Vec<Rk>,
    errors: Vec<(Rk, bool)>, // (request, unrecoverable)
    refused: Vec<Rk>,
    algo_output_present: bool,
    audit_errors: usize,
    /// requests reported sent by a Commanded output (commands bypass the risk manager)
    cmd_sent: Vec<Rk>,
    /// the Commanded output itself carries an unrecoverable error (engine returns before the algo step)
    command_fatal: bool,
}

fn collect_sro_open(c: &mut Claims, o: &SendRequestsOutput<barter_execution::order::request::RequestOpen>) {
    c.sent.extend(o.sent.iter().map(rk_open));
    c.errors.extend(o.errors.iter().map(|(r, e)| (rk_open(r), matches!(e, EngineError::Unrecoverable(_)))));
}
fn collect_sro_cancel(c: &mut Claims, o: &SendRequestsOutput<barter_execution::order::request::RequestCancel>) {
    c.sent.extend(o.sent.iter().map(rk_cancel));
    c.errors.extend(o.errors.iter().map(|(r, e)| (rk_cancel(r), matches!(e, EngineError::Unrecoverable(_)))));
}

type V = (&'static str, String);

struct Outcome {
    steps: u64,
    checks: u64,
    cells: BTreeSet<String>,
    delivered: u64,
    not_delivered: u64,
    unreported_deliveries: u64,
}

fn order_state(engine: &Eng, instr: usize, cid: &str) -> Option<ActiveOrderState> {
    engine.state.instruments.instrument_index(&InstrumentIndex(instr)).orders.0.get(&ClientOrderId::new(cid)).map(|o| o.state.clone())
}

fn all_orders(engine: &Eng) -> BTreeMap<(usize, String), String> {
    let mut m = BTreeMap::new();
    for i in 0..N_INSTR {
        for (cid, o) in engine.state.instruments.instrument_index(&InstrumentIndex(i)).orders.0.iter() {
            m.insert((i, cid.0.to_string()), format!("{:?}", o.state));
        }
    }
    m
}

fn run(case: &Case) -> Result<Outcome, V> {
    let (mut engine, mut links) = build(case);
    let ins = instruments();
    let exch_of: Vec<usize> = ins.instruments().iter().map(|i| i.value.exchange.key.index()).collect();
    let exch_id: Vec<ExchangeId> = ins.exchanges().iter().map(|e| e.value).collect();
    let mut out = Outcome { steps: 0, checks: 0, cells: BTreeSet::new(), delivered: 0, not_delivered: 0, unreported_deliveries: 0 };
    let mut bal_t = 0i64;

    for (idx, ev) in case.events.iter().enumerate() {
        // environment-only events
        match ev {
            Ev::QueueAlgo(batch) => {
                let cancels = batch.iter().filter(|r| !r.open).map(to_cancel).collect();
                let opens = batch.iter().filter(|r| r.open).map(to_open).collect();
                engine.strategy.push((cancels, opens));
                continue;
            }
            Ev::SetLink { exchange, mode } => {
                if let Some(Some(tx)) = links.rec.get(*exchange) {
                    let m = match mode {
                        Link::Healthy => TxMode::Healthy,
                        Link::Closed | Link::ClosedReal | Link::Missing => TxMode::Closed,
                        Link::Recoverable => TxMode::Recoverable,
                    };
                    tx.set_mode(m);
                    links.mode[*exchange] = match m {
                        TxMode::Healthy => Link::Healthy,
                        TxMode::Closed => Link::Closed,
                        TxMode::Recoverable => Link::Recoverable,
                    };
                }
                continue;
            }
            _ => {}
        }
        let trading_before = engine.state.trading;
        let algo_before = engine.strategy.algo_calls();
        let pending_batch: Option<Vec<Rk>> = engine.strategy.queue.lock().unwrap().front().map(|(c, o)| c.iter().map(rk_cancel).chain(o.iter().map(rk_open)).collect());
        let orders_before = all_orders(&engine);
        let mut requested_by_command: Vec<Rk> = vec![];

        let engine_event: EngineEvent = match ev {
            Ev::Market { instr, t, price } => fixtures::ev_market_trade(exch_id[exch_of[*instr]], *instr, *t, *price as f64),
            Ev::Balance { exchange, t } => {
                bal_t = bal_t.max(*t) + 1;
                let asset = ins.assets().iter().find(|a| a.value.exchange == exch_id[*exchange]).unwrap().key.index();
                fixtures::ev_balance(*exchange, asset, bal_t, Decimal::from(bal_t), Decimal::from(bal_t))
            }
            Ev::ConfirmOpen { instr, cid, t } => fixtures::ev_order_snapshot(
                exch_of[*instr],
                *instr,
                cid,
                Side::Buy,
                Decimal::from(100),
                Decimal::from(2),
                OrderState::active(Open { id: barter_execution::order::id::OrderId::new(format!("x{cid}")), time_exchange: fixtures::t(*t), filled_quantity: Decimal::ZERO }),
            ),
            Ev::Fill { instr, buy, t } => fixtures::ev_trade(exch_of[*instr], *instr, &format!("f{idx}"), *t, if *buy { Side::Buy } else { Side::Sell }, Decimal::from(100), Decimal::ONE, Decimal::ZERO),
            Ev::Snapshot { exchange, listed, t } => {
                use barter_execution::{AccountEventKind, AccountSnapshot, InstrumentAccountSnapshot, order::{Order, OrderKind, TimeInForce}};
                let instruments = (0..N_INSTR)
                    .filter(|i| exch_of[*i] == *exchange)
                    .map(|i| InstrumentAccountSnapshot {
                        instrument: InstrumentIndex(i),
                        orders: listed
                            .iter()
                            .filter(|(li, _)| *li == i)
                            .map(|(_, cid)| Order {
                                key: fixtures::order_key(*exchange, i, cid),
                                side: Side::Buy,
                                price: Decimal::from(100),
                                quantity: Decimal::from(2),
                                kind: OrderKind::Limit,
                                time_in_force: TimeInForce::GoodUntilCancelled { post_only: false },
                                state: OrderState::active(Open { id: barter_execution::order::id::OrderId::new(format!("x{cid}")), time_exchange: fixtures::t(*t), filled_quantity: Decimal::ZERO }),
                            })
                            .collect(),
                    })
                    .collect();
                fixtures::ev_account(*exchange, AccountEventKind::Snapshot(AccountSnapshot { exchange: barter_instrument::exchange::ExchangeIndex(*exchange), balances: vec![], instruments }))
            }
            Ev::Trading(on) => EngineEvent::TradingStateUpdate(if *on { TradingState::Enabled } else { TradingState::Disabled }),
            Ev::CmdOpen(reqs) => {
                requested_by_command = reqs.iter().map(|r| rk_open(&to_open(r))).collect();
                EngineEvent::Command(Command::SendOpenRequests(OneOrMany::from_iter(reqs.iter().map(to_open))))
            }
            Ev::CmdCancel(reqs) => {
                requested_by_command = reqs.iter().map(|r| rk_cancel(&to_cancel(r))).collect();
                EngineEvent::Command(Command::SendCancelRequests(OneOrMany::from_iter(reqs.iter().map(to_cancel))))
            }
            Ev::CmdCancelAll => EngineEvent::Command(Command::CancelOrders(InstrumentFilter::None)),
            Ev::CmdCloseAll => EngineEvent::Command(Command::ClosePositions(InstrumentFilter::None)),
            Ev::Shutdown => EngineEvent::shutdown(),
            Ev::Disconnect { exchange, account, halt } => {
                engine.strategy.disable_trading_on_disconnect.store(*halt, std::sync::atomic::Ordering::Relaxed);
                if *halt && trading_before == TradingState::Enabled {
                    out.cells.insert("on_disconnect_hook_disables_trading_while_enabled".into());
                }
                let id = exch_id[*exchange % exch_id.len()];
                if *account { fixtures::ev_account_reconnecting(id) } else { EngineEvent::Market(barter_data::streams::consumer::MarketStreamEvent::Reconnecting(id)) }
            }
            Ev::QueueAlgo(_) | Ev::SetLink { .. } => unreachable!(),
        };
        let is_command = matches!(ev, Ev::CmdOpen(_) | Ev::CmdCancel(_) | Ev::CmdCancelAll | Ev::CmdCloseAll);
        if matches!(ev, Ev::CmdCloseAll) {
            // every second close-all runs with a "flatten everything" close strategy that also cancels the tracked
            // orders (cancels and opens of one command batch, possibly across a dead and a healthy link)
            let flatten = idx % 2 == 0;
            engine.strategy.close_also_cancels.store(flatten, std::sync::atomic::Ordering::Relaxed);
            if flatten {
                out.cells.insert("close_all_with_a_close_strategy_that_also_cancels".into());
            }
        }

        let audit = catch(|| engine.process(engine_event)).map_err(|m| ("panic_in_engine_process", format!("event #{idx} {ev:?}: {m}")))?;
        out.steps += 1;

        // ---- what the audit claims
        let mut claims = Claims::default();
        let terminal = audit.is_terminal();
        let EngineAudit::Process(pa) = &audit else {
            return Err(("unexpected_feed_ended_audit", format!("event #{idx}")));
        };
        claims.audit_errors = pa.errors.iter().count();
        for o in pa.outputs.iter() {
            match o {
                EngineOutput::Commanded(ActionOutput::OpenOrders(s)) => {
                    collect_sro_open(&mut claims, s);
                    claims.cmd_sent = claims.sent.clone();
                    claims.command_fatal = claims.errors.iter().any(|(_, u)| *u);
                }
                EngineOutput::Commanded(ActionOutput::CancelOrders(s)) => {
                    collect_sro_cancel(&mut claims, s);
                    claims.cmd_sent = claims.sent.clone();
                    claims.command_fatal = claims.errors.iter().any(|(_, u)| *u);
                }
                EngineOutput::Commanded(ActionOutput::ClosePositions(s)) => {
                    collect_sro_cancel(&mut claims, &s.cancels);
                    collect_sro_open(&mut claims, &s.opens);
                    claims.cmd_sent = claims.sent.clone();
                    claims.command_fatal = claims.errors.iter().any(|(_, u)| *u);
                }
                EngineOutput::Commanded(ActionOutput::GenerateAlgoOrders(g)) | EngineOutput::AlgoOrders(g) => {
                    claims.algo_output_present = true;
                    collect_sro_cancel(&mut claims, &g.cancels_and_opens.cancels);
                    collect_sro_open(&mut claims, &g.cancels_and_opens.opens);
                    claims.refused.extend(g.cancels_refused.iter().map(|r| rk_cancel(&r.item)));
                    claims.refused.extend(g.opens_refused.iter().map(|r| rk_open(&r.item)));
                }
                _ => {}
            }
        }

        // ---- what was delivered, per link
        let mut delivered: Vec<(usize, Rk)> = vec![];
        for (e, tx) in links.rec.iter().enumerate() {
            if let Some(tx) = tx {
                for req in tx.drain() {
                    match req {
                        ExecutionRequest::Open(r) => delivered.push((e, rk_open(&r))),
                        ExecutionRequest::Cancel(r) => delivered.push((e, rk_cancel(&r))),
                        ExecutionRequest::Shutdown => {}
                    }
                }
            }
        }
        out.delivered += delivered.len() as u64;
        let orders_after = all_orders(&engine);

        // keys addressed by more than one request within this event (e.g. a cancel-all command plus an
        // algo cancel of the same order): their in-flight marks are not attributable to one request
        let mut key_count: BTreeMap<(usize, String), usize> = BTreeMap::new();
        for r in delivered.iter().map(|(_, r)| r).chain(claims.refused.iter()).chain(claims.errors.iter().map(|(r, _)| r)) {
            *key_count.entry((r.instr, r.cid.clone())).or_insert(0) += 1;
        }
        // ... and the order an account event of this very tick reports on is changed by that event itself
        let event_keys: Vec<(usize, String)> = match ev {
            Ev::ConfirmOpen { instr, cid, .. } => vec![(*instr, cid.clone())],
            Ev::Snapshot { listed, .. } => listed.clone(),
            _ => vec![],
        };
        let ambiguous = |r: &Rk| key_count.get(&(r.instr, r.cid.clone())).copied().unwrap_or(0) > 1 || event_keys.contains(&(r.instr, r.cid.clone()));

        // (a) sent => delivered exactly once (per report), on the link of the exchange named in the request
        for s in &claims.sent {
            out.checks += 1;
            let hits: Vec<usize> = delivered.iter().filter(|(_, r)| r == s).map(|(e, _)| *e).collect();
            let reported = claims.sent.iter().filter(|x| *x == s).count();
            // when the algo step hit a fatal error its output is dropped from the audit (documented), so
            // identical algo deliveries of this tick cannot be told apart from the reported ones
            let algo_output_dropped = claims.audit_errors > 0 && !claims.algo_output_present && !claims.command_fatal && engine.strategy.algo_calls() > algo_before;
            let count_ok = if algo_output_dropped { hits.len() >= reported } else { hits.len() == reported };
            if !count_ok || hits.iter().any(|e| *e != s.exchange) {
                return Err(("request_reported_sent_but_not_delivered_exactly_once_to_its_link", format!("event #{idx} {ev:?}: {s:?} reported sent {reported}x; delivered on links {hits:?}")));
            }
            if ambiguous(s) {
                continue;
            }
            out.cells.insert(format!("sent:{}:{}", if s.open { "open" } else { "cancel" }, if is_command { "command" } else { "algo" }));
            // (b) in-flight marks
            let st = order_state(&engine, s.instr, &s.cid);
            if s.open {
                if !matches!(st, Some(ActiveOrderState::OpenInFlight(_))) {
                    return Err(("sent_open_not_shown_in_flight", format!("event #{idx}: {s:?} sent but order state is {st:?}")));
                }
            } else if orders_before.contains_key(&(s.instr, s.cid.clone())) {
                out.cells.insert("cancel_of_tracked_order_sent".into());
                if !matches!(st, Some(ActiveOrderState::CancelInFlight(_))) {
                    return Err(("sent_cancel_of_tracked_order_not_shown_in_flight", format!("event #{idx}: {s:?} sent, order was {:?}, now {st:?}", orders_before.get(&(s.instr, s.cid.clone())))));
                }
            } else {
                out.cells.insert("cancel_of_untracked_order_sent".into());
            }
        }
        // (c) failed => reported with its error class, not delivered, no in-flight mark
        for (r, unrecoverable) in &claims.errors {
            out.checks += 1;
            out.not_delivered += 1;
            if !claims.sent.contains(r) && delivered.iter().any(|(_, d)| d == r) {
                return Err(("failed_request_was_delivered", format!("event #{idx}: {r:?} reported failed but delivered")));
            }
            let link = links.mode.get(r.exchange).copied();
            let want_unrecoverable = !matches!(link, Some(Link::Recoverable));
            let fault = match link {
                None => "unknown_exchange_index",
                Some(Link::Missing) => "missing_link",
                Some(Link::Closed) => "closed_link",
                Some(Link::ClosedReal) => "closed_real_channel",
                Some(Link::Recoverable) => "recoverable_fault",
                Some(Link::Healthy) => "healthy",
            };
            out.cells.insert(format!("fault:{fault}:{}", if r.open { "open" } else { "cancel" }));
            if link == Some(Link::Healthy) {
                return Err(("request_failed_on_healthy_link", format!("event #{idx}: {r:?}")));
            }
            if *unrecoverable != want_unrecoverable {
                return Err(("delivery_failure_error_class_wrong", format!("event #{idx}: {r:?} on {fault}: reported unrecoverable={unrecoverable}, expected {want_unrecoverable}")));
            }
            let key = (r.instr, r.cid.clone());
            if !ambiguous(r) && orders_after.get(&key) != orders_before.get(&key) {
                return Err(("failed_request_left_in_flight_mark", format!("event #{idx}: {r:?} failed but order entry changed {:?} -> {:?}", orders_before.get(&key), orders_after.get(&key))));
            }
        }
        // (d) refused => reported refused, never delivered, no mark
        for r in &claims.refused {
            out.checks += 1;
            out.not_delivered += 1;
            out.cells.insert(format!("refused:{}", if r.open { "open" } else { "cancel" }));
            if !cid_is_refused(&ClientOrderId::new(r.cid.as_str())) {
                return Err(("request_reported_refused_that_risk_approved", format!("event #{idx}: {r:?}")));
            }
            if !claims.cmd_sent.contains(r) && delivered.iter().any(|(_, d)| d == r) {
                return Err(("refused_request_was_delivered", format!("event #{idx}: {r:?}")));
            }
            let key = (r.instr, r.cid.clone());
            if !ambiguous(r) && orders_after.get(&key) != orders_before.get(&key) {
                return Err(("refused_request_left_in_flight_mark", format!("event #{idx}: {r:?}")));
            }
        }
        // nothing with a refusal id may ever be delivered (even if unreported)
        for (e, dlv) in &delivered {
            out.checks += 1;
            if cid_is_refused(&ClientOrderId::new(dlv.cid.as_str())) && !claims.cmd_sent.contains(dlv) {
                return Err(("refused_request_was_delivered", format!("event #{idx}: {dlv:?} delivered on link {e}")));
            }
            if *e != dlv.exchange {
                return Err(("request_delivered_to_wrong_link", format!("event #{idx}: {dlv:?} arrived on link {e}")));
            }
        }
        // converse (only where the engine always includes the output): delivered => reported sent
        let unreported: Vec<&(usize, Rk)> = delivered.iter().filter(|(_, d)| !claims.sent.contains(d)).collect();
        if !unreported.is_empty() {
            // documented: when the algo step hits a fatal delivery error the engine drops the AlgoOrders output
            if claims.audit_errors > 0 && !claims.algo_output_present && !claims.command_fatal && engine.strategy.algo_calls() > algo_before {
                out.unreported_deliveries += unreported.len() as u64; // documented: algo output dropped on fatal error
                // the audit is silent about them, the statement is not: what WAS delivered (to the healthy links of
                // the same batch) is in flight from then on
                for (_, d) in &unreported {
                    if ambiguous(d) {
                        continue;
                    }
                    out.checks += 1;
                    let st = order_state(&engine, d.instr, &d.cid);
                    if d.open {
                        out.cells.insert("algo_batch_dropped_from_audit:delivered_open".into());
                        if !matches!(st, Some(ActiveOrderState::OpenInFlight(_))) {
                            return Err(("sent_open_not_shown_in_flight", format!("event #{idx}: {d:?} was delivered (algo batch that also hit a dead link; its output is dropped from the audit) but order state is {st:?}")));
                        }
                    } else if orders_before.contains_key(&(d.instr, d.cid.clone())) {
                        out.cells.insert("algo_batch_dropped_from_audit:delivered_cancel_of_tracked_order".into());
                        if !matches!(st, Some(ActiveOrderState::CancelInFlight(_))) {
                            return Err(("sent_cancel_of_tracked_order_not_shown_in_flight", format!("event #{idx}: {d:?} was delivered (algo batch that also hit a dead link; its output is dropped from the audit), order was {:?}, now {st:?}", orders_before.get(&(d.instr, d.cid.clone())))));
                        }
                    }
                }
            } else {
                return Err(("request_delivered_but_not_reported_sent", format!("event #{idx} {ev:?}: {unreported:?}")));
            }
        }
        // every order entry that changed must be explained by a request delivered for it in this event or by
        // an exchange report of this event that names it. In particular an order shown as in flight STAYS
        // in flight ("from then on") across market items, balances, fills, toggles, commands about other
        // orders and full account snapshots that do not list it.
        {
            out.checks += 1;
            for key in orders_before.keys().chain(orders_after.keys()).collect::<BTreeSet<_>>() {
                if orders_before.get(key) != orders_after.get(key) && !delivered.iter().any(|(_, d)| d.instr == key.0 && d.cid == key.1) && !event_keys.contains(key) {
                    let was_in_flight = orders_before.get(key).map(|s| s.contains("InFlight")).unwrap_or(false);
                    let sig = if was_in_flight { "in_flight_mark_lost_without_exchange_report" } else { "order_marked_in_flight_without_delivery" };
                    return Err((sig, format!("event #{idx} {ev:?}: entry {key:?} changed {:?} -> {:?} though nothing was delivered for it and the event does not report on it", orders_before.get(key), orders_after.get(key))));
                }
            }
            if matches!(ev, Ev::Snapshot { .. }) && orders_before.iter().any(|(k, s)| s.contains("InFlight") && !event_keys.contains(k)) {
                out.cells.insert("account_snapshot_not_listing_an_in_flight_order".into());
            }
        }

        // (e) trading-state gate
        let algo_calls = engine.strategy.algo_calls() - algo_before;
        let enabled_after = engine.state.trading == TradingState::Enabled;
        out.checks += 1;
        let command_fatal = claims.command_fatal;
        let expect_algo = enabled_after && !matches!(ev, Ev::Shutdown) && !command_fatal;
        if expect_algo != (algo_calls == 1) || algo_calls > 1 {
            let sig = if !enabled_after { "strategy_generated_orders_while_trading_disabled" } else { "strategy_not_consulted_while_trading_enabled" };
            return Err((sig, format!("event #{idx} {ev:?}: trading {trading_before:?} -> {:?}, algo calls during this event = {algo_calls}", engine.state.trading)));
        }
        if !enabled_after {
            out.cells.insert("event_processed_while_disabled".into());
            if is_command {
                out.cells.insert("command_while_disabled".into());
            }
            if claims.algo_output_present {
                return Err(("strategy_generated_orders_while_trading_disabled", format!("event #{idx}: algo output in audit while disabled")));
            }
        }
        // every request of the strategy batch consumed by this event is accounted for in the audit:
        // refused ones as refused, the others as sent or failed (unless the documented drop of the
        // AlgoOrders output on a fatal delivery error applies)
        if algo_calls == 1 {
            if let Some(batch) = &pending_batch {
                let dropped = claims.audit_errors > 0 && !claims.algo_output_present;
                for r in batch {
                    out.checks += 1;
                    let refused_by_script = cid_is_refused(&ClientOrderId::new(r.cid.as_str()));
                    if refused_by_script {
                        if !dropped && !claims.refused.contains(r) {
                            return Err(("refused_request_not_reported_as_refused", format!("event #{idx} {ev:?}: {r:?} was refused by the risk manager but the audit reports refused={:?}", claims.refused)));
                        }
                    } else if !dropped && !claims.sent.contains(r) && !claims.errors.iter().any(|(x, _)| x == r) {
                        return Err(("approved_request_neither_sent_nor_failed_in_audit", format!("event #{idx} {ev:?}: {r:?}")));
                    }
                }
            }
        }
        if let Ev::Trading(on) = ev {
            if *on && trading_before == TradingState::Disabled {
                out.cells.insert("reenable_generates_on_that_event".into());
                if let Some(batch) = &pending_batch {
                    // the queued batch must be consumed by this very event
                    let handled: BTreeSet<&Rk> = claims.sent.iter().chain(claims.refused.iter()).chain(claims.errors.iter().map(|(r, _)| r)).collect();
                    if claims.audit_errors == 0 && !batch.iter().all(|r| handled.contains(r)) {
                        return Err(("reenabling_did_not_resume_generation_on_that_event", format!("event #{idx}: queued batch {batch:?} not handled; audit handled {handled:?}")));
                    }
                }
            }
        }
        // (f) an explicit send command is actioned even while disabled: every request on a healthy link goes out
        for r in &requested_by_command {
            out.checks += 1;
            if links.mode.get(r.exchange) == Some(&Link::Healthy) && !delivered.iter().any(|(_, d)| d == r) {
                return Err(("command_request_on_healthy_link_not_delivered", format!("event #{idx} {ev:?}: {r:?}")));
            }
            let reported = claims.sent.contains(r) || claims.errors.iter().any(|(x, _)| x == r);
            if !reported {
                return Err(("command_request_not_reported", format!("event #{idx}: {r:?} neither sent nor failed in the audit")));
            }
        }
        // (g) state keeps updating (balance item reflected)
        if let Ev::Balance { exchange, .. } = ev {
            out.checks += 1;
            let asset = ins.assets().iter().find(|a| a.value.exchange == exch_id[*exchange]).unwrap().key;
            let held = engine.state.assets.asset_index(&asset).balance.map(|b| b.value.total);
            if held != Some(Decimal::from(bal_t)) {
                return Err(("state_not_updated_from_account_event", format!("event #{idx}: trading {:?}, balance held {held:?} expected {bal_t}", engine.state.trading)));
            }
        }
        // terminal iff fatal
        out.checks += 1;
        let any_unrecoverable = claims.errors.iter().any(|(_, u)| *u) || claims.audit_errors > 0;
        let should_be_terminal = matches!(ev, Ev::Shutdown) || any_unrecoverable;
        if claims.errors.iter().any(|(_, u)| *u) && claims.audit_errors == 0 {
            return Err(("fatal_delivery_failure_not_reported_as_engine_error", format!("event #{idx} {ev:?}: errors {:?} but audit.errors empty", claims.errors)));
        }
        if terminal != should_be_terminal {
            return Err(("audit_terminal_flag_wrong", format!("event #{idx} {ev:?}: terminal={terminal} expected {should_be_terminal}")));
        }
        if claims.errors.iter().any(|(_, u)| !*u) && !terminal {
            out.cells.insert("engine_continues_after_recoverable_error".into());
        }
        if terminal {
            out.cells.insert(if matches!(ev, Ev::Shutdown) { "terminal:shutdown".into() } else { "terminal:fatal_error".into() });
            break;
        }
    }
    Ok(out)
}

// ------------------------------------------------------------------------------------------------

fn gen_case(rng: &mut Rng, pattern: u64) -> Case {
    let kinds = [Link::Healthy, Link::Closed, Link::Recoverable, Link::Missing, Link::ClosedReal];
    // pattern enumerates {healthy, closed, recoverable, missing}^3; every 7th case swaps a closed for the real channel
    let mut links = [Link::Healthy; N_EX];
    let mut p = pattern;
    for l in links.iter_mut() {
        *l = kinds[(p % 4) as usize];
        p /= 4;
    }
    if rng.chance(1, 7) {
        for l in links.iter_mut() {
            if *l == Link::Closed {
                *l = kinds[4];
            }
        }
    }
    // bias: most cases should have at least one healthy link
    if rng.chance(1, 2) {
        links[rng.usize_below(N_EX)] = Link::Healthy;
    }
    let out_of_range = (pattern / 64) % 2 == 1;
    let n = rng.range_u(5, 80);
    let mut events = Vec::with_capacity(n + 1);
    let mut next_cid = 0u32;
    let mut known: Vec<(usize, String)> = vec![]; // (instr, cid) of opens requested so far
    let mut clock = 1000i64;
    let exch_of = [0usize, 0, 1, 1, 2, 2];
    let mut mk_req = |rng: &mut Rng, known: &mut Vec<(usize, String)>, open: bool| -> ReqSpec {
        let instr = rng.usize_below(N_INSTR);
        let mut exchange = exch_of[instr];
        if out_of_range && rng.chance(1, 6) {
            exchange = N_EX + rng.usize_below(3);
        }
        if open {
            next_cid += 1;
            let mut cid = format!("c{next_cid}{}", if rng.chance(1, 5) { "!r" } else { "" });
            // client order ids only have to be unique per instrument: sometimes a new order takes an id that is
            // already in use on ANOTHER instrument (never one used on this instrument before)
            if rng.chance(1, 6) {
                let elsewhere: Vec<&(usize, String)> = known.iter().filter(|(i, c)| *i != instr && !known.iter().any(|(j, d)| *j == instr && d == c)).collect();
                if !elsewhere.is_empty() {
                    cid = elsewhere[rng.usize_below(elsewhere.len())].1.clone();
                }
            }
            known.push((instr, cid.clone()));
            ReqSpec { open, exchange, instr, cid }
        } else if !known.is_empty() && rng.chance(4, 5) {
            let (i, c) = known[rng.usize_below(known.len())].clone();
            ReqSpec { open, exchange: if exchange >= N_EX { exchange } else { exch_of[i] }, instr: i, cid: c }
        } else {
            next_cid += 1;
            ReqSpec { open, exchange, instr, cid: format!("u{next_cid}{}", if rng.chance(1, 5) { "!r" } else { "" }) }
        }
    };
    for _ in 0..n {
        clock += rng.range(1, 500);
        let ev = match rng.below(100) {
            0..=14 => Ev::Market { instr: rng.usize_below(N_INSTR), t: clock, price: rng.range(50, 150) },
            15..=22 => Ev::Balance { exchange: rng.usize_below(N_EX), t: clock },
            23..=32 if !known.is_empty() => {
                let (i, c) = known[rng.usize_below(known.len())].clone();
                Ev::ConfirmOpen { instr: i, cid: c, t: clock }
            }
            33..=38 => Ev::Fill { instr: rng.usize_below(N_INSTR), buy: rng.bool(), t: clock },
            39..=42 => {
                let exchange = rng.usize_below(N_EX);
                let mine: Vec<(usize, String)> = known.iter().filter(|(i, _)| exch_of[*i] == exchange).cloned().collect();
                let k = if mine.is_empty() { 0 } else { rng.range_u(0, 2.min(mine.len())) };
                let mut listed: Vec<(usize, String)> = (0..k).map(|_| mine[rng.usize_below(mine.len())].clone()).collect();
                listed.sort();
                listed.dedup();
                Ev::Snapshot { exchange, listed, t: clock }
            }
            43..=48 => Ev::Trading(rng.chance(3, 5)),
            49..=68 => {
                let k = rng.range_u(1, 4);
                Ev::QueueAlgo((0..k).map(|_| { let open = rng.chance(3, 5); mk_req(rng, &mut known, open) }).collect())
            }
            69..=76 => {
                let k = rng.range_u(1, 3);
                Ev::CmdOpen((0..k).map(|_| mk_req(rng, &mut known, true)).map(|mut r| { r.cid = r.cid.replace("!r", ""); r }).collect())
            }
            77..=83 => {
                let k = rng.range_u(1, 3);
                Ev::CmdCancel((0..k).map(|_| mk_req(rng, &mut known, false)).collect())
            }
            84..=88 => Ev::CmdCancelAll,
            89..=92 => Ev::CmdCloseAll,
            93..=94 => Ev::Disconnect { exchange: rng.usize_below(N_EX), account: rng.bool(), halt: rng.chance(2, 3) },
            95..=97 => Ev::SetLink { exchange: rng.usize_below(N_EX), mode: *rng.pick(&[Link::Healthy, Link::Healthy, Link::Recoverable, Link::Closed]) },
            _ => Ev::Market { instr: rng.usize_below(N_INSTR), t: clock, price: rng.range(50, 150) },
        };
        // keep `known` consistent: ids queued in CmdOpen lost their refusal suffix
        if let Ev::CmdOpen(reqs) = &ev {
            for r in reqs {
                if let Some(k) = known.iter_mut().find(|(i, c)| *i == r.instr && c.replace("!r", "") == r.cid) {
                    k.1 = r.cid.clone();
                }
            }
        }
        events.push(ev);
    }
    events.push(Ev::Shutdown);
    Case { links, start_enabled: rng.bool(), events }
}

// ------------------------------------------------------------------------------------------------
// builder stage: links assembled by the library's own ExecutionBuilder (see vharness::builder_stage)

use vharness::builder_stage::{self, BuilderCase, Claim};

fn judge_builder(case: &BuilderCase) -> Result<(u64, u64, BTreeSet<String>), V> {
    let obs = builder_stage::run_builder_case(case).map_err(|e| if e.starts_with("PANIC") { ("panic_in_engine_process", e) } else { ("HARNESS_builder_stage", e) })?;
    let mut cells = BTreeSet::new();
    let (mut events, mut checks) = (0u64, 0u64);
    if let Some((x, call)) = obs.stray_calls.first() {
        return Err(("request_delivered_but_not_reported_sent", format!("client of {:?} received a call matching no request: {call:?}", builder_stage::LIVE[*x])));
    }
    for o in &obs.reqs {
        events += 1 + o.deliveries.len() as u64 + o.responses.len() as u64;
        checks += 4;
        let what = format!("{} {:?} for {:?} instrument #{} ({}) [exchange index {}, {}]", if o.req.open { "open" } else { "cancel" }, o.req.cid, o.exchange, o.instrument_index, o.name_exchange, o.exchange_index, if o.linked { "linked" } else { "NO link" });
        // nothing may ever arrive at a client of another exchange
        if let Some((x, call)) = o.deliveries.iter().find(|(x, c)| *x != o.slot || c.exchange != o.exchange) {
            return Err(("request_delivered_to_wrong_link", format!("{what}: arrived at the client of {:?} addressed to {:?}", builder_stage::LIVE[*x], call.exchange)));
        }
        match (&o.claim, o.linked) {
            (Claim::Sent, _) => {
                if o.deliveries.len() != 1 {
                    return Err(("request_reported_sent_but_not_delivered_exactly_once_to_its_link", format!("{what}: reported sent, delivered {} times (links built by ExecutionBuilder, {} of {} exchanges linked)", o.deliveries.len(), obs.n_linked, obs.n_exchanges)));
                }
                let want = if o.req.open { "OpenInFlight" } else { "CancelInFlight" };
                if o.state_after.as_deref() != Some(want) {
                    return Err((if o.req.open { "sent_open_not_shown_in_flight" } else { "sent_cancel_of_tracked_order_not_shown_in_flight" }, format!("{what}: reported sent, order entry is {:?}", o.state_after)));
                }
                cells.insert("builder:sent_and_delivered_to_own_client".to_string());
                if obs.gap_before_linked {
                    cells.insert("builder:linked_exchange_after_an_unlinked_one".to_string());
                }
            }
            (Claim::Failed { unrecoverable }, linked) => {
                if linked {
                    return Err(("request_failed_on_healthy_link", format!("{what}: reported failed (unrecoverable={unrecoverable})")));
                }
                if !unrecoverable {
                    return Err(("delivery_failure_error_class_wrong", format!("{what}: reported recoverable, expected fatal (the exchange has no link)")));
                }
                if !o.deliveries.is_empty() {
                    return Err(("failed_request_was_delivered", format!("{what}: reported failed but delivered {:?}", o.deliveries)));
                }
                if o.req.open && !o.marked_on.is_empty() {
                    return Err(("failed_request_left_in_flight_mark", format!("{what}: failed but the id is tracked on instruments {:?}", o.marked_on)));
                }
                if !o.audit_terminal {
                    return Err(("audit_terminal_flag_wrong", format!("{what}: fatal delivery error but the audit is not terminal")));
                }
                cells.insert("builder:request_for_exchange_without_link_failed_fatally".to_string());
            }
            (Claim::NotReported, _) => {
                return Err(("command_request_not_reported", format!("{what}: neither sent nor failed in the audit")));
            }
        }
    }
    Ok((events, checks, cells))
}

fn execute_builder(case: &BuilderCase, report: &mut Report) {
    let h = fnv1a(format!("{case:?}").as_bytes());
    match judge_builder(case) {
        Ok((events, checks, cells)) => {
            report.events_observed += events;
            report.oracle_checks += checks;
            let nontrivial = cells.contains("builder:sent_and_delivered_to_own_client") && cells.contains("builder:request_for_exchange_without_link_failed_fatally");
            for c in &cells {
                report.cover(c);
            }
            report.case(h, nontrivial);
        }
        Err((sig, detail)) if sig.starts_with("HARNESS_") => report.harness_errors.push(format!("{sig}: {detail}")),
        Err((sig, detail)) => {
            report.case(h, true);
            let small = shrink(&case.requests, |cand| {
                let c = BuilderCase { requests: cand.to_vec(), ..case.clone() };
                matches!(judge_builder(&c), Err((s, _)) if s == sig)
            });
            let c = BuilderCase { requests: small, ..case.clone() };
            let detail = match judge_builder(&c) {
                Err((_, dd)) => dd,
                Ok(_) => detail,
            };
            report.violation(sig, detail, json!({"builder_case": c}));
        }
    }
}

fn execute(case: &Case, report: &mut Report) {
    let h = fnv1a(format!("{case:?}").as_bytes());
    match run(case) {
        Ok(out) => {
            report.events_observed += out.steps + out.delivered;
            report.oracle_checks += out.checks;
            for c in &out.cells {
                report.cover(c);
            }
            report.info("deliveries_not_reported_because_algo_output_dropped_on_fatal_error", out.unreported_deliveries);
            let nontrivial = case.events.len() >= 5 && out.delivered >= 1 && out.not_delivered >= 1;
            report.case(h, nontrivial);
            if nontrivial && case.events.len() <= 9 {
                report.sample(|| json!({"case": case}));
            }
        }
        Err((sig, detail)) => {
            report.case(h, true);
            let small = shrink(&case.events, |cand| {
                let c = Case { events: cand.to_vec(), ..case.clone() };
                matches!(run(&c), Err((s, _)) if s == sig)
            });
            let c = Case { events: small, ..case.clone() };
            let detail = match run(&c) {
                Err((_, dd)) => dd,
                Ok(_) => detail,
            };
            report.violation(sig, detail, json!({"case": c}));
        }
    }
}

fn main() {
    let args = Args::parse();
    if let Some(path) = &args.replay {
        let v: Value = serde_json::from_str(&std::fs::read_to_string(path).expect("read replay")).expect("json");
        let mut report = Report::new("C03");
        if !v["history"]["builder_case"].is_null() {
            let case: BuilderCase = serde_json::from_value(v["history"]["builder_case"].clone()).expect("builder case");
            execute_builder(&case, &mut report);
        } else {
            let case: Case = serde_json::from_value(v["history"]["case"].clone()).expect("case");
            execute(&case, &mut report);
        }
        println!("{}", serde_json::to_string_pretty(&report.to_json()).unwrap());
        std::process::exit(if report.violation_count > 0 { 1 } else { 0 });
    }
    let n_cases = match args.tier.as_str() {
        "miri" => 8,
        "tsan" => 128,
        _ => args.size(6_000, 500_000),
    };
    let small = args.tier == "miri";
    let n_builder = match args.tier.as_str() {
        "miri" => 1,
        "tsan" => 16,
        _ => args.size(400, 20_000),
    };
    let mut report = run_workers(&args, "C03", |w, n, rng, report| {
        let mine = Args::share(n_cases, w, n);
        for i in 0..mine {
            // the 128 fault patterns ({4 link kinds}^3 x {in-range, out-of-range}) are cycled exhaustively
            let pattern = (i * n as u64 + w as u64) % 128;
            let case = gen_case(rng, pattern);
            execute(&case, report);
        }
        // builder stage (links assembled by ExecutionBuilder, answers through the real managers)
        for _ in 0..Args::share(n_builder, w, n) {
            let case = builder_stage::gen_builder_case(rng, small);
            execute_builder(&case, report);
        }
    });
    if args.tier != "miri" {
        report.exhaustive_blocks.push("fault patterns {healthy, closed, recoverable, missing}^3 x {in-range, unknown exchange index} are enumerated exhaustively across cases (histories are random)".into());
        for kind in ["open", "cancel"] {
            for fault in ["unknown_exchange_index", "missing_link", "closed_link", "closed_real_channel", "recoverable_fault"] {
                report.require(&format!("fault:{fault}:{kind}"));
            }
            for src in ["command", "algo"] {
                report.require(&format!("sent:{kind}:{src}"));
            }
            report.require(&format!("refused:{kind}"));
        }
        for c in [
            "cancel_of_tracked_order_sent",
            "close_all_with_a_close_strategy_that_also_cancels",
            "on_disconnect_hook_disables_trading_while_enabled",
            "algo_batch_dropped_from_audit:delivered_open",
            "algo_batch_dropped_from_audit:delivered_cancel_of_tracked_order",
            "account_snapshot_not_listing_an_in_flight_order",
            "builder:sent_and_delivered_to_own_client",
            "builder:linked_exchange_after_an_unlinked_one",
            "builder:request_for_exchange_without_link_failed_fatally",
            "event_processed_while_disabled",
            "command_while_disabled",
            "reenable_generates_on_that_event",
            "engine_continues_after_recoverable_error",
            "terminal:shutdown",
            "terminal:fatal_error",
        ] {
            report.require(c);
        }
    }
    std::process::exit(report.finish(args.out.as_deref()));
}
