//! C15 — unrealised PnL of an open position tracks the instrument's latest price.
//!
//! A real `Engine` (DefaultInstrumentMarketData, 3 instruments on 2 exchanges) processes
//! interleavings of fills (open / increase / reduce / close / flip) and market events (public
//! trades, top-of-book with both sides or one side, stale and duplicate timestamps). After EVERY
//! event the monitor reads, through public fields only, the position and
//! `InstrumentDataState::price()` and decides:
//!   R1 right after a fill that leaves a position open: pnl_unrealised == estimate(fill price)
//!   R2 right after a market item for an instrument with an open position for which `price()` is
//!      Some(p): pnl_unrealised == estimate(p)   (documented estimate:
//!      (p - entry) * qty * (+1 long / -1 short) - (qty / qty_max) * fees_enter)
//!   R3 a market item that yields no price leaves the estimate untouched
//!   R4 events for one instrument never change another instrument's estimate
//! A stale market item (ignored by the data state) is judged by R2 against the instrument's
//! *current* price, or accepted if the estimate is unchanged (DESIGN C15).
//!
//! distinct non-trivial rule: >= 3 events with at least one fill and one priced market event on an
//! instrument while its position is open; distinct = hash of the event list.

use barter::{
    engine::{
        Processor,
        state::{instrument::data::InstrumentDataState, position::Position, trading::TradingState},
    },
};
use barter_instrument::{Side, asset::QuoteAsset, exchange::ExchangeId, index::IndexedInstruments, instrument::InstrumentIndex};
use rust_decimal::Decimal;
use serde::{Deserialize, Serialize};
use serde_json::{Value, json};
use std::str::FromStr;
use vharness::{Args, Report, Rng, catch, fixtures, fnv1a, run_workers, shrink};

#[derive(Debug, Clone, Serialize, Deserialize, PartialEq)]
enum Ev {
    Fill { i: usize, buy: bool, p: String, q: String, fee: String, t: i64 },
    Trade { i: usize, p: f64, t: i64 },
    L1 { i: usize, bid: Option<(String, String)>, ask: Option<(String, String)>, t: i64 },
    /// the market-data (or account) stream of instrument `i`'s exchange reports that it is reconnecting; market data may
    /// keep arriving while the account stream is quiet: the estimate follows the price all the same
    Link { i: usize, account: bool },
}

impl Ev {
    fn instr(&self) -> usize {
        match self {
            Ev::Fill { i, .. } | Ev::Trade { i, .. } | Ev::L1 { i, .. } | Ev::Link { i, .. } => *i,
        }
    }
}

fn d(s: &str) -> Decimal {
    Decimal::from_str(s).unwrap()
}

const EXCH: [ExchangeId; 3] = [ExchangeId::BinanceSpot, ExchangeId::Okx, ExchangeId::BinanceSpot];

fn instruments() -> IndexedInstruments {
    // sorted order: binance btc_usdt (0), binance eth_usdt (1), okx btc_usdt perpetual (2). The Okx instrument is a
    // DERIVATIVE whose contract size is not 1 (0.01 btc per contract): prices and quantities of its fills and of its
    // market data are in the same units, the estimate is the same expression
    let mut okx = fixtures::perp(ExchangeId::Okx, "btc", "usdt", "usdt");
    if let barter_instrument::instrument::kind::InstrumentKind::Perpetual(contract) = &mut okx.kind {
        contract.contract_size = Decimal::new(1, 2);
    }
    IndexedInstruments::new([fixtures::spot(ExchangeId::BinanceSpot, "btc", "usdt"), okx, fixtures::spot(ExchangeId::BinanceSpot, "eth", "usdt")])
}

fn estimate(pos: &Position<QuoteAsset, InstrumentIndex>, price: Decimal) -> Decimal {
    let dir = if pos.side == Side::Buy { Decimal::ONE } else { -Decimal::ONE };
    (price - pos.price_entry_average) * pos.quantity_abs * dir - (pos.quantity_abs / pos.quantity_abs_max) * pos.fees_enter.fees
}

fn tol(pos: &Position<QuoteAsset, InstrumentIndex>, price: Decimal) -> Decimal {
    Decimal::new(1, 18) * (Decimal::ONE + (price.abs() + pos.price_entry_average.abs()) * pos.quantity_abs + pos.fees_enter.fees.abs())
}

struct Outcome {
    steps: u64,
    checks: u64,
    cells: Vec<&'static str>,
    nontrivial: bool,
    /// rule violations after which monitoring of the history continues (so that one recorded
    /// finding does not blind the monitor to everything that follows): (signature, detail, event)
    soft: Vec<(&'static str, String, Ev)>,
}

type V = (&'static str, String);

fn run(events: &[Ev]) -> Result<Outcome, V> {
    let ins = instruments();
    let exch_idx: Vec<usize> = ins.instruments().iter().map(|i| i.value.exchange.key.index()).collect();
    let exch_id: Vec<ExchangeId> = ins.instruments().iter().map(|i| i.value.exchange.value).collect();
    debug_assert_eq!(exch_id.len(), EXCH.len());
    let (mut engine, _txs) = fixtures::engine_with_rec_txs(&ins, TradingState::Disabled);
    let mut out = Outcome { steps: 0, checks: 0, cells: vec![], nontrivial: false, soft: vec![] };
    let mut had_fill = [false; 3];
    let mut tid = 0u32;
    // model of the account links (by exchange index): down from a reconnecting notice until the next account event
    let mut account_down = [false; 3];

    for (idx, ev) in events.iter().enumerate() {
        let i = ev.instr();
        let before: Vec<Option<Decimal>> = (0..3)
            .map(|k| engine.state.instruments.instrument_index(&InstrumentIndex(k)).position.current.as_ref().map(|p| p.pnl_unrealised))
            .collect();
        let engine_event = match ev {
            Ev::Fill { i, buy, p, q, fee, t } => {
                tid += 1;
                fixtures::ev_trade(exch_idx[*i], *i, &format!("t{tid}"), *t, if *buy { Side::Buy } else { Side::Sell }, d(p), d(q), d(fee))
            }
            Ev::Trade { i, p, t } => fixtures::ev_market_trade(exch_id[*i], *i, *t, *p),
            Ev::L1 { i, bid, ask, t } => fixtures::ev_market_l1(
                exch_id[*i],
                *i,
                *t,
                bid.as_ref().map(|(p, a)| (d(p), d(a))),
                ask.as_ref().map(|(p, a)| (d(p), d(a))),
            ),
            Ev::Link { i, account } => if *account { fixtures::ev_account_reconnecting(exch_id[*i]) } else { fixtures::ev_market_reconnecting(exch_id[*i]) },
        };
        match ev {
            Ev::Link { i, account: true } => account_down[exch_idx[*i]] = true,
            Ev::Fill { i, .. } => account_down[exch_idx[*i]] = false,
            _ => {}
        }
        catch(|| engine.process(engine_event)).map_err(|m| ("panic_in_engine_process", format!("event #{idx} {ev:?}: {m}")))?;
        out.steps += 1;

        let st = engine.state.instruments.instrument_index(&InstrumentIndex(i));
        let price_now = st.data.price();
        match ev {
            Ev::Fill { p, .. } => {
                had_fill[i] = true;
                if let Some(pos) = &st.position.current {
                    out.checks += 1;
                    out.cells.push("fill_leaves_position_open");
                    if pos.fees_enter.fees.is_sign_negative() && !pos.fees_enter.fees.is_zero() {
                        out.cells.push("position_with_negative_entry_fees_(rebates)");
                    }
                    let want = estimate(pos, d(p));
                    if (pos.pnl_unrealised - want).abs() > tol(pos, d(p)) {
                        // a fill that OPENS a position (first fill or the remainder of a flip): the
                        // position is built by `Position::from(&Trade)`
                        let opened = pos.trades.len() == 1;
                        let sig = if opened && pos.pnl_unrealised.is_zero() {
                            "opening_fill_unrealised_pnl_omits_exit_fee_estimate"
                        } else {
                            "unrealised_pnl_after_fill_not_estimate_at_fill_price"
                        };
                        let detail = format!("event #{idx} {ev:?}: pnl_unrealised={} expected {want}", pos.pnl_unrealised);
                        if sig == "opening_fill_unrealised_pnl_omits_exit_fee_estimate" {
                            if out.soft.is_empty() {
                                out.soft.push((sig, detail, ev.clone()));
                            }
                        } else {
                            return Err((sig, detail));
                        }
                    }
                } else {
                    out.cells.push("fill_closes_position");
                }
            }
            Ev::Trade { .. } | Ev::L1 { .. } => {
                if let Some(pos) = &st.position.current {
                    out.checks += 1;
                    match price_now {
                        Some(price) => {
                            let want = estimate(pos, price);
                            let ok_now = (pos.pnl_unrealised - want).abs() <= tol(pos, price);
                            // was this item applied by the data state (i.e. is it "newer market data")?
                            let applied = match ev {
                                Ev::Trade { t, .. } => st.data.last_traded_price.as_ref().map(|x| fixtures::ms_of(x.time)) == Some(*t),
                                Ev::L1 { t, .. } => fixtures::ms_of(st.data.l1.last_update_time) == *t,
                                _ => false,
                            };
                            out.cells.push(if applied { "priced_market_item_with_open_position" } else { "stale_market_item_with_open_position" });
                            if matches!(ev, Ev::L1 { bid: Some(_), ask: Some(_), .. }) && applied {
                                out.cells.push("l1_both_sides_priced");
                            }
                            if matches!(ev, Ev::Trade { .. }) && applied {
                                out.cells.push("public_trade_priced");
                            }
                            if had_fill[i] && applied {
                                out.nontrivial = true;
                            }
                            if applied && account_down[exch_idx[i]] {
                                out.cells.push("priced_market_item_with_open_position_while_the_account_link_is_reconnecting");
                            }
                            let unchanged = Some(pos.pnl_unrealised) == before[i];
                            if !ok_now && !(unchanged && !applied) {
                                return Err((
                                    "unrealised_pnl_not_reevaluated_at_current_price",
                                    format!(
                                        "event #{idx} {ev:?}: instrument {i} price()={price} position=({:?} qty {} entry {} qmax {} fees_enter {}) pnl_unrealised={} expected {want}",
                                        pos.side, pos.quantity_abs, pos.price_entry_average, pos.quantity_abs_max, pos.fees_enter.fees, pos.pnl_unrealised
                                    ),
                                ));
                            }
                        }
                        None => {
                            out.cells.push("market_item_without_price");
                            if Some(pos.pnl_unrealised) != before[i] {
                                return Err(("unrealised_pnl_changed_without_a_price", format!("event #{idx} {ev:?}: {:?} -> {}", before[i], pos.pnl_unrealised)));
                            }
                        }
                    }
                } else {
                    out.cells.push("market_item_without_position");
                }
            }
            Ev::Link { account, .. } => {
                // a connectivity notice carries no price: no estimate moves
                out.checks += 1;
                let now = st.position.current.as_ref().map(|p| p.pnl_unrealised);
                if now != before[i] {
                    return Err(("unrealised_pnl_changed_without_a_price", format!("event #{idx} {ev:?}: {:?} -> {now:?}", before[i])));
                }
                if st.position.current.is_some() {
                    out.cells.push(if *account { "account_link_reconnecting_with_open_position" } else { "market_link_reconnecting_with_open_position" });
                }
            }
        }
        // R4 isolation
        out.checks += 1;
        for k in 0..3 {
            if k == i {
                continue;
            }
            let now = engine.state.instruments.instrument_index(&InstrumentIndex(k)).position.current.as_ref().map(|p| p.pnl_unrealised);
            if now != before[k] {
                return Err(("event_changed_another_instruments_unrealised_pnl", format!("event #{idx} {ev:?} changed instrument {k}: {:?} -> {now:?}", before[k])));
            }
        }
        // LIFE CYCLE: now and then the state of the event's instrument and the connectivity state are persisted and the history carries on with the restored copy
        if (idx * 5 + events.len()) % 9 == 4 {
            out.checks += 1;
            let restored = fixtures::persist_and_restore("instrument state", engine.state.instruments.instrument_index_mut(&InstrumentIndex(i)))
                .and_then(|a| fixtures::persist_and_restore("connectivity state", &mut engine.state.connectivity).map(|b| a && b));
            match restored {
                Ok(true) => out.cells.push("lifecycle:engine_state_persisted_and_restored"),
                Ok(false) => out.cells.push("lifecycle:engine_state_does_not_serialise_to_json"),
                Err(why) => return Err(("engine_state_changed_by_persisting_and_restoring", format!("after event #{idx} {ev:?}: {why}"))),
            }
        }
    }
    Ok(out)
}

// ------------------------------------------------------------------------------------------------
// Second driver: a USER-SUPPLIED instrument data state whose processing is not idempotent (an indicator: the
// price is the running mean of every priced item it was handed). "The instrument's current price" is whatever
// `InstrumentDataState::price()` says after the event; the estimate must be evaluated at THAT price, and every
// market item is handed to the data state exactly once.

#[derive(Debug, Clone, Default, PartialEq)]
struct MeanPrice {
    sum: Decimal,
    n: u64,
    /// every call of `process` with a market item, priced or not
    deliveries: u64,
}

impl InstrumentDataState for MeanPrice {
    type MarketEventKind = barter_data::event::DataKind;
    fn price(&self) -> Option<Decimal> {
        (self.n > 0).then(|| self.sum / Decimal::from(self.n))
    }
}
impl Processor<&barter_data::event::MarketEvent<InstrumentIndex, barter_data::event::DataKind>> for MeanPrice {
    type Audit = ();
    fn process(&mut self, e: &barter_data::event::MarketEvent<InstrumentIndex, barter_data::event::DataKind>) {
        use barter_data::event::DataKind;
        self.deliveries += 1;
        let px = match &e.kind {
            DataKind::Trade(t) => Decimal::try_from(t.price).ok(),
            DataKind::OrderBookL1(l1) => l1.volume_weighed_mid_price().or_else(|| l1.best_bid.map(|l| l.price)).or_else(|| l1.best_ask.map(|l| l.price)),
            _ => None,
        };
        if let Some(px) = px {
            self.sum += px;
            self.n += 1;
        }
    }
}
impl Processor<&barter_execution::AccountEvent> for MeanPrice {
    type Audit = ();
    fn process(&mut self, _: &barter_execution::AccountEvent) {}
}
impl barter::engine::state::order::in_flight_recorder::InFlightRequestRecorder for MeanPrice {
    fn record_in_flight_cancel(&mut self, _: &barter_execution::order::request::OrderRequestCancel<barter_instrument::exchange::ExchangeIndex, InstrumentIndex>) {}
    fn record_in_flight_open(&mut self, _: &barter_execution::order::request::OrderRequestOpen<barter_instrument::exchange::ExchangeIndex, InstrumentIndex>) {}
}

type CustomState = barter::engine::state::EngineState<barter::engine::state::global::DefaultGlobalData, MeanPrice>;

fn run_custom(events: &[Ev]) -> Result<Outcome, V> {
    use barter::engine::{Engine, execution_tx::MultiExchangeTxMap, state::EngineState};
    use vharness::fixtures::{RecTx, ScriptRisk, ScriptStrategy, TestClock, TxMode};
    let ins = instruments();
    let exch_idx: Vec<usize> = ins.instruments().iter().map(|i| i.value.exchange.key.index()).collect();
    let exch_id: Vec<ExchangeId> = ins.instruments().iter().map(|i| i.value.exchange.value).collect();
    let txs: Vec<RecTx> = ins.exchanges().iter().map(|_| RecTx::new(TxMode::Healthy)).collect();
    let map = MultiExchangeTxMap::from_iter(ins.exchanges().iter().zip(txs.iter()).map(|(e, tx)| (e.value, Some(tx.clone()))));
    let state: CustomState = EngineState::builder(&ins, barter::engine::state::global::DefaultGlobalData, MeanPrice::default).time_engine_start(fixtures::t0()).trading_state(TradingState::Disabled).build();
    let mut engine = Engine::new(TestClock::new(fixtures::t0()), state, map, ScriptStrategy::<CustomState>::default(), ScriptRisk::<CustomState>::default());
    let mut out = Outcome { steps: 0, checks: 0, cells: vec!["driver:user_supplied_non_idempotent_data_state"], nontrivial: false, soft: vec![] };
    let mut market_items = [0u64; 3];
    let mut tid = 0u32;
    for (idx, ev) in events.iter().enumerate() {
        let i = ev.instr();
        let engine_event = match ev {
            Ev::Fill { i, buy, p, q, fee, t } => {
                tid += 1;
                fixtures::ev_trade(exch_idx[*i], *i, &format!("t{tid}"), *t, if *buy { Side::Buy } else { Side::Sell }, d(p), d(q), d(fee))
            }
            Ev::Trade { i, p, t } => fixtures::ev_market_trade(exch_id[*i], *i, *t, *p),
            Ev::L1 { i, bid, ask, t } => fixtures::ev_market_l1(exch_id[*i], *i, *t, bid.as_ref().map(|(p, a)| (d(p), d(a))), ask.as_ref().map(|(p, a)| (d(p), d(a)))),
            Ev::Link { i, account } => if *account { fixtures::ev_account_reconnecting(exch_id[*i]) } else { fixtures::ev_market_reconnecting(exch_id[*i]) },
        };
        if !matches!(ev, Ev::Fill { .. } | Ev::Link { .. }) {
            market_items[i] += 1;
        }
        catch(|| engine.process(engine_event)).map_err(|m| ("panic_in_engine_process", format!("custom data state, event #{idx} {ev:?}: {m}")))?;
        out.steps += 1;
        let st = engine.state.instruments.instrument_index(&InstrumentIndex(i));
        out.checks += 1;
        if st.data.deliveries != market_items[i] {
            return Err((
                "market_item_not_handed_to_the_instrument_data_state_exactly_once",
                format!("custom data state, event #{idx} {ev:?}: instrument {i} was sent {} market items, its data state processed {}", market_items[i], st.data.deliveries),
            ));
        }
        if let (Ev::Trade { .. } | Ev::L1 { .. }, Some(pos), Some(price)) = (ev, &st.position.current, st.data.price()) {
            out.checks += 1;
            let want = estimate(pos, price);
            if (pos.pnl_unrealised - want).abs() > tol(pos, price) {
                return Err((
                    "unrealised_pnl_not_reevaluated_at_current_price",
                    format!(
                        "custom data state, event #{idx} {ev:?}: instrument {i} price()={price} position=({:?} qty {} entry {} qmax {} fees_enter {}) pnl_unrealised={} expected {want}",
                        pos.side, pos.quantity_abs, pos.price_entry_average, pos.quantity_abs_max, pos.fees_enter.fees, pos.pnl_unrealised
                    ),
                ));
            }
            out.cells.push("custom_data_state:priced_market_item_with_open_position");
            out.nontrivial = true;
        }
    }
    Ok(out)
}

fn gen_events(rng: &mut Rng) -> Vec<Ev> {
    let n = rng.range_u(3, 100);
    let mut evs = Vec::with_capacity(n);
    let mut net = [Decimal::ZERO; 3];
    let base: Vec<i64> = (0..3).map(|_| rng.range(10, 50_000)).collect();
    let mut clock = 1000i64;
    for _ in 0..n {
        let i = rng.usize_below(3);
        clock += rng.range(0, 3) * 500; // equal timestamps are frequent
        let tt = if rng.chance(1, 6) { clock - rng.range(0, 3) * 700 } else { clock }; // sometimes stale
        let px = |rng: &mut Rng| Decimal::new(base[i] * 100 + rng.range(-(base[i] * 20), base[i] * 20), 2).max(Decimal::new(1, 2));
        match rng.below(10) {
            0..=3 => {
                let mut buy = rng.bool();
                let mut q = rng.decimal_log(4, 1, 4);
                if q.is_zero() {
                    q = Decimal::ONE;
                }
                if !net[i].is_zero() {
                    match rng.below(6) {
                        0 => {
                            buy = net[i].is_sign_negative();
                            q = net[i].abs();
                        }
                        1 => {
                            buy = net[i].is_sign_negative();
                            q += net[i].abs();
                        }
                        2 => {
                            buy = net[i].is_sign_negative();
                            let h = (net[i].abs() / Decimal::TWO).round_dp(4);
                            if !h.is_zero() {
                                q = h;
                            }
                        }
                        _ => {}
                    }
                }
                let p = px(rng);
                let fee = if rng.chance(1, 3) { Decimal::ZERO } else { (p * q * Decimal::new(rng.range(1, 30), 4)).round_dp(8) };
                // maker rebates: a fill may carry a NEGATIVE fee (the venue pays), so cumulative entry fees can be
                // below zero; the documented estimate is the same expression
                let fee = if rng.chance(1, 8) { -fee } else { fee };
                net[i] += if buy { q } else { -q };
                evs.push(Ev::Fill { i, buy, p: p.to_string(), q: q.normalize().to_string(), fee: fee.normalize().to_string(), t: tt.max(1) });
            }
            4..=6 => {
                let p = px(rng);
                evs.push(Ev::Trade { i, p: f64::try_from(p).unwrap(), t: tt.max(1) });
            }
            _ => {
                let mid = px(rng);
                let spread = Decimal::new(rng.range(1, 500), 2);
                let bid = (mid - spread).max(Decimal::new(1, 2));
                let ask = mid + spread;
                let lv = |rng: &mut Rng, p: Decimal| (p.to_string(), rng.decimal_log(4, 0, 3).max(Decimal::new(1, 3)).to_string());
                let (b, a) = match rng.below(5) {
                    0 => (Some(lv(rng, bid)), None),
                    1 => (None, Some(lv(rng, ask))),
                    _ => (Some(lv(rng, bid)), Some(lv(rng, ask))),
                };
                evs.push(Ev::L1 { i, bid: b, ask: a, t: tt.max(1) });
            }
        }
    }
    // connectivity notices (placed without drawing random numbers): now and then the exchange of the event just
    // generated reports its account or market stream as reconnecting; the history carries on
    let mut out = Vec::with_capacity(evs.len() + evs.len() / 8 + 1);
    for (j, ev) in evs.into_iter().enumerate() {
        let i = ev.instr();
        out.push(ev);
        if (j * 7 + n) % 11 == 4 {
            out.push(Ev::Link { i, account: j % 3 != 0 });
        }
    }
    out
}

fn execute(events: &[Ev], report: &mut Report) {
    let h = fnv1a(format!("{events:?}").as_bytes());
    // every fourth history also runs over a user-supplied, non-idempotent instrument data state
    if h % 4 == 0 {
        match run_custom(events) {
            Ok(out) => {
                report.events_observed += out.steps;
                report.oracle_checks += out.checks;
                for c in &out.cells {
                    report.cover(c);
                }
            }
            Err((sig, detail)) => {
                let small = shrink(events, |cand| matches!(run_custom(cand), Err((s, _)) if s == sig));
                let detail = match run_custom(&small) {
                    Err((_, dd)) => dd,
                    Ok(_) => detail,
                };
                report.violation(sig, detail, json!({"events": small, "custom_data_state": true}));
            }
        }
    }
    match run(events) {
        Ok(out) => {
            report.events_observed += out.steps;
            report.oracle_checks += out.checks;
            for c in &out.cells {
                report.cover(c);
            }
            report.case(h, out.nontrivial && events.len() >= 3);
            for (sig, detail, ev) in &out.soft {
                report.violation(sig, detail.clone(), json!({"events": [ev]}));
            }
            if out.nontrivial && events.len() <= 8 {
                report.sample(|| json!({"events": events}));
            }
        }
        Err((sig, detail)) => {
            report.case(h, true);
            let small = shrink(events, |cand| matches!(run(cand), Err((s, _)) if s == sig));
            let detail = match run(&small) {
                Err((_, dd)) => dd,
                Ok(_) => detail,
            };
            report.violation(sig, detail, json!({"events": small}));
        }
    }
}

fn main() {
    let args = Args::parse();
    if let Some(path) = &args.replay {
        let v: Value = serde_json::from_str(&std::fs::read_to_string(path).expect("read replay")).expect("json");
        let events: Vec<Ev> = serde_json::from_value(v["history"]["events"].clone()).expect("events");
        let mut report = Report::new("C15");
        if v["history"]["custom_data_state"].as_bool() == Some(true) {
            if let Err((sig, detail)) = run_custom(&events) {
                report.violation(sig, detail, json!({"events": events, "custom_data_state": true}));
            }
        }
        execute(&events, &mut report);
        println!("{}", serde_json::to_string_pretty(&report.to_json()).unwrap());
        std::process::exit(if report.violation_count > 0 { 1 } else { 0 });
    }
    let n_cases = match args.tier.as_str() {
        "miri" => 6,
        "tsan" => 100,
        _ => args.size(6_000, 500_000),
    };
    let mut report = run_workers(&args, "C15", |w, n, rng, report| {
        for _ in 0..Args::share(n_cases, w, n) {
            let evs = gen_events(rng);
            execute(&evs, report);
        }
    });
    if args.tier != "miri" {
        for c in [
            "fill_leaves_position_open",
            "driver:user_supplied_non_idempotent_data_state",
            "custom_data_state:priced_market_item_with_open_position",
            "position_with_negative_entry_fees_(rebates)",
            "fill_closes_position",
            "priced_market_item_with_open_position",
            "stale_market_item_with_open_position",
            "market_item_without_price",
            "market_item_without_position",
            "l1_both_sides_priced",
            "public_trade_priced",
            "priced_market_item_with_open_position_while_the_account_link_is_reconnecting",
            "account_link_reconnecting_with_open_position",
            "market_link_reconnecting_with_open_position",
            "lifecycle:engine_state_persisted_and_restored",
        ] {
            report.require(c);
        }
    }
    std::process::exit(report.finish(args.out.as_deref()));
}
