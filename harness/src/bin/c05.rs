//! C05 — the local L2 order book equals a price->amount map after any event sequence.
//!
//! Driver 1 (sequential): sequences of `OrderBookEvent::{Snapshot,Update}` are applied to a real
//! `OrderBook` with the real `OrderBook::update`. Events are built with `OrderBook::new` from
//! UNSORTED level lists (duplicate prices inside one update, zero amounts, deletes of absent
//! levels, inserts at front/middle/back, prices that differ only in scale). The oracle is one
//! `BTreeMap<Decimal, Decimal>` per side to which the levels are applied in the order the
//! CONSTRUCTED event carries them (read back through `.bids().levels()` / `.asks().levels()`
//! before the event is handed to `update`; `OrderBook::new` sorts unstably, so the constructed
//! event — the thing delivered at the boundary — defines the order of duplicates): amount zero
//! deletes, anything else sets, deleting an absent level is a no-op. After EVERY event the levels,
//! the strict ordering, `sequence`, `time_engine`, best levels, `mid_price()`,
//! `volume_weighed_mid_price()` and `snapshot(depth)` for depth <, =, > size are recomputed from
//! the map and compared.
//!
//! Driver 2 (concurrent, atomic visibility): the real `OrderBookL2Manager::run` on a multi-thread
//! tokio runtime is fed through a channel-backed stream (with `Reconnecting` items and events for a
//! non-configured instrument interleaved, both of which must be ignored) while three reader OS
//! threads keep taking `book.read().clone()`. Every event carries a unique increasing `sequence`;
//! the reference state after every prefix is precomputed; every observation must equal the
//! reference state after SOME prefix k (looked up by the observed sequence, then whole-book
//! compare), k never decreases per reader, the final book equals the full-prefix state.
//!
//! Assumption (documented bound B): Snapshot events carry distinct, non-zero levels —
//! `OrderBook::new` neither dedups nor drops zeros, so such a snapshot is outside the statement.
//!
//! Evidence rules: a sequential history is non-trivial when it has >= 3 events and performed at
//! least two different kinds of map operation (insert / replace / delete-present / delete-absent);
//! a manager run is non-trivial when >= 3 events were addressed to configured instruments.
//! distinct = FNV-1a of the debug rendering of the generated history / feed.

use barter_data::{
    books::{
        Level, OrderBook,
        manager::OrderBookL2Manager,
        map::{OrderBookMapMulti, OrderBookMapSingle},
    },
    event::MarketEvent,
    streams::consumer::MarketStreamEvent,
    subscription::book::OrderBookEvent,
};
use barter_instrument::exchange::ExchangeId;
use chrono::{DateTime, Utc};
use fnv::FnvHashMap;
use parking_lot::RwLock;
use rust_decimal::Decimal;
use serde_json::{Value, json};
use std::{
    collections::{BTreeMap, HashMap},
    str::FromStr,
    sync::{
        Arc, Barrier,
        atomic::{AtomicBool, Ordering as AtomicOrdering},
    },
    time::Duration,
};
use tokio_stream::wrappers::UnboundedReceiverStream;
use vharness::{Args, Report, Rng, catch, fixtures::t, fnv1a, run_workers, shrink};

type Lv = (Decimal, Decimal);

// ------------------------------------------------------------------------------------------------
// Event specification (generator / replay format)

#[derive(Clone, Debug, PartialEq)]
struct Ev {
    snapshot: bool,
    sequence: u64,
    time_ms: Option<i64>,
    bids: Vec<Lv>,
    asks: Vec<Lv>,
}

fn lv_json(levels: &[Lv]) -> Value {
    Value::Array(levels.iter().map(|(p, a)| json!([p.to_string(), a.to_string()])).collect())
}

fn ev_json(ev: &Ev) -> Value {
    json!({
        "kind": if ev.snapshot { "snapshot" } else { "update" },
        "sequence": ev.sequence,
        "time_ms": ev.time_ms,
        "bids": lv_json(&ev.bids),
        "asks": lv_json(&ev.asks),
    })
}

fn lv_from_json(v: &Value) -> Result<Vec<Lv>, String> {
    let arr = v.as_array().ok_or("levels must be a list")?;
    arr.iter()
        .map(|l| {
            let p = l.get(0).and_then(Value::as_str).ok_or("level must be [price_string, amount_string]")?;
            let a = l.get(1).and_then(Value::as_str).ok_or("level must be [price_string, amount_string]")?;
            Ok((Decimal::from_str(p).map_err(|e| e.to_string())?, Decimal::from_str(a).map_err(|e| e.to_string())?))
        })
        .collect()
}

fn ev_from_json(v: &Value) -> Result<Ev, String> {
    let snapshot = match v.get("kind").and_then(Value::as_str) {
        Some("snapshot") => true,
        Some("update") => false,
        other => return Err(format!("bad kind {other:?}")),
    };
    Ok(Ev {
        snapshot,
        sequence: v.get("sequence").and_then(Value::as_u64).ok_or("sequence")?,
        time_ms: v.get("time_ms").and_then(Value::as_i64),
        bids: lv_from_json(v.get("bids").ok_or("bids")?)?,
        asks: lv_from_json(v.get("asks").ok_or("asks")?)?,
    })
}

fn ev_time(ev: &Ev) -> Option<DateTime<Utc>> {
    ev.time_ms.map(t)
}

/// Build the real event through the public constructor (which sorts, unstably).
fn build(ev: &Ev) -> OrderBookEvent {
    let book = OrderBook::new(
        ev.sequence,
        ev_time(ev),
        ev.bids.iter().map(|(p, a)| Level { price: *p, amount: *a }),
        ev.asks.iter().map(|(p, a)| Level { price: *p, amount: *a }),
    );
    if ev.snapshot { OrderBookEvent::Snapshot(book) } else { OrderBookEvent::Update(book) }
}

fn levels_of(levels: &[Level]) -> Vec<Lv> {
    levels.iter().map(|l| (l.price, l.amount)).collect()
}

/// The level lists in the order the constructed event carries them.
fn carried(event: &OrderBookEvent) -> (Vec<Lv>, Vec<Lv>) {
    let book = match event {
        OrderBookEvent::Snapshot(b) | OrderBookEvent::Update(b) => b,
    };
    (levels_of(book.bids().levels()), levels_of(book.asks().levels()))
}

/// Same event, level lists rewritten to the order the constructed event carries (witness format).
fn as_carried(ev: &Ev) -> Ev {
    let (bids, asks) = carried(&build(ev));
    Ev { bids, asks, ..ev.clone() }
}

/// Domain of the statement: snapshots carry distinct non-zero levels; amounts are never negative.
fn in_domain(ev: &Ev) -> Result<(), String> {
    for (name, side) in [("bids", &ev.bids), ("asks", &ev.asks)] {
        let mut seen: BTreeMap<Decimal, ()> = BTreeMap::new();
        for (p, a) in side {
            if a.is_sign_negative() && !a.is_zero() {
                return Err(format!("negative amount {a} in {name}"));
            }
            if ev.snapshot {
                if a.is_zero() {
                    return Err(format!("snapshot {name} carries a zero amount at {p}"));
                }
                if seen.insert(*p, ()).is_some() {
                    return Err(format!("snapshot {name} carries price {p} twice"));
                }
            }
        }
    }
    Ok(())
}

// ------------------------------------------------------------------------------------------------
// Reference model

#[derive(Clone, Debug, Default)]
struct Model {
    bids: BTreeMap<Decimal, Decimal>,
    asks: BTreeMap<Decimal, Decimal>,
    sequence: u64,
    time: Option<DateTime<Utc>>,
}

#[derive(Clone, Copy, PartialEq, Eq, Debug)]
enum Op {
    InsertEmpty,
    InsertFront,
    InsertMiddle,
    InsertBack,
    Replace,
    DeletePresent,
    DeleteAbsent,
}

fn op_cell(is_bid: bool, op: Op) -> &'static str {
    match (is_bid, op) {
        (true, Op::InsertEmpty) => "bid:insert_into_empty_side",
        (true, Op::InsertFront) => "bid:insert_front",
        (true, Op::InsertMiddle) => "bid:insert_middle",
        (true, Op::InsertBack) => "bid:insert_back",
        (true, Op::Replace) => "bid:replace",
        (true, Op::DeletePresent) => "bid:delete_present",
        (true, Op::DeleteAbsent) => "bid:delete_absent",
        (false, Op::InsertEmpty) => "ask:insert_into_empty_side",
        (false, Op::InsertFront) => "ask:insert_front",
        (false, Op::InsertMiddle) => "ask:insert_middle",
        (false, Op::InsertBack) => "ask:insert_back",
        (false, Op::Replace) => "ask:replace",
        (false, Op::DeletePresent) => "ask:delete_present",
        (false, Op::DeleteAbsent) => "ask:delete_absent",
    }
}

#[derive(Default)]
struct Stats {
    events: u64,
    checks: u64,
    cells: BTreeMap<&'static str, u64>,
    info: BTreeMap<&'static str, u64>,
    op_kinds: [bool; 4],
}

impl Stats {
    fn cover(&mut self, cell: &'static str) {
        *self.cells.entry(cell).or_insert(0) += 1;
    }
    fn note(&mut self, key: &'static str) {
        *self.info.entry(key).or_insert(0) += 1;
    }
    fn flush(self, report: &mut Report) {
        report.events_observed += self.events;
        report.oracle_checks += self.checks;
        for (k, v) in self.cells {
            report.cover_n(k, v);
        }
        for (k, v) in self.info {
            report.info(k, v);
        }
    }
}

/// Apply one side's level list to the map, in list order (the semantics of the statement).
fn apply_levels(map: &mut BTreeMap<Decimal, Decimal>, levels: &[Lv], is_bid: bool, stats: &mut Stats) {
    // duplicate-in-update accounting
    let mut seen: BTreeMap<Decimal, Decimal> = BTreeMap::new();
    for (p, a) in levels {
        if let Some(prev) = seen.insert(*p, *a) {
            stats.cover(if is_bid { "bid:duplicate_price_in_update" } else { "ask:duplicate_price_in_update" });
            match (prev.is_zero(), a.is_zero()) {
                (false, true) => stats.cover("duplicate:set_then_delete"),
                (true, false) => stats.cover("duplicate:delete_then_set"),
                (false, false) => stats.cover("duplicate:set_then_set"),
                (true, true) => stats.cover("duplicate:delete_then_delete"),
            }
        }
    }
    for (p, a) in levels {
        let present = map.get_key_value(p).map(|(k, _)| *k);
        if let Some(k) = present {
            if k.scale() != p.scale() {
                stats.cover("price_differs_only_in_scale_from_held_level");
            }
        }
        let op = if a.is_zero() {
            if present.is_some() {
                map.remove(p);
                Op::DeletePresent
            } else {
                Op::DeleteAbsent
            }
        } else if present.is_some() {
            map.insert(*p, *a);
            Op::Replace
        } else {
            let op = if map.is_empty() {
                Op::InsertEmpty
            } else {
                let lo = *map.keys().next().unwrap();
                let hi = *map.keys().next_back().unwrap();
                // front = better than every held level (bids: higher, asks: lower)
                let (front, back) = if is_bid { (*p > hi, *p < lo) } else { (*p < lo, *p > hi) };
                if front {
                    Op::InsertFront
                } else if back {
                    Op::InsertBack
                } else {
                    Op::InsertMiddle
                }
            };
            map.insert(*p, *a);
            op
        };
        stats.cover(op_cell(is_bid, op));
        let kind = match op {
            Op::InsertEmpty | Op::InsertFront | Op::InsertMiddle | Op::InsertBack => 0,
            Op::Replace => 1,
            Op::DeletePresent => 2,
            Op::DeleteAbsent => 3,
        };
        stats.op_kinds[kind] = true;
    }
}

impl Model {
    fn apply(&mut self, ev: &Ev, bids: &[Lv], asks: &[Lv], stats: &mut Stats) {
        if ev.snapshot {
            if !(self.bids.is_empty() && self.asks.is_empty()) {
                stats.cover("event:snapshot_over_non_empty_book");
            }
            stats.cover("event:snapshot");
            self.bids = bids.iter().copied().collect();
            self.asks = asks.iter().copied().collect();
        } else {
            stats.cover("event:update");
            apply_levels(&mut self.bids, bids, true, stats);
            apply_levels(&mut self.asks, asks, false, stats);
        }
        self.sequence = ev.sequence;
        self.time = ev_time(ev);
    }
    fn bid_items(&self) -> Vec<Lv> {
        self.bids.iter().rev().map(|(p, a)| (*p, *a)).collect()
    }
    fn ask_items(&self) -> Vec<Lv> {
        self.asks.iter().map(|(p, a)| (*p, *a)).collect()
    }
}

// ------------------------------------------------------------------------------------------------
// Judging one observed book against the model

struct Fail {
    sig: &'static str,
    detail: String,
}

fn fail<T>(sig: &'static str, detail: String) -> Result<T, Fail> {
    Err(Fail { sig, detail })
}

fn show(levels: &[Lv]) -> String {
    let v: Vec<String> = levels.iter().map(|(p, a)| format!("{p}:{a}")).collect();
    format!("[{}]", v.join(", "))
}

fn approx_eq(obs: Decimal, exp: Decimal) -> bool {
    // 28-digit decimal division may round in the last place; anything beyond that is a difference
    let tol = Decimal::new(1, 18) * exp.abs().max(Decimal::ONE);
    (obs - exp).abs() <= tol
}

fn judge(book: &OrderBook, model: &Model, step: usize, stats: &mut Stats) -> Result<(), Fail> {
    let ob = levels_of(book.bids().levels());
    let oa = levels_of(book.asks().levels());
    let eb = model.bid_items();
    let ea = model.ask_items();

    // structural rules, independent of the map
    stats.checks += 1;
    for w in ob.windows(2) {
        if w[0].0 == w[1].0 {
            return fail("duplicate_price_level", format!("bid price {} held twice: bids={}", w[0].0, show(&ob)));
        }
        if w[0].0 < w[1].0 {
            return fail("bids_not_strictly_descending", format!("bids={} (map says {})", show(&ob), show(&eb)));
        }
    }
    for w in oa.windows(2) {
        if w[0].0 == w[1].0 {
            return fail("duplicate_price_level", format!("ask price {} held twice: asks={}", w[0].0, show(&oa)));
        }
        if w[0].0 > w[1].0 {
            return fail("asks_not_strictly_ascending", format!("asks={} (map says {})", show(&oa), show(&ea)));
        }
    }
    if let Some((p, a)) = ob.iter().chain(oa.iter()).find(|(_, a)| a.is_zero()) {
        return fail(
            "zero_amount_level_kept_in_book",
            format!("level {p}:{a} held after a delete; bids={} asks={}", show(&ob), show(&oa)),
        );
    }

    // level equality with the map
    stats.checks += 1;
    if ob != eb {
        return fail("bid_levels_differ_from_map", format!("expected {} observed {}", show(&eb), show(&ob)));
    }
    if oa != ea {
        return fail("ask_levels_differ_from_map", format!("expected {} observed {}", show(&ea), show(&oa)));
    }

    // metadata of the last applied event
    stats.checks += 1;
    if book.sequence != model.sequence {
        return fail(
            "sequence_not_of_last_event",
            format!("expected sequence {} observed {}", model.sequence, book.sequence),
        );
    }
    if book.time_engine != model.time {
        return fail(
            "time_engine_not_of_last_event",
            format!("expected time_engine {:?} observed {:?}", model.time, book.time_engine),
        );
    }

    // best levels and the derived prices, recomputed from the map
    let best_bid = model.bids.iter().next_back().map(|(p, a)| (*p, *a));
    let best_ask = model.asks.iter().next().map(|(p, a)| (*p, *a));
    stats.checks += 1;
    let obs_best_bid = book.bids().levels().first().map(|l| (l.price, l.amount));
    let obs_best_ask = book.asks().levels().first().map(|l| (l.price, l.amount));
    if obs_best_bid != best_bid {
        return fail("best_bid_differs_from_map", format!("expected {best_bid:?} observed {obs_best_bid:?}"));
    }
    if obs_best_ask != best_ask {
        return fail("best_ask_differs_from_map", format!("expected {best_ask:?} observed {obs_best_ask:?}"));
    }
    let (exp_mid, exp_vw) = match (best_bid, best_ask) {
        (Some((bp, ba)), Some((ap, aa))) => {
            stats.cover("book:two_sided");
            if bp >= ap {
                stats.note("two_sided_books_crossed");
            }
            (Some((bp + ap) / Decimal::TWO), Some((bp * aa + ap * ba) / (ba + aa)))
        }
        (Some((bp, _)), None) => {
            stats.cover("book:bids_only");
            (Some(bp), Some(bp))
        }
        (None, Some((ap, _))) => {
            stats.cover("book:asks_only");
            (Some(ap), Some(ap))
        }
        (None, None) => {
            stats.cover("book:empty");
            (None, None)
        }
    };
    let derived = catch(|| (book.mid_price(), book.volume_weighed_mid_price()));
    let (obs_mid, obs_vw) = match derived {
        Ok(x) => x,
        Err(msg) => return fail("panic_in_order_book_query", format!("mid/vwmp panicked: {msg}")),
    };
    stats.checks += 2;
    if obs_mid != exp_mid {
        return fail("mid_price_differs_from_map", format!("expected {exp_mid:?} observed {obs_mid:?}"));
    }
    match (obs_vw, exp_vw) {
        (None, None) => {}
        (Some(o), Some(e)) if o == e => {}
        (Some(o), Some(e)) if approx_eq(o, e) => stats.note("vwmp_matched_within_last_place_rounding"),
        _ => {
            return fail(
                "volume_weighted_mid_price_differs_from_map",
                format!("expected {exp_vw:?} observed {obs_vw:?} (best bid {best_bid:?}, best ask {best_ask:?})"),
            );
        }
    }

    // depth-limited snapshots
    let (nb, na) = (eb.len(), ea.len());
    let big = nb.max(na);
    let mut depths = vec![0usize, 1, nb.saturating_sub(1), nb, na.saturating_sub(1), na, big + 1, big + 7];
    if step % 16 == 0 {
        depths.push(usize::MAX);
    }
    depths.sort_unstable();
    depths.dedup();
    for d in depths {
        let snap = match catch(|| book.snapshot(d)) {
            Ok(s) => s,
            Err(msg) => return fail("panic_in_order_book_query", format!("snapshot({d}) panicked: {msg}")),
        };
        stats.checks += 1;
        let sb = levels_of(snap.bids().levels());
        let sa = levels_of(snap.asks().levels());
        let xb = &eb[..d.min(nb)];
        let xa = &ea[..d.min(na)];
        if sb != xb || sa != xa || snap.sequence != model.sequence || snap.time_engine != model.time {
            return fail(
                "depth_snapshot_differs_from_map",
                format!(
                    "snapshot({d}): expected seq {} time {:?} bids {} asks {}; observed seq {} time {:?} bids {} asks {}",
                    model.sequence,
                    model.time,
                    show(xb),
                    show(xa),
                    snap.sequence,
                    snap.time_engine,
                    show(&sb),
                    show(&sa)
                ),
            );
        }
        if d == 0 {
            stats.cover("snapshot:depth_zero");
        }
        for n in [nb, na] {
            if n == 0 {
                continue;
            }
            if d > 0 && d < n {
                stats.cover("snapshot:depth_lt_size");
            } else if d == n {
                stats.cover("snapshot:depth_eq_size");
            } else if d > n {
                stats.cover("snapshot:depth_gt_size");
            }
        }
    }
    Ok(())
}

/// How event `idx` reaches the book (all are legitimate uses of the public API and must be equivalent):
/// 0 = `OrderBook::update`, 1 = the lower-level `upsert_bids` / `upsert_asks` plus the public metadata
/// fields (updates only), 2 = `update` on a CLONE that replaces the book, 3 = `update` on the book's own
/// full-depth `snapshot` that replaces the book.
fn route_of(idx: usize, ev: &Ev) -> u8 {
    let h = (idx as u64).wrapping_mul(0x9E37_79B9_7F4A_7C15) ^ ev.sequence.wrapping_mul(0xD6E8_FEB8_6659_FD93);
    match (h >> 29) % 16 {
        0 | 1 if !ev.snapshot => 1,
        2 => 2,
        3 => 3,
        _ => 0,
    }
}

fn apply_routed(book: &mut OrderBook, event: OrderBookEvent, route: u8, stats: &mut Stats) {
    match (route, event) {
        (1, OrderBookEvent::Update(update)) => {
            stats.cover("route:update_through_upsert_bids_and_asks");
            book.sequence = update.sequence;
            book.time_engine = update.time_engine;
            book.upsert_asks(update.asks().clone());
            book.upsert_bids(update.bids().clone());
        }
        (2, event) => {
            stats.cover("route:continued_on_a_clone");
            let mut copy = book.clone();
            copy.update(event);
            *book = copy;
        }
        (3, event) => {
            stats.cover("route:continued_on_a_full_depth_snapshot");
            let mut copy = book.snapshot(usize::MAX);
            copy.update(event);
            *book = copy;
        }
        (_, event) => book.update(event),
    }
}

/// Run one sequential history under the monitor. Err = (failure, index of the failing event).
///
/// Every fourth history (by length) is run NEXT TO a second book that receives the same events in reverse
/// order, one for one: two books share nothing, so each must follow its own map.
fn run_seq(history: &[Ev], stats: &mut Stats) -> Result<(), (Fail, usize)> {
    let mut book = OrderBook::default();
    let mut model = Model::default();
    let side_by_side = history.len() >= 2 && history.len() % 4 == 1;
    let mut other = OrderBook::new(0, None, Vec::<Level>::new(), Vec::<Level>::new());
    let mut other_model = Model::default();
    judge(&book, &model, 1, stats).map_err(|f| (f, 0))?;
    for (idx, ev) in history.iter().enumerate() {
        let event = build(ev);
        // the map is fed the levels IN THE ORDER GIVEN to the constructor: a price named twice in one update is
        // set / deleted in that order (the constructor sorts by price; it must not reorder equal prices)
        model.apply(ev, &ev.bids, &ev.asks, stats);
        stats.events += 1;
        let route = route_of(idx, ev);
        if let Err(msg) = catch(|| apply_routed(&mut book, event, route, stats)) {
            return Err((
                Fail { sig: "panic_in_order_book_update", detail: format!("OrderBook::update panicked at event {idx}: {msg}") },
                idx,
            ));
        }
        judge(&book, &model, idx, stats).map_err(|f| (Fail { sig: f.sig, detail: format!("after event {idx}: {}", f.detail) }, idx))?;
        if side_by_side {
            let oev = &history[history.len() - 1 - idx];
            let event = build(oev);
            other_model.apply(oev, &oev.bids, &oev.asks, stats);
            if let Err(msg) = catch(|| other.update(event)) {
                return Err((
                    Fail { sig: "panic_in_order_book_update", detail: format!("second book: OrderBook::update panicked at event {idx}: {msg}") },
                    idx,
                ));
            }
            stats.cover("route:two_books_side_by_side");
            judge(&other, &other_model, idx, stats)
                .map_err(|f| (Fail { sig: f.sig, detail: format!("second book fed in reverse, after its event {idx}: {}", f.detail) }, idx))?;
            judge(&book, &model, idx, stats)
                .map_err(|f| (Fail { sig: f.sig, detail: format!("after event {idx} and an update of ANOTHER book: {}", f.detail) }, idx))?;
        }
    }
    Ok(())
}

fn fails_with(history: &[Ev], sig: &str) -> bool {
    let mut st = Stats::default();
    matches!(run_seq(history, &mut st), Err((f, _)) if f.sig == sig)
}

/// Shrink events, then the level lists inside the remaining events.
fn shrink_history(history: &[Ev], sig: &'static str) -> Vec<Ev> {
    let mut cur = shrink(history, |cand| fails_with(cand, sig));
    for i in 0..cur.len() {
        for side in 0..2 {
            let levels = if side == 0 { cur[i].bids.clone() } else { cur[i].asks.clone() };
            if levels.is_empty() {
                continue;
            }
            let base = cur.clone();
            let small = shrink(&levels, |cand| {
                let mut h = base.clone();
                if side == 0 {
                    h[i].bids = cand.to_vec();
                } else {
                    h[i].asks = cand.to_vec();
                }
                fails_with(&h, sig)
            });
            if side == 0 {
                cur[i].bids = small;
            } else {
                cur[i].asks = small;
            }
        }
    }
    // events may have become droppable after their levels shrank
    shrink(&cur, |cand| fails_with(cand, sig))
}

// ------------------------------------------------------------------------------------------------
// Driver 3 (life cycle): one history delivered in LEGS, each by a FRESH `OrderBookL2Manager` over the SAME shared books
// (a consumer restarts its manager after the stream ended; one leg is empty). The book must equal the map of the WHOLE
// history after every leg, and a book that no event names must keep what it held before the first manager started.

fn run_manager_legs(history: &[Ev], stats: &mut Stats) -> Result<(), Fail> {
    let rt = tokio::runtime::Builder::new_current_thread().enable_time().build().expect("tokio runtime");
    let multi = history.len() % 2 == 0;
    let book = Arc::new(RwLock::new(OrderBook::default()));
    let bystander = Arc::new(RwLock::new(OrderBook::default()));
    let by_ev = Ev { snapshot: true, sequence: 7, time_ms: Some(5), bids: vec![(d("10"), d("1")), (d("9"), d("1"))], asks: vec![(d("11"), d("2"))] };
    let mut by_model = Model::default();
    by_model.apply(&by_ev, &by_ev.bids, &by_ev.asks, stats);
    bystander.write().update(build(&by_ev));
    let want_by = RefState::of_model(&by_model);
    let mut model = Model::default();
    let (a, b) = (history.len() / 3, 2 * history.len() / 3);
    for (leg, range) in [0..a, a..a, a..b, b..history.len()].into_iter().enumerate() {
        let (tx, rx) = tokio::sync::mpsc::unbounded_channel::<MarketStreamEvent<u32, OrderBookEvent>>();
        for ev in &history[range.clone()] {
            model.apply(ev, &ev.bids, &ev.asks, stats);
            let _ = tx.send(MarketStreamEvent::Item(MarketEvent {
                time_exchange: ev_time(ev).unwrap_or_else(|| t(0)),
                time_received: t(0),
                exchange: ExchangeId::BinanceSpot,
                instrument: 1u32,
                kind: build(ev),
            }));
        }
        drop(tx);
        let stream = UnboundedReceiverStream::new(rx);
        let ran = if multi {
            let map: FnvHashMap<u32, Arc<RwLock<OrderBook>>> = [(1u32, book.clone()), (2u32, bystander.clone())].into_iter().collect();
            catch(|| rt.block_on(OrderBookL2Manager { stream, books: OrderBookMapMulti::new(map) }.run()))
        } else {
            catch(|| rt.block_on(OrderBookL2Manager { stream, books: OrderBookMapSingle::new(1u32, book.clone()) }.run()))
        };
        if let Err(msg) = ran {
            return fail("panic_in_order_book_manager", format!("manager of leg {leg} (events {range:?}) panicked: {msg}"));
        }
        stats.checks += 1;
        stats.cover(if range.is_empty() { "manager_restart:leg_without_events" } else if leg == 0 { "manager_restart:first_leg" } else { "manager_restart:leg_over_a_populated_book" });
        let want = RefState::of_model(&model);
        let got = book.read().clone();
        if !want.matches(&got) {
            return fail(
                "book_differs_from_map_after_manager_restart",
                format!("after leg {leg} (events {range:?} of {}, each leg by a fresh manager over the same book): expected {}; observed {}", history.len(), want.show(), show_book(&got)),
            );
        }
        if multi {
            stats.checks += 1;
            stats.cover("manager_restart:multi_map_with_a_book_no_event_names");
            let got = bystander.read().clone();
            if !want_by.matches(&got) {
                return fail(
                    "manager_changed_a_book_no_event_named",
                    format!("after leg {leg}: the second book of the map held {} before the first manager started and no event named it; observed {}", want_by.show(), show_book(&got)),
                );
            }
        } else {
            stats.cover("manager_restart:single_map");
        }
    }
    Ok(())
}

fn execute_seq(history: &[Ev], report: &mut Report, label: &str, shrunk_so_far: &mut HashMap<&'static str, u32>) {
    let mut stats = Stats::default();
    let res = run_seq(history, &mut stats);
    let nontrivial = history.len() >= 3 && stats.op_kinds.iter().filter(|b| **b).count() >= 2;
    // driver 3 on a share of the random histories (and on every replayed one)
    let legs = if history.len() >= 4 && res.is_ok() && (label == "replay" || (label == "random" && fnv1a(format!("{history:?}").as_bytes()) % 8 == 3)) {
        run_manager_legs(history, &mut stats)
    } else {
        Ok(())
    };
    stats.flush(report);
    if let Err(f) = legs {
        report.violation(f.sig, f.detail, Value::Array(history.iter().map(ev_json).collect()));
    }
    report.cover(&format!("driver:sequential:{label}"));
    report.case(fnv1a(format!("{history:?}").as_bytes()), nontrivial);
    if nontrivial && history.len() >= 6 && label == "random" {
        report.sample(|| json!({"driver": "sequential", "events": history.iter().map(ev_json).collect::<Vec<_>>()}));
    }
    if let Err((f, _idx)) = res {
        let n = shrunk_so_far.entry(f.sig).or_insert(0);
        *n += 1;
        if *n > 5 {
            // the report keeps five witnesses per signature: just count the rest
            report.violation(f.sig, f.detail, Value::Null);
            return;
        }
        let small = shrink_history(history, f.sig);
        let mut st = Stats::default();
        let detail = match run_seq(&small, &mut st) {
            Err((f2, _)) => f2.detail,
            Ok(()) => f.detail,
        };
        let witness: Vec<Value> = small.iter().map(ev_json).collect();
        report.violation(f.sig, detail, Value::Array(witness));
    }
}

// ------------------------------------------------------------------------------------------------
// Generators

#[derive(Clone, Copy, Debug)]
struct Grid {
    n: usize,
    base: i64,
    tick: i64,
    scale: u32,
    ask_off: usize,
}

impl Grid {
    fn random(rng: &mut Rng) -> Grid {
        let n = rng.range_u(8, 40);
        Grid {
            n,
            base: rng.range(1, 50_000),
            tick: *rng.pick(&[1, 1, 2, 5, 10, 25]),
            scale: rng.range(0, 3) as u32,
            ask_off: *rng.pick(&[0, 0, n / 2, n]),
        }
    }
    /// price of tick `i`; `extra` appends that many trailing zeros (same value, larger scale)
    fn price(&self, i: usize, extra: u32) -> Decimal {
        let m = self.base + self.tick * i as i64;
        Decimal::new(m * 10i64.pow(extra), self.scale + extra)
    }
    fn side_price(&self, is_bid: bool, i: usize, extra: u32) -> Decimal {
        self.price(if is_bid { i } else { i + self.ask_off }, extra)
    }
}

fn gen_extra(rng: &mut Rng) -> u32 {
    if rng.chance(1, 4) { rng.range(1, 2) as u32 } else { 0 }
}

fn gen_amount(rng: &mut Rng, zero_pct: u64) -> Decimal {
    if rng.chance(zero_pct, 100) {
        Decimal::new(0, rng.range(0, 3) as u32)
    } else {
        let scale = rng.range(0, 4) as u32;
        rng.decimal(1, 999_999, scale)
    }
}

fn gen_update_side(rng: &mut Rng, grid: &Grid, is_bid: bool) -> Vec<Lv> {
    let mode = rng.below(100);
    if mode < 8 {
        return vec![];
    }
    if mode < 14 {
        // sweep: delete every tick of the grid (present or not) -> empties the side
        let mut v: Vec<Lv> =
            (0..grid.n).map(|i| (grid.side_price(is_bid, i, gen_extra(rng)), Decimal::new(0, rng.range(0, 2) as u32))).collect();
        rng.shuffle(&mut v);
        return v;
    }
    let k = if rng.chance(1, 10) { rng.range_u(1, 2 * grid.n) } else { rng.range_u(1, 6) };
    let mut ticks: Vec<usize> = Vec::with_capacity(k);
    let mut v: Vec<Lv> = Vec::with_capacity(k + 3);
    for _ in 0..k {
        let i = if rng.chance(1, 5) {
            // the extremes of the grid: front / back inserts and deletes
            *rng.pick(&[0, 0, 1, grid.n - 2, grid.n - 1, grid.n - 1])
        } else {
            rng.usize_below(grid.n)
        };
        ticks.push(i);
        v.push((grid.side_price(is_bid, i, gen_extra(rng)), gen_amount(rng, 35)));
    }
    if rng.chance(3, 10) {
        for _ in 0..rng.range_u(1, 3) {
            let i = *rng.pick(&ticks);
            let at = rng.usize_below(v.len() + 1);
            v.insert(at, (grid.side_price(is_bid, i, gen_extra(rng)), gen_amount(rng, 50)));
        }
    }
    v
}

fn gen_snapshot_side(rng: &mut Rng, grid: &Grid, is_bid: bool) -> Vec<Lv> {
    if rng.chance(15, 100) {
        return vec![];
    }
    let mut idx: Vec<usize> = (0..grid.n).collect();
    rng.shuffle(&mut idx);
    let k = rng.range_u(1, grid.n);
    idx.truncate(k);
    idx.into_iter().map(|i| (grid.side_price(is_bid, i, gen_extra(rng)), gen_amount(rng, 0))).collect()
}

fn gen_event(rng: &mut Rng, grid: &Grid, sequence: u64, snapshot_pct: u64) -> Ev {
    let snapshot = rng.chance(snapshot_pct, 100);
    let time_ms = if rng.chance(1, 5) { None } else { Some(rng.range(0, 10_000_000)) };
    if snapshot {
        Ev { snapshot, sequence, time_ms, bids: gen_snapshot_side(rng, grid, true), asks: gen_snapshot_side(rng, grid, false) }
    } else {
        Ev { snapshot, sequence, time_ms, bids: gen_update_side(rng, grid, true), asks: gen_update_side(rng, grid, false) }
    }
}

fn random_history(rng: &mut Rng, max_len: usize) -> Vec<Ev> {
    let grid = Grid::random(rng);
    let len = if rng.chance(1, 3) { rng.range_u(1, 12.min(max_len)) } else { rng.range_u(1, max_len) };
    let mut seq: u64 = rng.below(1000);
    let mut h = Vec::with_capacity(len);
    for _ in 0..len {
        // the book does not validate sequences: mostly increasing, sometimes anything
        seq = match rng.below(20) {
            0 => rng.below(1000),
            1 => seq,
            2 => *rng.pick(&[0, u64::MAX, u64::MAX - 1]),
            _ => seq.wrapping_add(1 + rng.below(3)),
        };
        h.push(gen_event(rng, &grid, seq, 10));
    }
    h
}

fn d(s: &str) -> Decimal {
    Decimal::from_str(s).expect("decimal literal")
}

/// Fixed alphabet of the bounded-exhaustive block.
fn exhaustive_alphabet() -> Vec<(bool, Vec<Lv>, Vec<Lv>)> {
    let mut a = Vec::new();
    for is_bid in [true, false] {
        for p in ["1.0", "2.0", "2.00", "3.0"] {
            for amt in ["0", "1.5", "2"] {
                let lv = vec![(d(p), d(amt))];
                a.push(if is_bid { (false, lv, vec![]) } else { (false, vec![], lv) });
            }
        }
    }
    a.push((true, vec![], vec![]));
    a.push((true, vec![(d("1.0"), d("1")), (d("3.0"), d("1"))], vec![(d("3.0"), d("2")), (d("2.0"), d("1"))]));
    a.push((false, vec![(d("2.0"), d("1")), (d("2.00"), d("0"))], vec![]));
    a.push((false, vec![], vec![(d("2.0"), d("0")), (d("2.00"), d("3"))]));
    a
}

fn enumerate(alpha: &[(bool, Vec<Lv>, Vec<Lv>)], len: usize, from: u64, stride: u64, mut f: impl FnMut(&[Ev])) {
    let n = alpha.len() as u64;
    let total = n.pow(len as u32);
    let mut idx = from;
    let mut word: Vec<Ev> = Vec::with_capacity(len);
    while idx < total {
        word.clear();
        let mut x = idx;
        for i in 0..len {
            let (snapshot, bids, asks) = &alpha[(x % n) as usize];
            word.push(Ev { snapshot: *snapshot, sequence: i as u64 + 1, time_ms: Some(i as i64), bids: bids.clone(), asks: asks.clone() });
            x /= n;
        }
        f(&word);
        idx += stride;
    }
}

// ------------------------------------------------------------------------------------------------
// Driver 2: the real manager with concurrent readers

const FOREIGN_KEY: u32 = 99;
const WATCHDOG: Duration = Duration::from_secs(120);

#[derive(Clone, Debug)]
enum Feed {
    /// event for instrument key `instr` (configured or not)
    Item { instr: u32, ev: Ev },
    Reconnecting,
}

#[derive(Clone, Debug)]
struct MgrCase {
    multi: bool,
    configured: Vec<u32>,
    feed: Vec<Feed>,
    /// busy-spin iterations of the feeder after each sent item
    pace: Vec<u32>,
}

fn mgr_case_json(case: &MgrCase) -> Value {
    json!({
        "driver": "manager",
        "multi": case.multi,
        "configured": case.configured,
        "feed": case.feed.iter().map(|f| match f {
            Feed::Item { instr, ev } => json!({"type": "item", "instrument": instr, "event": ev_json(ev)}),
            Feed::Reconnecting => json!({"type": "reconnecting"}),
        }).collect::<Vec<_>>(),
        "pace": case.pace,
    })
}

fn mgr_case_from_json(v: &Value) -> Result<MgrCase, String> {
    let feed = v["feed"]
        .as_array()
        .ok_or("feed")?
        .iter()
        .map(|f| match f["type"].as_str() {
            Some("reconnecting") => Ok(Feed::Reconnecting),
            Some("item") => Ok(Feed::Item { instr: f["instrument"].as_u64().ok_or("instrument")? as u32, ev: ev_from_json(&f["event"])? }),
            other => Err(format!("bad feed type {other:?}")),
        })
        .collect::<Result<Vec<_>, String>>()?;
    Ok(MgrCase {
        multi: v["multi"].as_bool().ok_or("multi")?,
        configured: v["configured"].as_array().ok_or("configured")?.iter().filter_map(Value::as_u64).map(|x| x as u32).collect(),
        pace: v["pace"].as_array().map(|a| a.iter().filter_map(Value::as_u64).map(|x| x as u32).collect()).unwrap_or_default(),
        feed,
    })
}

fn gen_mgr_case(rng: &mut Rng, max_items: usize) -> MgrCase {
    let multi = rng.bool();
    let configured: Vec<u32> = if multi { if rng.bool() { vec![3, 7] } else { vec![3, 7, 11] } } else { vec![7] };
    let grids: Vec<Grid> = configured.iter().map(|_| Grid::random(rng)).collect();
    let foreign_grid = Grid::random(rng);
    let mut next_seq: Vec<u64> = configured.iter().map(|_| 0).collect();
    // the book does not validate sequences (the statement: "the book's sequence is that of the last applied
    // event"): in half of the cases the venue's counter restarts / jumps, also DOWNWARDS. Sequences stay
    // unique per book because the monitor identifies the observed prefix by them.
    let non_monotone = rng.bool();
    let mut used: Vec<std::collections::HashSet<u64>> = configured.iter().map(|_| Default::default()).collect();
    let mut n_events: Vec<u32> = configured.iter().map(|_| 0).collect();
    let mut foreign_seq: u64 = 10_000_000;
    let n_items = rng.range_u(20.min(max_items), max_items);
    let mut feed = Vec::with_capacity(n_items);
    let mut pace = Vec::with_capacity(n_items);
    for _ in 0..n_items {
        let roll = rng.below(100);
        if roll < 6 {
            feed.push(Feed::Reconnecting);
        } else if roll < 14 {
            foreign_seq += 1;
            feed.push(Feed::Item { instr: FOREIGN_KEY, ev: gen_event(rng, &foreign_grid, foreign_seq, 20) });
        } else {
            let i = rng.usize_below(configured.len());
            // unique, strictly increasing sequence per book; 0 is the initial (default) book
            if non_monotone && n_events[i] > 0 && rng.chance(1, 5) {
                next_seq[i] = rng.below(4_000_000);
            }
            next_seq[i] += 1 + rng.below(3);
            while !used[i].insert(next_seq[i]) {
                next_seq[i] += 1;
            }
            n_events[i] += 1;
            let first = n_events[i] <= 2;
            feed.push(Feed::Item { instr: configured[i], ev: gen_event(rng, &grids[i], next_seq[i], if first { 60 } else { 6 }) });
        }
        pace.push(match rng.below(10) {
            0..=5 => 0,
            6..=8 => rng.below(200) as u32,
            _ => rng.below(5000) as u32,
        });
    }
    MgrCase { multi, configured, feed, pace }
}

#[derive(Clone, Debug, PartialEq)]
struct RefState {
    sequence: u64,
    time: Option<DateTime<Utc>>,
    bids: Vec<Lv>,
    asks: Vec<Lv>,
}

impl RefState {
    fn of_model(m: &Model) -> RefState {
        RefState { sequence: m.sequence, time: m.time, bids: m.bid_items(), asks: m.ask_items() }
    }
    fn matches(&self, book: &OrderBook) -> bool {
        book.sequence == self.sequence
            && book.time_engine == self.time
            && levels_of(book.bids().levels()) == self.bids
            && levels_of(book.asks().levels()) == self.asks
    }
    fn show(&self) -> String {
        format!("seq {} time {:?} bids {} asks {}", self.sequence, self.time, show(&self.bids), show(&self.asks))
    }
}

fn show_book(book: &OrderBook) -> String {
    format!(
        "seq {} time {:?} bids {} asks {}",
        book.sequence,
        book.time_engine,
        show(&levels_of(book.bids().levels())),
        show(&levels_of(book.asks().levels()))
    )
}

struct RefBook {
    states: Vec<RefState>,
    by_seq: HashMap<u64, usize>,
}

#[derive(Default)]
struct ReaderResult {
    observations: u64,
    seen: Vec<Vec<bool>>,
    fail: Option<Fail>,
}

#[derive(Default)]
struct MgrOutcome {
    fails: Vec<Fail>,
    harness_error: Option<String>,
    observations: u64,
    distinct_prefixes: u64,
    intermediate_prefixes: u64,
    saw_initial: bool,
    saw_final: bool,
    applied_events: u64,
}

fn run_manager_case(rt: &tokio::runtime::Runtime, case: &MgrCase, stats: &mut Stats) -> MgrOutcome {
    let mut out = MgrOutcome::default();

    // reference states after every prefix, per configured book; the real events to send
    let mut models: Vec<Model> = case.configured.iter().map(|_| Model::default()).collect();
    let mut refs: Vec<RefBook> = case
        .configured
        .iter()
        .map(|_| RefBook { states: vec![RefState::of_model(&Model::default())], by_seq: HashMap::from([(0u64, 0usize)]) })
        .collect();
    let mut wire: Vec<MarketStreamEvent<u32, OrderBookEvent>> = Vec::with_capacity(case.feed.len());
    for item in &case.feed {
        match item {
            Feed::Reconnecting => {
                stats.cover("manager:reconnecting_item_interleaved");
                wire.push(MarketStreamEvent::Reconnecting(ExchangeId::BinanceSpot));
            }
            Feed::Item { instr, ev } => {
                let event = build(ev);
                if let Some(i) = case.configured.iter().position(|k| k == instr) {
                    models[i].apply(ev, &ev.bids, &ev.asks, stats);
                    let st = RefState::of_model(&models[i]);
                    let k = refs[i].states.len();
                    if st.sequence < refs[i].states[k - 1].sequence {
                        stats.cover("manager:event_sequence_lower_than_the_books");
                    }
                    if refs[i].by_seq.insert(st.sequence, k).is_some() {
                        out.harness_error = Some(format!("feed reuses sequence {} for instrument {instr}", st.sequence));
                        return out;
                    }
                    refs[i].states.push(st);
                    out.applied_events += 1;
                } else {
                    stats.cover("manager:event_for_non_configured_instrument");
                }
                wire.push(MarketStreamEvent::Item(MarketEvent {
                    time_exchange: ev_time(ev).unwrap_or_else(|| t(0)),
                    time_received: t(0),
                    exchange: ExchangeId::BinanceSpot,
                    instrument: *instr,
                    kind: event,
                }));
            }
        }
    }

    let books: Vec<Arc<RwLock<OrderBook>>> = case.configured.iter().map(|_| Arc::new(RwLock::new(OrderBook::default()))).collect();
    let (tx, rx) = tokio::sync::mpsc::unbounded_channel::<MarketStreamEvent<u32, OrderBookEvent>>();
    let stream = UnboundedReceiverStream::new(rx);
    let handle = if case.multi {
        stats.cover("manager:book_map_multi");
        let map: FnvHashMap<u32, Arc<RwLock<OrderBook>>> = case.configured.iter().copied().zip(books.iter().cloned()).collect();
        rt.spawn(OrderBookL2Manager { stream, books: OrderBookMapMulti::new(map) }.run())
    } else {
        stats.cover("manager:book_map_single");
        rt.spawn(OrderBookL2Manager { stream, books: OrderBookMapSingle::new(case.configured[0], books[0].clone()) }.run())
    };

    const READERS: usize = 3;
    let done = AtomicBool::new(false);
    let barrier = Barrier::new(READERS + 1);
    let refs = &refs;
    let books_ref = &books;
    let mut manager_result: Result<Result<(), tokio::task::JoinError>, ()> = Err(());

    let reader_results: Vec<ReaderResult> = std::thread::scope(|s| {
        let handles: Vec<_> = (0..READERS)
            .map(|_| {
                let done = &done;
                let barrier = &barrier;
                s.spawn(move || {
                    let mut res = ReaderResult { seen: refs.iter().map(|r| vec![false; r.states.len()]).collect(), ..Default::default() };
                    let mut last_k: Vec<usize> = vec![0; books_ref.len()];
                    barrier.wait();
                    let mut last_round = false;
                    'outer: loop {
                        let mut changed = false;
                        for (bi, book) in books_ref.iter().enumerate() {
                            let obs: OrderBook = book.read().clone();
                            res.observations += 1;
                            let Some(&k) = refs[bi].by_seq.get(&obs.sequence) else {
                                res.fail = Some(Fail {
                                    sig: "reader_saw_book_of_no_prefix",
                                    detail: format!(
                                        "book {bi}: observed sequence {} is not the sequence of any event addressed to this book: {}",
                                        obs.sequence,
                                        show_book(&obs)
                                    ),
                                });
                                break 'outer;
                            };
                            if k < last_k[bi] {
                                res.fail = Some(Fail {
                                    sig: "reader_saw_book_go_backwards",
                                    detail: format!("book {bi}: observed prefix {k} after prefix {}", last_k[bi]),
                                });
                                break 'outer;
                            }
                            if !refs[bi].states[k].matches(&obs) {
                                // torn = every part is the part of SOME prefix state, but not of one
                                // and the same prefix; otherwise the content itself is wrong
                                let ob = levels_of(obs.bids().levels());
                                let oa = levels_of(obs.asks().levels());
                                let jb = refs[bi].states.iter().rposition(|s| s.bids == ob);
                                let ja = refs[bi].states.iter().rposition(|s| s.asks == oa);
                                let (sig, parts) = match (jb, ja) {
                                    (Some(jb), Some(ja)) => (
                                        "reader_saw_torn_book",
                                        format!("mixes prefixes: sequence of prefix {k}, bids of prefix {jb}, asks of prefix {ja}"),
                                    ),
                                    _ => ("reader_saw_book_equal_to_no_prefix_state", "levels match no prefix state".to_string()),
                                };
                                res.fail = Some(Fail {
                                    sig,
                                    detail: format!(
                                        "book {bi}: observation carries the sequence of prefix {k} but is not the state after that prefix ({parts}); expected {}; observed {}; state after prefix {}: {}",
                                        refs[bi].states[k].show(),
                                        show_book(&obs),
                                        k.saturating_sub(1),
                                        refs[bi].states[k.saturating_sub(1)].show()
                                    ),
                                });
                                break 'outer;
                            }
                            if k != last_k[bi] {
                                changed = true;
                            }
                            last_k[bi] = k;
                            res.seen[bi][k] = true;
                        }
                        if last_round {
                            break;
                        }
                        if done.load(AtomicOrdering::Acquire) {
                            // one more full pass after the writer finished
                            last_round = true;
                        } else if !changed {
                            std::thread::yield_now();
                        }
                    }
                    res
                })
            })
            .collect();

        // feeder = this thread
        barrier.wait();
        for (item, spins) in wire.drain(..).zip(case.pace.iter().copied().chain(std::iter::repeat(0))) {
            if tx.send(item).is_err() {
                break; // manager died (panicked): judged below
            }
            for _ in 0..spins {
                std::hint::spin_loop();
            }
        }
        drop(tx);
        manager_result = rt.block_on(async { tokio::time::timeout(WATCHDOG, handle).await }).map_err(|_| ());
        done.store(true, AtomicOrdering::Release);
        handles.into_iter().map(|h| h.join().expect("reader thread")).collect()
    });

    match manager_result {
        Err(()) => {
            out.harness_error = Some(format!("watchdog: OrderBookL2Manager::run did not end within {WATCHDOG:?} after its stream ended"));
            return out;
        }
        Ok(Err(join_err)) => {
            let msg = if join_err.is_panic() {
                match join_err.into_panic().downcast::<String>() {
                    Ok(s) => *s,
                    Err(p) => p.downcast::<&str>().map(|s| s.to_string()).unwrap_or_else(|_| "panic".into()),
                }
            } else {
                "cancelled".to_string()
            };
            out.fails.push(Fail { sig: "panic_in_order_book_manager", detail: format!("OrderBookL2Manager::run panicked: {msg}") });
        }
        Ok(Ok(())) => {}
    }

    // reader verdicts + evidence
    let mut seen_any: Vec<Vec<bool>> = refs.iter().map(|r| vec![false; r.states.len()]).collect();
    for r in reader_results {
        out.observations += r.observations;
        stats.checks += r.observations;
        for (bi, v) in r.seen.iter().enumerate() {
            for (k, s) in v.iter().enumerate() {
                seen_any[bi][k] |= *s;
            }
        }
        if let Some(f) = r.fail {
            out.fails.push(f);
        }
    }
    for v in &seen_any {
        let last = v.len() - 1;
        for (k, s) in v.iter().enumerate() {
            if !*s {
                continue;
            }
            out.distinct_prefixes += 1;
            if k == 0 {
                out.saw_initial = true;
            }
            if k == last {
                out.saw_final = true;
            }
            if k > 0 && k < last {
                out.intermediate_prefixes += 1;
            }
        }
    }

    // final book == state after the full prefix
    if out.fails.iter().all(|f| f.sig != "panic_in_order_book_manager") {
        for (bi, book) in books.iter().enumerate() {
            let fin = book.read().clone();
            stats.checks += 1;
            let want = refs[bi].states.last().unwrap();
            if !want.matches(&fin) {
                out.fails.push(Fail {
                    sig: "final_book_differs_from_full_prefix_state",
                    detail: format!("book {bi} after the stream ended: expected {}; observed {}", want.show(), show_book(&fin)),
                });
            }
        }
    }
    out
}

fn execute_mgr(rt: &tokio::runtime::Runtime, case: &MgrCase, report: &mut Report) -> bool {
    let mut stats = Stats::default();
    let out = run_manager_case(rt, case, &mut stats);
    stats.events += case.feed.len() as u64;
    stats.flush(report);
    report.cover("driver:manager");
    report.case(fnv1a(format!("{case:?}").as_bytes()), out.applied_events >= 3);
    report.info("manager_runs", 1);
    report.info("manager_events_for_configured_books", out.applied_events);
    report.info("reader_observations", out.observations);
    report.info("reader_distinct_prefixes_observed", out.distinct_prefixes);
    report.info("reader_intermediate_prefixes_observed", out.intermediate_prefixes);
    if out.intermediate_prefixes > 0 {
        report.cover("reader:observed_intermediate_prefix");
    }
    if out.saw_initial {
        report.cover("reader:observed_initial_book");
    }
    if out.saw_final {
        report.cover("reader:observed_final_book");
    }
    if let Some(e) = out.harness_error {
        report.harness_errors.push(e);
        return false;
    }
    let violated = !out.fails.is_empty();
    let mut reported: Vec<&'static str> = Vec::new();
    for f in out.fails {
        if reported.contains(&f.sig) {
            continue;
        }
        reported.push(f.sig);
        report.violation(f.sig, f.detail, mgr_case_json(case));
    }
    violated
}

fn mgr_runtime(workers: usize) -> tokio::runtime::Runtime {
    tokio::runtime::Builder::new_multi_thread().worker_threads(workers).enable_time().build().expect("tokio runtime")
}

// ------------------------------------------------------------------------------------------------

fn replay(v: &Value) -> i32 {
    let history = &v["history"];
    let mut report = Report::new("C05");
    if let Some(events) = history.as_array() {
        let events: Vec<Ev> = match events.iter().map(ev_from_json).collect::<Result<_, _>>() {
            Ok(e) => e,
            Err(e) => {
                eprintln!("cannot parse history: {e}");
                return 2;
            }
        };
        for (i, ev) in events.iter().enumerate() {
            if let Err(why) = in_domain(ev) {
                println!("event {i} is outside the domain of the statement ({why}); not judged");
                return 0;
            }
        }
        execute_seq(&events, &mut report, "replay", &mut HashMap::new());
    } else {
        let case = match mgr_case_from_json(history) {
            Ok(c) => c,
            Err(e) => {
                eprintln!("cannot parse history: {e}");
                return 2;
            }
        };
        for f in &case.feed {
            if let Feed::Item { ev, .. } = f {
                if let Err(why) = in_domain(ev) {
                    println!("an event is outside the domain of the statement ({why}); not judged");
                    return 0;
                }
            }
        }
        // a race may need several executions of the same feed to show again
        let rt = mgr_runtime(2);
        for attempt in 0..200 {
            if execute_mgr(&rt, &case, &mut report) {
                println!("reproduced on execution {}", attempt + 1);
                break;
            }
        }
    }
    println!("{}", serde_json::to_string_pretty(&report.to_json()).unwrap());
    if report.violation_count > 0 { 1 } else { 0 }
}

fn main() {
    let mut args = Args::parse();

    if let Some(path) = &args.replay {
        let v: Value = serde_json::from_str(&std::fs::read_to_string(path).expect("read replay")).expect("json");
        std::process::exit(replay(&v));
    }

    let miri = args.tier == "miri";
    let tsan = args.tier == "tsan";
    if miri {
        args.threads = 1;
    }
    if tsan {
        args.threads = args.threads.min(2);
    }
    let full = !miri && !tsan;

    let n_seq = if full { args.size(5_000, 300_000) } else { 0 };
    let miri_event_budget = if miri { args.size(150, 150) } else { 0 };
    let n_mgr = if miri {
        0
    } else if tsan {
        args.size(24, 24)
    } else {
        args.size(600, 24_000)
    };
    let exhaustive_len = if args.is_thorough() { 4 } else { 3 };
    let mgr_workers = args.threads.clamp(1, 4);
    let mgr_max_items = if tsan { 120 } else { 300 };

    let mut report = run_workers(&args, "C05", |w, n, rng, report| {
        let mut shrunk: HashMap<&'static str, u32> = HashMap::new();

        // driver 2 first (on a few workers only, so that reader threads are not starved)
        if w < mgr_workers && n_mgr > 0 {
            let rt = mgr_runtime(2);
            for _ in 0..Args::share(n_mgr, w, mgr_workers.min(n)) {
                let case = gen_mgr_case(rng, mgr_max_items);
                execute_mgr(&rt, &case, report);
            }
        }

        // driver 1
        if full {
            let alpha = exhaustive_alphabet();
            for len in 1..=exhaustive_len {
                enumerate(&alpha, len, w as u64, n as u64, |word| execute_seq(word, report, "exhaustive", &mut shrunk));
            }
        }
        for _ in 0..Args::share(n_seq, w, n) {
            let h = random_history(rng, 200);
            execute_seq(&h, report, "random", &mut shrunk);
        }
        if miri {
            let mut left = miri_event_budget as usize;
            while left > 0 {
                let mut h = random_history(rng, 60);
                h.truncate(left);
                left -= h.len();
                execute_seq(&h, report, "random", &mut shrunk);
            }
        }
    });

    if full {
        report.exhaustive_blocks.push(format!(
            "all sequences of length 1..={exhaustive_len} over a {}-symbol alphabet (single-level bid/ask updates at prices 1.0, 2.0, 2.00, 3.0 with amounts 0, 1.5, 2; empty and two-sided snapshots; two updates carrying a price twice)",
            exhaustive_alphabet().len()
        ));
        for side in ["bid", "ask"] {
            for op in [
                "insert_into_empty_side",
                "insert_front",
                "insert_middle",
                "insert_back",
                "replace",
                "delete_present",
                "delete_absent",
                "duplicate_price_in_update",
            ] {
                report.require(&format!("{side}:{op}"));
            }
        }
        for cell in [
            "duplicate:set_then_delete",
            "duplicate:delete_then_set",
            "duplicate:set_then_set",
            "price_differs_only_in_scale_from_held_level",
            "event:snapshot",
            "event:update",
            "event:snapshot_over_non_empty_book",
            "book:empty",
            "book:bids_only",
            "book:asks_only",
            "book:two_sided",
            "snapshot:depth_zero",
            "snapshot:depth_lt_size",
            "snapshot:depth_eq_size",
            "snapshot:depth_gt_size",
            "route:update_through_upsert_bids_and_asks",
            "route:continued_on_a_clone",
            "route:continued_on_a_full_depth_snapshot",
            "route:two_books_side_by_side",
            "driver:sequential:exhaustive",
            "driver:sequential:random",
            "driver:manager",
            "manager:book_map_single",
            "manager:book_map_multi",
            "manager:reconnecting_item_interleaved",
            "manager:event_for_non_configured_instrument",
            "manager:event_sequence_lower_than_the_books",
            "reader:observed_intermediate_prefix",
            "reader:observed_final_book",
            "manager_restart:first_leg",
            "manager_restart:leg_without_events",
            "manager_restart:leg_over_a_populated_book",
            "manager_restart:multi_map_with_a_book_no_event_names",
            "manager_restart:single_map",
        ] {
            report.require(cell);
        }
    }
    std::process::exit(report.finish(args.out.as_deref()));
}
