//! C12 — reconnecting streams deliver every item once, in order, with one notice per drop.
//!
//! Part 1 (reconnect): a *script* of connection outcomes (init ok with a finite item/error
//! sequence | init failure, optional virtual delays) is played through the REAL combinators composed
//! exactly as the library composes them (`init_reconnecting_stream` -> `with_reconnect_backoff` ->
//! `with_termination_on_error` -> `with_reconnection_events` -> (`with_error_handler` | pass-through)
//! -> optionally `forward_to`; plus the execution-manager composition `merge(channel,
//! init -> backoff -> reconnection_events)`) on a paused current-thread tokio runtime. Every init
//! attempt (start / completion) and every received event is stamped with the virtual clock. The
//! oracle walks the stamped log against the script (DESIGN.md appendix A.3): per-connection
//! exactly-once / in-order / nothing-after-terminal / nothing misplaced across a notice, one
//! `Reconnecting` per ended connection, non-terminal errors passed or handled without ending the
//! connection, waits after failed attempts = min(initial*mult^j, max) exactly, no wait after a
//! connection ends, and "never ends": after the script is consumed the stream is Pending (not
//! `None`) for more than a further virtual hour.
//!
//! Part 2 (merge): `barter_integration::stream::merge::merge` over two channel-fed inputs, polled
//! by hand with a no-op waker: ALL well-formed interleavings of <= 6 actions from {send L, send R,
//! close L, close R} x 3 polling disciplines x 2 receiver kinds, plus random longer ones.
//! Judged: each input's order preserved (no loss/dup/reorder inside an input), nothing withheld
//! while both inputs are alive, the merged stream ends only after an input ended and all of THAT
//! input's items were yielded, it does end once an input ended, and stays ended (fused). Items of
//! the *other* input that were sent but not yet yielded when the end is observed are permitted to
//! be dropped (counted as info, not judged).
//!
//! Evidence rules: a reconnect script is non-trivial if it has >= 3 init attempts, >= 1
//! reconnecting notice and >= 3 delivered events; a merge history is non-trivial if it has >= 4
//! actions with items on both sides. distinct = FNV-1a of the JSON of the case.

use barter_data::streams::{
    consumer::StreamKey,
    reconnect::{
        Event,
        stream::{ReconnectingStream, ReconnectionBackoffPolicy, init_reconnecting_stream},
    },
};
use barter_instrument::exchange::ExchangeId;
use barter_integration::{
    Unrecoverable,
    channel::{Tx, UnboundedTx, mpsc_unbounded},
    stream::merge::merge,
};
use futures::{Stream, StreamExt, stream};
use serde::{Deserialize, Serialize};
use serde_json::json;
use std::{
    collections::{BTreeMap, HashSet},
    future::Future,
    marker::PhantomData,
    pin::Pin,
    sync::{Arc, Mutex},
    task::{Context, Poll},
    time::Duration,
};
use tokio::time::Instant;
use vharness::{Args, Report, Rng, catch, fnv1a, run_workers, shrink};

const ORIGIN: &str = "c12-origin";
const LEFT: u32 = u32::MAX;
const MAX_INIT_DELAY: u64 = 3_000;
const MAX_ITEM_DELAY: u64 = 5_000;
const HOUR: u64 = 3_600_000;
/// Largest generated `backoff_ms_max`. tokio documents a maximum sleep of 2^36 - 2 ms (~2.2 years);
/// beyond it the paused-clock timer wheel misbehaves (observed: `elapsed > when` panic inside tokio
/// with a 2^40 ms timer), which is tokio outside its documented range, not the code under test. The
/// quiet gap (max backoff + max delays + 1 h) must stay below that limit as well.
const MAX_BACKOFF: u64 = 1 << 35;

// ------------------------------------------------------------------------------------------------
// Case description (this is the replayable history)

#[derive(Debug, Clone, Copy, PartialEq, Eq, Hash, Serialize, Deserialize)]
enum Variant {
    /// ... -> with_reconnection_events, errors delivered as `Event::Item(Err(_))`
    PassThrough,
    /// ... -> with_reconnection_events -> with_error_handler
    Handler,
    /// PassThrough composition driven by `forward_to(recording Tx)`
    ForwardPass,
    /// Handler composition driven by `forward_to(recording Tx)`
    ForwardHandler,
    /// execution-manager composition: merge(channel, init -> backoff -> reconnection_events)
    Merged,
}

impl Variant {
    fn terminating(self) -> bool {
        self != Variant::Merged
    }
    fn handler(self) -> bool {
        matches!(self, Variant::Handler | Variant::ForwardHandler)
    }
    fn name(self) -> &'static str {
        match self {
            Variant::PassThrough => "pass_through",
            Variant::Handler => "error_handler",
            Variant::ForwardPass => "forward_to_pass_through",
            Variant::ForwardHandler => "forward_to_error_handler",
            Variant::Merged => "merged_account_style",
        }
    }
}

#[derive(Debug, Clone, Copy, PartialEq, Eq, Hash, Serialize, Deserialize)]
enum ItemKind {
    Ok,
    Soft,
    Terminal,
}

#[derive(Debug, Clone, PartialEq, Eq, Hash, Serialize, Deserialize)]
struct Conn {
    /// init outcome
    ok: bool,
    init_delay_ms: u64,
    /// (virtual delay before the item, kind); ids are (attempt#, index)
    items: Vec<(u64, ItemKind)>,
    /// after the items: ends (`None`) or stays pending
    ends: bool,
}

impl Conn {
    fn first_terminal(&self) -> Option<usize> {
        self.items.iter().position(|(_, k)| *k == ItemKind::Terminal)
    }
    fn closing(&self, variant: Variant) -> bool {
        self.ok && (self.ends || (variant.terminating() && self.first_terminal().is_some()))
    }
    fn pending_empty() -> Conn {
        Conn { ok: true, init_delay_ms: 0, items: vec![], ends: false }
    }
}

#[derive(Debug, Clone, Copy, PartialEq, Eq, Hash, Serialize, Deserialize)]
struct Policy {
    initial: u64,
    mult: u8,
    max: u64,
}

impl Policy {
    /// reference recurrence from the statement: wait after the (j+1)-th consecutive failure
    fn wait(&self, j: u32) -> u64 {
        let mut v: u128 = self.initial as u128;
        for _ in 0..j {
            v = v.saturating_mul(self.mult as u128);
            if v > self.max as u128 {
                break;
            }
        }
        v.min(self.max as u128) as u64
    }
    fn uncapped_exceeds(&self, j: u32) -> bool {
        let mut v: u128 = self.initial as u128;
        for _ in 0..j {
            v = v.saturating_mul(self.mult as u128);
        }
        v > self.max as u128
    }
}

#[derive(Debug, Clone, PartialEq, Eq, Hash, Serialize, Deserialize)]
struct Case {
    policy: Policy,
    variant: Variant,
    /// Merged variant only: items sent on the left (channel) input before consumption starts
    left_presend: u32,
    script: Vec<Conn>,
}

/// Bring a (possibly shrunk) case into the generated domain; idempotent.
fn normalize(mut c: Case) -> Case {
    if c.script.is_empty() {
        c.script.push(Conn::pending_empty());
    }
    for conn in c.script.iter_mut() {
        if !conn.ok {
            conn.items.clear();
            conn.ends = false;
        }
        conn.init_delay_ms = conn.init_delay_ms.min(MAX_INIT_DELAY);
        for it in conn.items.iter_mut() {
            it.0 = it.0.min(MAX_ITEM_DELAY);
        }
    }
    if !c.script[0].ok {
        c.script.truncate(1);
        return c;
    }
    let last = c.script.len() - 1;
    if !c.script[last].ok || c.script[last].closing(c.variant) {
        c.script.push(Conn::pending_empty());
    }
    let last = c.script.len() - 1;
    for (i, conn) in c.script.iter_mut().enumerate() {
        if i < last && conn.ok && !conn.closing(c.variant) {
            conn.ends = true;
        }
    }
    if c.variant != Variant::Merged {
        c.left_presend = 0;
    }
    c.policy.mult = c.policy.mult.clamp(1, 5);
    c.policy.initial = c.policy.initial.clamp(1, 1000);
    c.policy.max = c.policy.max.clamp(c.policy.initial, MAX_BACKOFF);
    c
}

// ------------------------------------------------------------------------------------------------
// Scripted connections + observation log

#[derive(Debug, Clone, Copy, PartialEq, Eq, Hash)]
struct Id {
    conn: u32,
    idx: u32,
}

/// A scripted connection error. Its CONTENT is its kind (`terminal`); `id` is the observer's tag saying which
/// scripted item it was. Equality / hashing look at the content only, as for two identical error payloads of
/// a venue: two soft errors in a row are EQUAL errors and both must be passed on / handled.
#[derive(Debug, Clone)]
struct ScriptErr {
    id: Id,
    terminal: bool,
}

impl PartialEq for ScriptErr {
    fn eq(&self, other: &Self) -> bool {
        self.terminal == other.terminal
    }
}
impl Eq for ScriptErr {}
impl std::hash::Hash for ScriptErr {
    fn hash<H: std::hash::Hasher>(&self, state: &mut H) {
        self.terminal.hash(state)
    }
}

impl ScriptErr {
    fn is_terminal(&self) -> bool {
        self.terminal
    }
}

#[derive(Debug, Clone, PartialEq, Eq, Hash)]
#[allow(dead_code)]
struct InitErr(u32);

type ConnStream = Pin<Box<dyn Stream<Item = Result<Id, ScriptErr>> + Send>>;

#[derive(Debug, Clone, Copy, PartialEq, Eq, Serialize)]
enum K {
    Ok,
    SoftDelivered,
    TermDelivered,
    SoftHandled,
    TermHandled,
    Notice,
    Left,
    /// the composed stream yielded `None`
    End,
    /// nothing for longer than the quiet gap (> max backoff + max delays + 1 virtual hour)
    Quiet,
}

#[derive(Debug, Clone, Copy, Serialize)]
struct Ev {
    k: K,
    conn: u32,
    idx: u32,
    at: u64,
}

#[derive(Debug, Clone, Copy, Serialize)]
struct Attempt {
    start: u64,
    done: Option<u64>,
    ok: bool,
}

struct Shared {
    script: Vec<Conn>,
    next: usize,
    attempts: Vec<Attempt>,
    beyond: u32,
    log: Vec<Ev>,
    t0: Instant,
    cap: usize,
    runaway: bool,
    policy: Policy,
    /// judged online (see `run_async`): (j, attempt index of the failed attempt, expected, observed)
    backoff_violation: Option<(u32, usize, u64, u64)>,
}

type Sh = Arc<Mutex<Shared>>;

fn now_ms(t0: Instant) -> u64 {
    (Instant::now() - t0).as_millis() as u64
}

fn push(sh: &Sh, k: K, id: Id) {
    let mut s = sh.lock().unwrap();
    let at = now_ms(s.t0);
    if s.log.len() >= s.cap {
        s.runaway = true;
        return;
    }
    s.log.push(Ev { k, conn: id.conn, idx: id.idx, at });
}

fn progress(sh: &Sh) -> (usize, usize, usize) {
    let s = sh.lock().unwrap();
    (s.log.len(), s.attempts.len(), s.attempts.iter().filter(|a| a.done.is_some()).count())
}

fn make_conn(k: u32, spec: Conn) -> ConnStream {
    let body = stream::iter(spec.items.into_iter().enumerate()).then(move |(i, (delay, kind))| async move {
        if delay > 0 {
            tokio::time::sleep(Duration::from_millis(delay)).await;
        }
        let id = Id { conn: k, idx: i as u32 };
        match kind {
            ItemKind::Ok => Ok(id),
            ItemKind::Soft => Err(ScriptErr { id, terminal: false }),
            ItemKind::Terminal => Err(ScriptErr { id, terminal: true }),
        }
    });
    if spec.ends { Box::pin(body) } else { Box::pin(body.chain(stream::pending())) }
}

trait ToEv {
    fn to_ev(self) -> (K, Id);
}

impl ToEv for Id {
    fn to_ev(self) -> (K, Id) {
        if self.conn == LEFT { (K::Left, self) } else { (K::Ok, self) }
    }
}

impl ToEv for Result<Id, ScriptErr> {
    fn to_ev(self) -> (K, Id) {
        match self {
            Ok(id) => id.to_ev(),
            Err(e) if e.terminal => (K::TermDelivered, e.id),
            Err(e) => (K::SoftDelivered, e.id),
        }
    }
}

fn record<X: ToEv>(sh: &Sh, ev: Event<&'static str, X>) {
    match ev {
        // idx 0 = origin as configured, 1 = a different origin came back
        Event::Reconnecting(o) => push(sh, K::Notice, Id { conn: 0, idx: if o == ORIGIN { 0 } else { 1 } }),
        Event::Item(x) => {
            let (k, id) = x.to_ev();
            push(sh, k, id)
        }
    }
}

fn record_handled(sh: &Sh, e: ScriptErr) {
    push(sh, if e.terminal { K::TermHandled } else { K::SoftHandled }, e.id)
}

/// Recording transmitter for `forward_to`.
struct RecTx<X> {
    sh: Sh,
    _p: PhantomData<fn(X)>,
}

impl<X> Clone for RecTx<X> {
    fn clone(&self) -> Self {
        Self { sh: self.sh.clone(), _p: PhantomData }
    }
}

impl<X> std::fmt::Debug for RecTx<X> {
    fn fmt(&self, f: &mut std::fmt::Formatter<'_>) -> std::fmt::Result {
        write!(f, "RecTx")
    }
}

#[derive(Debug, Clone, PartialEq, Eq, Hash)]
struct TxClosed;

impl Unrecoverable for TxClosed {
    fn is_unrecoverable(&self) -> bool {
        true
    }
}

impl<X: ToEv + 'static> Tx for RecTx<X> {
    type Item = Event<&'static str, X>;
    type Error = TxClosed;

    fn send<Item: Into<Self::Item>>(&self, item: Item) -> Result<(), Self::Error> {
        record(&self.sh, item.into());
        if self.sh.lock().unwrap().runaway { Err(TxClosed) } else { Ok(()) }
    }
}

async fn consume<S, X>(s: &mut Pin<Box<S>>, sh: &Sh, gap: Duration)
where
    S: Stream<Item = Event<&'static str, X>>,
    X: ToEv,
{
    loop {
        let before = progress(sh);
        match tokio::time::timeout(gap, s.next()).await {
            Err(_) => {
                // a run of failed init attempts may legitimately take longer than one gap in total:
                // quiet means no event AND no init attempt started/completed for a whole gap
                if progress(sh) != before {
                    continue;
                }
                push(sh, K::Quiet, Id { conn: 0, idx: 0 });
                break;
            }
            Ok(None) => {
                push(sh, K::End, Id { conn: 0, idx: 0 });
                break;
            }
            Ok(Some(ev)) => record(sh, ev),
        }
        if sh.lock().unwrap().runaway {
            break;
        }
    }
}

async fn drive_forward(fut: impl Future<Output = ()>, sh: &Sh, gap: Duration) {
    tokio::pin!(fut);
    loop {
        let before = progress(sh);
        tokio::select! {
            biased;
            _ = &mut fut => {
                // forward_to completes when the stream ended (or our Tx refused: runaway)
                if !sh.lock().unwrap().runaway {
                    push(sh, K::End, Id { conn: 0, idx: 0 });
                }
                break;
            }
            _ = tokio::time::sleep(gap) => {
                if progress(sh) == before {
                    push(sh, K::Quiet, Id { conn: 0, idx: 0 });
                    break;
                }
            }
        }
    }
}

#[derive(Debug, Clone)]
struct Outcome {
    init_err: bool,
    attempts: Vec<Attempt>,
    log: Vec<Ev>,
    beyond: u32,
    runaway: bool,
    backoff_violation: Option<(u32, usize, u64, u64)>,
    /// Merged variant: after the quiet period the left sender was dropped; did the stream end?
    merged_end: Option<bool>,
}

async fn run_async(case: &Case) -> Outcome {
    let t0 = Instant::now();
    let expected_events: usize = case.script.iter().map(|c| c.items.len() + 1).sum::<usize>() + case.left_presend as usize;
    let sh: Sh = Arc::new(Mutex::new(Shared {
        script: case.script.clone(),
        next: 0,
        attempts: vec![],
        beyond: 0,
        log: vec![],
        t0,
        cap: expected_events * 3 + 64,
        runaway: false,
        policy: case.policy,
        backoff_violation: None,
    }));
    let gap = Duration::from_millis(case.policy.max + MAX_INIT_DELAY + MAX_ITEM_DELAY + HOUR);
    let policy = ReconnectionBackoffPolicy::new(case.policy.initial, case.policy.mult, case.policy.max);
    let key = StreamKey::new("c12", ExchangeId::Mock, None);

    let init = {
        let sh = sh.clone();
        move || {
            let sh = sh.clone();
            async move {
                let (k, spec) = {
                    let mut s = sh.lock().unwrap();
                    let k = s.next;
                    s.next += 1;
                    let spec = s.script.get(k).cloned();
                    let start = now_ms(s.t0);
                    match &spec {
                        Some(sp) => s.attempts.push(Attempt { start, done: None, ok: sp.ok }),
                        None => s.beyond += 1,
                    }
                    // The wait after a failed attempt is judged here, online, and the run is
                    // parked (pending connection, no further library sleeps) on the first wrong
                    // wait: a wrong recurrence can otherwise ask tokio for sleeps beyond its
                    // documented maximum (2^36 ms), which breaks the paused timer wheel.
                    let mut spec = spec;
                    if spec.is_some() && k >= 1 && !s.script[k - 1].ok {
                        let fails = s.script[..k].iter().rev().take_while(|c| !c.ok).count() as u32;
                        let want = s.policy.wait(fails - 1);
                        let got = start - s.attempts[k - 1].done.unwrap_or(start);
                        if got != want {
                            s.backoff_violation = Some((fails - 1, k - 1, want, got));
                            s.attempts.pop();
                            spec = None;
                        }
                    }
                    (k, spec)
                };
                let Some(spec) = spec else {
                    // never reached on a correct tree: the script's last connection stays pending
                    let st: ConnStream = Box::pin(stream::pending());
                    return Ok(st);
                };
                if spec.init_delay_ms > 0 {
                    tokio::time::sleep(Duration::from_millis(spec.init_delay_ms)).await;
                }
                {
                    let mut s = sh.lock().unwrap();
                    let done = now_ms(s.t0);
                    s.attempts[k].done = Some(done);
                }
                if !spec.ok {
                    return Err(InitErr(k as u32));
                }
                Ok(make_conn(k as u32, spec))
            }
        }
    };

    let mut merged_end = None;
    let init_err = match init_reconnecting_stream(init).await {
        Err(_) => true,
        Ok(base) => {
            let base = base.with_reconnect_backoff::<ConnStream, InitErr>(policy, key);
            match case.variant {
                Variant::PassThrough => {
                    let s = base
                        .with_termination_on_error(|e: &ScriptErr| e.is_terminal(), key)
                        .with_reconnection_events(ORIGIN);
                    let mut s = Box::pin(s);
                    consume(&mut s, &sh, gap).await;
                }
                Variant::Handler => {
                    let h = sh.clone();
                    let s = base
                        .with_termination_on_error(|e: &ScriptErr| e.is_terminal(), key)
                        .with_reconnection_events(ORIGIN)
                        .with_error_handler(move |e: ScriptErr| record_handled(&h, e));
                    let mut s = Box::pin(s);
                    consume(&mut s, &sh, gap).await;
                }
                Variant::ForwardPass => {
                    let s = base
                        .with_termination_on_error(|e: &ScriptErr| e.is_terminal(), key)
                        .with_reconnection_events(ORIGIN);
                    let tx: RecTx<Result<Id, ScriptErr>> = RecTx { sh: sh.clone(), _p: PhantomData };
                    drive_forward(s.forward_to(tx), &sh, gap).await;
                }
                Variant::ForwardHandler => {
                    let h = sh.clone();
                    let s = base
                        .with_termination_on_error(|e: &ScriptErr| e.is_terminal(), key)
                        .with_reconnection_events(ORIGIN)
                        .with_error_handler(move |e: ScriptErr| record_handled(&h, e));
                    let tx: RecTx<Id> = RecTx { sh: sh.clone(), _p: PhantomData };
                    drive_forward(s.forward_to(tx), &sh, gap).await;
                }
                Variant::Merged => {
                    let (ltx, lrx) = mpsc_unbounded::<Event<&'static str, Result<Id, ScriptErr>>>();
                    for n in 0..case.left_presend {
                        let _ = Tx::send(&ltx, Event::Item(Ok(Id { conn: LEFT, idx: n })));
                    }
                    let s = merge(lrx.into_stream(), base.with_reconnection_events(ORIGIN));
                    let mut s = Box::pin(s);
                    consume(&mut s, &sh, gap).await;
                    let quiet = matches!(sh.lock().unwrap().log.last(), Some(Ev { k: K::Quiet, .. }));
                    if quiet {
                        drop(ltx);
                        merged_end = Some(matches!(tokio::time::timeout(gap, s.next()).await, Ok(None)));
                    }
                }
            }
            false
        }
    };
    let s = sh.lock().unwrap();
    Outcome { init_err, attempts: s.attempts.clone(), log: s.log.clone(), beyond: s.beyond, runaway: s.runaway, backoff_violation: s.backoff_violation, merged_end }
}

fn execute_case(case: &Case) -> Result<Outcome, String> {
    catch(|| {
        let rt = tokio::runtime::Builder::new_current_thread().enable_time().start_paused(true).build().expect("runtime");
        rt.block_on(run_async(case))
    })
}

// ------------------------------------------------------------------------------------------------
// Oracle

#[derive(Default)]
struct Facts {
    cells: Vec<String>,
    checks: u64,
    events: u64,
    nontrivial: bool,
}

type Verdict = Result<(), (&'static str, String)>;

fn excerpt(out: &Outcome) -> String {
    let evs: Vec<String> = out
        .log
        .iter()
        .take(60)
        .map(|e| match e.k {
            K::Notice => format!("R@{}", e.at),
            K::End => format!("END@{}", e.at),
            K::Quiet => format!("quiet@{}", e.at),
            k => format!("{k:?}({},{})@{}", if e.conn == LEFT { -1 } else { e.conn as i64 }, e.idx, e.at),
        })
        .collect();
    let att: Vec<String> =
        out.attempts.iter().take(40).map(|a| format!("{}..{}{}", a.start, a.done.map(|d| d.to_string()).unwrap_or("?".into()), if a.ok { "+" } else { "-" })).collect();
    format!("log=[{}] attempts=[{}]", evs.join(" "), att.join(" "))
}

fn judge(case: &Case, out: &Outcome, facts: &mut Facts) -> Verdict {
    let script = &case.script;
    let variant = case.variant;
    let term = variant.terminating();
    facts.events = (out.log.len() + out.attempts.len()) as u64;
    let bad = |sig: &'static str, what: String| -> Verdict { Err((sig, format!("{what}; {}", excerpt(out)))) };

    // ---- initial attempt fails: Err and nothing else
    if !script[0].ok {
        facts.checks += 2;
        if !out.init_err {
            return bad("initial_failure_not_reported", "first init attempt failed but init_reconnecting_stream returned Ok".into());
        }
        if !out.log.is_empty() || out.attempts.len() != 1 || out.beyond > 0 {
            return bad("activity_after_initial_failure", format!("expected exactly one attempt and nothing delivered, got {} attempts", out.attempts.len() + out.beyond as usize));
        }
        facts.cells.push("initial_attempt_failure_returns_err".into());
        return Ok(());
    }
    facts.checks += 1;
    if out.init_err {
        return bad("initial_success_reported_as_error", "first init attempt succeeded but init_reconnecting_stream returned Err".into());
    }

    // ---- expected deliverables per successfully initialised connection
    struct Exp {
        conn: u32,
        deliver: Vec<(u32, ItemKind)>,
        terminal_at: Option<u32>,
    }
    let mut succ: Vec<Exp> = vec![];
    let mut seg_of: BTreeMap<u32, usize> = BTreeMap::new();
    for (c, conn) in script.iter().enumerate() {
        if !conn.ok {
            continue;
        }
        let terminal_at = if term { conn.first_terminal().map(|i| i as u32) } else { None };
        let upto = terminal_at.map(|t| t as usize).unwrap_or(conn.items.len());
        let deliver = conn.items[..upto].iter().enumerate().map(|(i, (_, k))| (i as u32, *k)).collect();
        seg_of.insert(c as u32, succ.len());
        succ.push(Exp { conn: c as u32, deliver, terminal_at });
    }

    // ---- pass 1: every observed event, in order
    let mut seg = 0usize;
    let mut notices = 0usize;
    let mut seen: HashSet<(u32, u32)> = HashSet::new();
    let mut obs: Vec<Vec<(u32, ItemKind)>> = vec![vec![]; succ.len()];
    let mut next_left = 0u32;
    let mut last_at = 0u64;
    for (pos, ev) in out.log.iter().enumerate() {
        facts.checks += 1;
        if ev.at < last_at {
            return bad("receive_time_went_back", format!("event #{pos} stamped {} after {}", ev.at, last_at));
        }
        last_at = ev.at;
        match ev.k {
            K::Quiet => {}
            K::End => {
                return bad("stream_ended", format!("the composed stream yielded None at t={} (it must never end by itself)", ev.at));
            }
            K::Left => {
                if ev.idx != next_left {
                    return bad("merge_input_order_not_preserved", format!("left input item {} observed where {} was next", ev.idx, next_left));
                }
                next_left += 1;
            }
            K::Notice => {
                if ev.idx != 0 {
                    return bad("reconnecting_notice_wrong_origin", "notice carries an origin other than the configured one".into());
                }
                notices += 1;
                seg += 1;
                if seg >= succ.len() {
                    return bad(
                        "reconnecting_notice_unexpected",
                        format!("notice #{notices} observed at t={} but only {} connections ended", ev.at, succ.len() - 1),
                    );
                }
            }
            K::Ok | K::SoftDelivered | K::TermDelivered | K::SoftHandled | K::TermHandled => {
                let kind = match ev.k {
                    K::Ok => ItemKind::Ok,
                    K::SoftDelivered | K::SoftHandled => ItemKind::Soft,
                    _ => ItemKind::Terminal,
                };
                let Some(&s) = seg_of.get(&ev.conn) else {
                    return bad("item_from_failed_or_unknown_connection", format!("event ({},{}) does not belong to a successfully initialised connection", ev.conn, ev.idx));
                };
                match script[ev.conn as usize].items.get(ev.idx as usize) {
                    Some((_, k)) if *k == kind => {}
                    _ => return bad("unknown_item_delivered", format!("event ({},{}) {:?} is not in the script", ev.conn, ev.idx, ev.k)),
                }
                if !seen.insert((ev.conn, ev.idx)) {
                    return bad("item_duplicated", format!("({},{}) observed twice", ev.conn, ev.idx));
                }
                if s < seg {
                    return bad(
                        "item_after_its_reconnecting_notice",
                        format!("({},{}) observed after the notice that closed connection {}", ev.conn, ev.idx, ev.conn),
                    );
                }
                if s > seg {
                    return bad(
                        "reconnecting_notice_missing",
                        format!("({},{}) observed before a notice for connection {}", ev.conn, ev.idx, succ[seg].conn),
                    );
                }
                if let Some(t) = succ[s].terminal_at {
                    if ev.idx > t {
                        return bad("item_after_terminal_error", format!("({},{}) observed although connection {} hit a terminal error at index {t}", ev.conn, ev.idx, ev.conn));
                    }
                }
                if let Some((last, _)) = obs[s].last() {
                    if ev.idx <= *last {
                        return bad("item_reordered", format!("({},{}) observed after ({},{})", ev.conn, ev.idx, ev.conn, last));
                    }
                }
                obs[s].push((ev.idx, kind));
            }
        }
    }
    if out.runaway {
        return bad("unexpected_extra_events", "more events than three times the script's content".into());
    }
    if let Some((j, k, want, got)) = out.backoff_violation {
        let sig = if j == 0 { "backoff_first_wait_wrong" } else { "backoff_growth_or_cap_wrong" };
        return bad(
            sig,
            format!(
                "wait after consecutive failure #{} (attempt {k}): expected min({}*{}^{j},{}) = {want} ms, observed {got} ms (run parked there)",
                j + 1,
                case.policy.initial,
                case.policy.mult,
                case.policy.max
            ),
        );
    }
    facts.checks += 1;
    if !matches!(out.log.last(), Some(Ev { k: K::Quiet, .. })) {
        return Err(("harness_no_quiet_marker", format!("log does not end in a quiet marker; {}", excerpt(out))));
    }

    // ---- pass 2: completeness of every connection that was started
    for s in 0..=seg.min(succ.len() - 1) {
        facts.checks += 1;
        let e = &succ[s];
        // the terminal error itself may or may not be passed on ("up to ... first terminal error")
        let o: Vec<(u32, ItemKind)> = obs[s].iter().copied().filter(|(i, _)| Some(*i) != e.terminal_at).collect();
        if o == e.deliver {
            continue;
        }
        // o is an in-order duplicate-free subset of e.deliver (pass 1)
        let missing: Vec<(u32, ItemKind)> = e.deliver.iter().copied().filter(|x| !o.contains(x)).collect();
        let is_prefix = e.deliver.starts_with(&o);
        let what = format!("connection {}: expected {:?}, observed {:?}", e.conn, e.deliver, obs[s]);
        if is_prefix && e.deliver[o.len()].1 == ItemKind::Soft {
            return bad("non_terminal_error_ended_connection", what);
        }
        if missing.iter().all(|(_, k)| *k == ItemKind::Soft) {
            return bad("non_terminal_error_lost", what);
        }
        if is_prefix {
            return bad("connection_cut_short", what);
        }
        return bad("item_missing", what);
    }
    facts.checks += 3;
    if out.beyond > 0 {
        return bad("reconnect_attempt_while_connection_alive", format!("{} init attempts beyond the script although its last connection never ended", out.beyond));
    }
    if seg + 1 < succ.len() {
        // the connection of segment `seg` should have ended and been followed by a notice
        if out.attempts.len() > succ[seg].conn as usize + 1 {
            return bad("reconnecting_notice_missing", format!("connection {} ended and a new attempt was made, but no notice was observed", succ[seg].conn));
        }
        return bad("stream_stalled", format!("connection {} was due to end but nothing followed for the whole quiet gap", succ[seg].conn));
    }
    if out.attempts.len() != script.len() {
        return bad("stream_stalled", format!("{} init attempts observed, script has {}", out.attempts.len(), script.len()));
    }
    if variant == Variant::Merged {
        facts.checks += 2;
        if next_left != case.left_presend {
            return bad("merge_item_not_delivered", format!("{} left items sent, {} observed", case.left_presend, next_left));
        }
        if out.merged_end != Some(true) {
            return bad("merge_not_ended_after_input_closed", "left input closed after the quiet period but the merged stream did not end".into());
        }
    }

    // ---- timing of the init attempts (virtual clock, exact)
    let mut fails_in_row = 0u32;
    let mut max_fail_run = 0u32;
    let mut cap_reached = false;
    let mut cur_run_grew = false; // the current failure run had a wait > initial
    let mut past_run_grew = false; // a failure run that was ended by a success had a wait > initial
    let mut reset_seen = false;
    let mut huge_wait = false;
    for k in 0..out.attempts.len() {
        let a = &out.attempts[k];
        if a.ok != script[k].ok || a.done.is_none() {
            return Err(("harness_attempt_log_inconsistent", excerpt(out)));
        }
        if k == 0 {
            continue;
        }
        facts.checks += 1;
        let prev = &script[k - 1];
        let prev_done = out.attempts[k - 1].done.unwrap();
        if !prev.ok {
            let j = fails_in_row - 1;
            let want = case.policy.wait(j);
            let got = a.start - prev_done;
            if got != want {
                let sig = if j == 0 { "backoff_first_wait_wrong" } else { "backoff_growth_or_cap_wrong" };
                return bad(
                    sig,
                    format!(
                        "wait after consecutive failure #{} (attempt {}): expected min({}*{}^{j},{}) = {want} ms, observed {got} ms",
                        j + 1,
                        k - 1,
                        case.policy.initial,
                        case.policy.mult,
                        case.policy.max
                    ),
                );
            }
            if j >= 1 && case.policy.uncapped_exceeds(j) {
                cap_reached = true;
            }
            if want > case.policy.initial {
                cur_run_grew = true;
            }
            if want >= MAX_BACKOFF / 2 {
                huge_wait = true;
            }
            if j == 0 && past_run_grew {
                reset_seen = true;
            }
        } else {
            // previous connection ended: the next attempt follows at once
            let upto = if term { prev.first_terminal().map(|t| t + 1).unwrap_or(prev.items.len()) } else { prev.items.len() };
            let want = prev_done + prev.items[..upto].iter().map(|(d, _)| *d).sum::<u64>();
            if a.start != want {
                return bad(
                    "reconnect_delayed_after_connection_end",
                    format!("connection {} ended at t={want} ms; next init attempt expected then, observed at t={} ms", k - 1, a.start),
                );
            }
        }
        if script[k].ok {
            fails_in_row = 0;
            past_run_grew |= cur_run_grew;
            cur_run_grew = false;
        } else {
            fails_in_row += 1;
            max_fail_run = max_fail_run.max(fails_in_row);
        }
    }

    // ---- coverage facts (only of runs that were judged in full)
    let cells = &mut facts.cells;
    cells.push(format!("variant:{}", variant.name()));
    let delivered: usize = obs.iter().map(|o| o.len()).sum();
    facts.nontrivial = out.attempts.len() >= 3 && notices >= 1 && delivered >= 3;
    let last = script.len() - 1;
    for (c, conn) in script.iter().enumerate() {
        if !conn.ok {
            continue;
        }
        let ft = if term { conn.first_terminal() } else { None };
        if c < last && ft.is_none() {
            cells.push("connection_ends_normally".into());
        }
        if conn.items.is_empty() {
            cells.push(if c < last { "empty_connection_ends".into() } else { "empty_final_connection".into() });
        }
        if let Some(t) = ft {
            if t + 1 < conn.items.len() {
                cells.push(if t > 0 { "terminal_error_mid_connection_items_after_dropped".into() } else { "terminal_error_first_items_after_dropped".into() });
            }
            if !conn.ends {
                cells.push("terminal_error_on_otherwise_pending_connection".into());
            }
        }
        let upto = ft.unwrap_or(conn.items.len());
        if let Some(p) = conn.items[..upto].iter().position(|(_, k)| *k == ItemKind::Soft) {
            if variant == Variant::Merged {
                cells.push("merged_errors_are_plain_items".into());
            } else if variant.handler() {
                cells.push("non_terminal_error_handled".into());
            } else {
                cells.push("non_terminal_error_passed_through".into());
            }
            if p + 1 < upto {
                cells.push("items_continue_after_non_terminal_error".into());
            }
        }
        if conn.items.iter().any(|(d, _)| *d > 0) || conn.init_delay_ms > 0 {
            cells.push("scripted_virtual_delays".into());
        }
    }
    if max_fail_run >= 1 {
        cells.push("init_failure_then_retry".into());
    }
    if max_fail_run >= 3 {
        cells.push("init_failures_consecutive_ge3".into());
    }
    if cap_reached {
        cells.push("backoff_cap_reached".into());
    }
    if case.policy.mult == 1 && max_fail_run >= 2 {
        cells.push("multiplier_1_constant_backoff".into());
    }
    if reset_seen {
        cells.push("success_resets_backoff".into());
    }
    if huge_wait {
        cells.push("huge_wait_2pow34ms_or_more".into());
    }
    if variant == Variant::Merged && case.left_presend > 0 {
        cells.push("merged_left_items_interleaved".into());
    }
    Ok(())
}

fn run_and_judge(case: &Case, facts: &mut Facts) -> Verdict {
    match execute_case(case) {
        Err(msg) => Err(("panic_in_reconnecting_stream", format!("panic: {msg}"))),
        Ok(out) => judge(case, &out, facts),
    }
}

fn shrink_case(case: &Case, sig: &'static str) -> Case {
    let fails = |c: &Case| {
        let c = normalize(c.clone());
        // keep the witness in the same class (initial failure vs not)
        if c.script[0].ok != case.script[0].ok {
            return false;
        }
        matches!(run_and_judge(&c, &mut Facts::default()), Err((s, _)) if s == sig)
    };
    let mut cur = case.clone();
    let script = shrink(&cur.script, |cand| fails(&Case { script: cand.to_vec(), ..cur.clone() }));
    cur.script = script;
    for i in 0..cur.script.len() {
        let items = shrink(&cur.script[i].items, |cand| {
            let mut c = cur.clone();
            c.script[i].items = cand.to_vec();
            fails(&c)
        });
        cur.script[i].items = items;
    }
    // drop delays if they do not matter
    let mut c = cur.clone();
    for conn in c.script.iter_mut() {
        conn.init_delay_ms = 0;
        for it in conn.items.iter_mut() {
            it.0 = 0;
        }
    }
    if fails(&c) {
        cur = c;
    }
    let mut c = cur.clone();
    c.left_presend = 0;
    if fails(&c) {
        cur = c;
    }
    let cur = normalize(cur);
    if fails(&cur) { cur } else { case.clone() }
}

fn execute_reconnect(case: &Case, report: &mut Report, do_shrink: bool) {
    let mut facts = Facts::default();
    let res = run_and_judge(case, &mut facts);
    report.events_observed += facts.events;
    report.oracle_checks += facts.checks;
    for c in &facts.cells {
        report.cover(c);
    }
    let h = fnv1a(serde_json::to_string(case).unwrap().as_bytes());
    report.case(h, facts.nontrivial);
    if facts.nontrivial && case.script.len() >= 4 {
        report.sample(|| json!({"kind": "reconnect", "case": case}));
    }
    if let Err((sig, detail)) = res {
        if sig.starts_with("harness_") {
            report.harness_errors.push(format!("{sig}: {detail}"));
            return;
        }
        let (small, detail) = if do_shrink {
            let small = shrink_case(case, sig);
            let d = match run_and_judge(&small, &mut Facts::default()) {
                Err((_, d)) => d,
                Ok(()) => detail,
            };
            (small, d)
        } else {
            (case.clone(), detail)
        };
        report.violation(sig, detail, json!({"kind": "reconnect", "case": small}));
    }
}

// ------------------------------------------------------------------------------------------------
// Reconnect generators

fn gen_items(rng: &mut Rng, delays: bool, allow_terminal: bool) -> Vec<(u64, ItemKind)> {
    let n = if rng.chance(1, 6) {
        0
    } else if rng.chance(2, 3) {
        rng.range_u(1, 5)
    } else {
        rng.range_u(1, 20)
    };
    (0..n)
        .map(|_| {
            let kind = match rng.below(100) {
                0..=71 => ItemKind::Ok,
                72..=86 => ItemKind::Soft,
                _ if allow_terminal => ItemKind::Terminal,
                _ => ItemKind::Soft,
            };
            let delay = if delays && rng.chance(1, 3) { rng.range(1, MAX_ITEM_DELAY as i64) as u64 } else { 0 };
            (delay, kind)
        })
        .collect()
}

fn gen_policy(rng: &mut Rng) -> Policy {
    let initial = match rng.below(6) {
        0 => 1,
        1 => 1000,
        _ => rng.range(1, 1000) as u64,
    };
    let mult = match rng.below(8) {
        0 | 1 => 1,
        2 | 3 => 2,
        _ => rng.range(1, 5) as u8,
    };
    let max = match rng.below(6) {
        0 => initial,
        1 => initial * rng.range(1, 30) as u64,
        2 => MAX_BACKOFF,
        3 => {
            // log-uniform in [initial, MAX_BACKOFF]
            let bits = rng.range(0, 35) as u32;
            (initial.max(1u64 << bits) + rng.below(1u64 << bits)).min(MAX_BACKOFF)
        }
        4 => initial * (mult as u64).pow(rng.range(1, 4) as u32),
        _ => initial * (mult as u64).pow(rng.range(1, 3) as u32) + rng.below(initial.max(2)),
    };
    Policy { initial, mult, max: max.clamp(initial, MAX_BACKOFF) }
}

fn gen_case(rng: &mut Rng, fixed_conns: Option<usize>) -> Case {
    let variant = match rng.below(100) {
        0..=27 => Variant::PassThrough,
        28..=52 => Variant::Handler,
        53..=66 => Variant::ForwardPass,
        67..=79 => Variant::ForwardHandler,
        _ => Variant::Merged,
    };
    let policy = gen_policy(rng);
    let n = fixed_conns.unwrap_or_else(|| if rng.bool() { rng.range_u(1, 6) } else { rng.range_u(1, 30) });
    let p_fail = *rng.pick(&[5u64, 25, 60]);
    let delays = rng.bool();
    let mut script = Vec::with_capacity(n);
    if rng.chance(3, 100) {
        script.push(Conn { ok: false, init_delay_ms: if delays { rng.below(MAX_INIT_DELAY + 1) } else { 0 }, items: vec![], ends: false });
        return normalize(Case { policy, variant, left_presend: 0, script });
    }
    for c in 0..n {
        let init_delay_ms = if delays && rng.chance(1, 3) { rng.range(1, MAX_INIT_DELAY as i64) as u64 } else { 0 };
        let last = c + 1 == n;
        if c > 0 && !last && rng.below(100) < p_fail {
            script.push(Conn { ok: false, init_delay_ms, items: vec![], ends: false });
        } else {
            let items = gen_items(rng, delays, !last);
            let ends = if last { false } else { !rng.chance(1, 4) };
            script.push(Conn { ok: true, init_delay_ms, items, ends });
        }
    }
    let left_presend = if variant == Variant::Merged { rng.below(5) as u32 } else { 0 };
    normalize(Case { policy, variant, left_presend, script })
}

/// A few hand-built scripts so that the coverage floor never depends on the random draw.
fn fixed_cases() -> Vec<Case> {
    let ok = |items: Vec<(u64, ItemKind)>, ends: bool| Conn { ok: true, init_delay_ms: 0, items, ends };
    let fail = || Conn { ok: false, init_delay_ms: 0, items: vec![], ends: false };
    use ItemKind::{Ok as I, Soft as S, Terminal as T};
    let mut v = vec![];
    for variant in [Variant::PassThrough, Variant::Handler, Variant::ForwardPass, Variant::ForwardHandler, Variant::Merged] {
        // ends normally; soft error mid-way; terminal mid-connection with items after; 4 failures
        // (cap reached); success; 1 failure (reset); pending tail
        let script = vec![
            ok(vec![(0, I), (0, S), (0, I)], true),
            ok(vec![(0, I), (7, T), (0, I), (0, I)], false),
            fail(),
            fail(),
            fail(),
            fail(),
            ok(vec![(3, I)], true),
            fail(),
            ok(vec![(0, I), (0, S)], false),
        ];
        v.push(normalize(Case { policy: Policy { initial: 100, mult: 2, max: 350 }, variant, left_presend: 2, script: script.clone() }));
        v.push(normalize(Case { policy: Policy { initial: 5, mult: 1, max: 5 }, variant, left_presend: 0, script: script.clone() }));
        v.push(normalize(Case { policy: Policy { initial: 1000, mult: 5, max: MAX_BACKOFF }, variant, left_presend: 1, script }));
    }
    // 16 failures in a row under 1000 ms x5 capped at 2^35 ms: the last waits are 2^35 ms (~398 days) each
    let mut long = vec![ok(vec![(0, I)], true)];
    long.extend((0..16).map(|_| fail()));
    long.push(ok(vec![(0, I)], false));
    v.push(normalize(Case { policy: Policy { initial: 1000, mult: 5, max: MAX_BACKOFF }, variant: Variant::Handler, left_presend: 0, script: long }));
    v.push(normalize(Case { policy: Policy { initial: 10, mult: 2, max: 100 }, variant: Variant::PassThrough, left_presend: 0, script: vec![fail()] }));
    v
}

// ------------------------------------------------------------------------------------------------
// Merge

#[derive(Debug, Clone, Copy, PartialEq, Eq, Hash, Serialize, Deserialize)]
enum MA {
    SendL,
    SendR,
    CloseL,
    CloseR,
    /// poll the merged stream once
    Poll,
}

#[derive(Debug, Clone, Copy, PartialEq, Eq, Hash, Serialize, Deserialize)]
enum Mode {
    /// after every action poll until Pending / None
    DrainEach,
    /// after every action poll exactly once
    PollOnceEach,
    /// only the explicit `Poll` actions; drain at the very end
    DrainEnd,
}

#[derive(Debug, Clone, PartialEq, Eq, Hash, Serialize, Deserialize)]
struct MergeCase {
    actions: Vec<MA>,
    mode: Mode,
    /// feed `UnboundedRx` itself (its own Stream impl) instead of `into_stream()`
    raw_rx: bool,
}

#[derive(Default)]
struct MergeFacts {
    cells: Vec<&'static str>,
    checks: u64,
    events: u64,
    undelivered_other: u64,
    nontrivial: bool,
}

struct MergeRun {
    merged: Pin<Box<dyn Stream<Item = (u8, u32)>>>,
    sent: [u32; 2],
    got: [u32; 2],
    closed: [bool; 2],
    close_order: Vec<u8>,
    ended: bool,
    order: Vec<u8>,
}

enum Polled {
    Item,
    End,
    Pending,
}

impl MergeRun {
    fn poll_once(&mut self, facts: &mut MergeFacts) -> Result<Polled, (&'static str, String)> {
        let waker = futures::task::noop_waker_ref();
        let mut cx = Context::from_waker(waker);
        facts.checks += 1;
        facts.events += 1;
        match self.merged.as_mut().poll_next(&mut cx) {
            Poll::Ready(Some((side, n))) => {
                let s = side as usize;
                let name = if s == 0 { "left" } else { "right" };
                if self.ended {
                    return Err(("merge_item_after_end", format!("{name} item {n} yielded after the merged stream had ended")));
                }
                if n != self.got[s] || n >= self.sent[s] {
                    return Err(("merge_input_order_not_preserved", format!("{name} item {n} yielded where item {} was next ({} sent)", self.got[s], self.sent[s])));
                }
                self.got[s] += 1;
                self.order.push(side);
                Ok(Polled::Item)
            }
            Poll::Ready(None) => {
                if !self.ended {
                    let l_done = self.closed[0] && self.got[0] == self.sent[0];
                    let r_done = self.closed[1] && self.got[1] == self.sent[1];
                    if !(l_done || r_done) {
                        return Err((
                            "merge_ended_early",
                            format!(
                                "merged stream ended although no ended input had all of its items yielded (left closed={} {}/{}, right closed={} {}/{})",
                                self.closed[0], self.got[0], self.sent[0], self.closed[1], self.got[1], self.sent[1]
                            ),
                        ));
                    }
                    self.ended = true;
                }
                Ok(Polled::End)
            }
            Poll::Pending => {
                if self.ended {
                    return Err(("merge_not_fused", "Pending after the merged stream had yielded None".into()));
                }
                if self.closed[0] || self.closed[1] {
                    return Err(("merge_not_ended_after_input_closed", format!("an input has ended (left={}, right={}) but the merged stream is Pending instead of ending", self.closed[0], self.closed[1])));
                }
                if self.got != self.sent {
                    return Err(("merge_item_not_delivered", format!("both inputs alive, merged stream Pending, but only {:?} of {:?} items yielded", self.got, self.sent)));
                }
                Ok(Polled::Pending)
            }
        }
    }

    fn drain(&mut self, facts: &mut MergeFacts) -> Result<(), (&'static str, String)> {
        let mut ends = 0;
        loop {
            match self.poll_once(facts)? {
                Polled::Item => {}
                Polled::Pending => return Ok(()),
                Polled::End => {
                    ends += 1;
                    if ends >= 2 {
                        return Ok(()); // polled once more after None: still None (fused)
                    }
                }
            }
        }
    }
}

fn run_merge(case: &MergeCase, facts: &mut MergeFacts) -> Result<(), (&'static str, String)> {
    let (ltx, lrx) = mpsc_unbounded::<(u8, u32)>();
    let (rtx, rrx) = mpsc_unbounded::<(u8, u32)>();
    let merged: Pin<Box<dyn Stream<Item = (u8, u32)>>> =
        if case.raw_rx { Box::pin(merge(lrx, rrx)) } else { Box::pin(merge(lrx.into_stream(), rrx.into_stream())) };
    let mut txs: [Option<UnboundedTx<(u8, u32)>>; 2] = [Some(ltx), Some(rtx)];
    let mut run = MergeRun { merged, sent: [0, 0], got: [0, 0], closed: [false, false], close_order: vec![], ended: false, order: vec![] };
    for a in &case.actions {
        match a {
            MA::SendL | MA::SendR => {
                let s = if *a == MA::SendL { 0 } else { 1 };
                if let Some(tx) = &txs[s] {
                    // the receiver half lives inside the merged stream; a send error only means the
                    // stream already ended and dropped it, which is permitted
                    if Tx::send(tx, (s as u8, run.sent[s])).is_ok() {
                        run.sent[s] += 1;
                    }
                }
            }
            MA::CloseL | MA::CloseR => {
                let s = if *a == MA::CloseL { 0 } else { 1 };
                if txs[s].take().is_some() {
                    run.closed[s] = true;
                    run.close_order.push(s as u8);
                }
            }
            MA::Poll => {
                run.poll_once(facts)?;
            }
        }
        match case.mode {
            Mode::DrainEach => run.drain(facts)?,
            Mode::PollOnceEach if *a != MA::Poll => {
                run.poll_once(facts)?;
            }
            _ => {}
        }
    }
    run.drain(facts)?;
    facts.checks += 1;
    if (run.closed[0] || run.closed[1]) && !run.ended {
        return Err(("merge_not_ended_after_input_closed", "input closed but merged stream never ended".into()));
    }
    // coverage facts
    if run.ended {
        match run.close_order.first() {
            Some(0) => facts.cells.push("merge:left_closes_first"),
            Some(_) => facts.cells.push("merge:right_closes_first"),
            None => {}
        }
        if run.close_order.len() == 2 {
            facts.cells.push("merge:both_inputs_closed");
        }
        let und = (run.sent[0] - run.got[0]) + (run.sent[1] - run.got[1]);
        if und > 0 {
            facts.undelivered_other += und as u64;
            facts.cells.push("merge:ended_with_other_input_items_unyielded");
        }
    } else {
        facts.cells.push("merge:both_alive_all_delivered");
    }
    if run.got[0] >= 2 && run.got[1] >= 2 {
        facts.cells.push("merge:both_orders_preserved");
        if run.order.windows(2).filter(|w| w[0] != w[1]).count() >= 2 {
            facts.cells.push("merge:outputs_interleaved");
        }
    }
    facts.cells.push(match case.mode {
        Mode::DrainEach => "merge:mode_drain_each",
        Mode::PollOnceEach => "merge:mode_poll_once_each",
        Mode::DrainEnd => "merge:mode_drain_end",
    });
    facts.cells.push(if case.raw_rx { "merge:input_unbounded_rx" } else { "merge:input_receiver_stream" });
    facts.nontrivial = case.actions.len() >= 4 && run.sent[0] >= 1 && run.sent[1] >= 1;
    Ok(())
}

fn execute_merge(case: &MergeCase, report: &mut Report) {
    let mut facts = MergeFacts::default();
    let res = match catch(|| run_merge(case, &mut facts)) {
        Ok(r) => r,
        Err(msg) => Err(("panic_in_merge", format!("panic: {msg}"))),
    };
    report.events_observed += facts.events;
    report.oracle_checks += facts.checks;
    for c in &facts.cells {
        report.cover(c);
    }
    if facts.undelivered_other > 0 {
        report.info("merge_other_input_items_unyielded_at_end (permitted)", facts.undelivered_other);
    }
    report.case(fnv1a(serde_json::to_string(case).unwrap().as_bytes()), facts.nontrivial);
    if facts.nontrivial && case.actions.len() >= 6 {
        report.sample(|| json!({"kind": "merge", "case": case}));
    }
    if let Err((sig, detail)) = res {
        let fails = |acts: &[MA]| {
            let c = MergeCase { actions: acts.to_vec(), ..case.clone() };
            matches!(catch(|| run_merge(&c, &mut MergeFacts::default())), Ok(Err((s, _))) if s == sig)
        };
        let small = if sig == "panic_in_merge" { case.actions.clone() } else { shrink(&case.actions, fails) };
        let small = MergeCase { actions: small, ..case.clone() };
        let detail = match catch(|| run_merge(&small, &mut MergeFacts::default())) {
            Ok(Err((_, d))) => d,
            _ => detail,
        };
        report.violation(sig, detail, json!({"kind": "merge", "case": small}));
    }
}

fn well_formed(actions: &[MA]) -> bool {
    let mut closed = [false, false];
    for a in actions {
        match a {
            MA::SendL if closed[0] => return false,
            MA::SendR if closed[1] => return false,
            MA::CloseL if closed[0] => return false,
            MA::CloseR if closed[1] => return false,
            MA::CloseL => closed[0] = true,
            MA::CloseR => closed[1] = true,
            _ => {}
        }
    }
    true
}

/// All well-formed words of length 0..=max_len over {SendL, SendR, CloseL, CloseR}, strided.
fn enumerate_merge(max_len: usize, from: usize, step: usize, mut f: impl FnMut(&MergeCase)) -> u64 {
    const ALPHA: [MA; 4] = [MA::SendL, MA::SendR, MA::CloseL, MA::CloseR];
    let mut counter = 0usize;
    let mut total = 0u64;
    for len in 0..=max_len {
        let n = 4usize.pow(len as u32);
        for x in 0..n {
            let mut word = Vec::with_capacity(len);
            let mut y = x;
            for _ in 0..len {
                word.push(ALPHA[y % 4]);
                y /= 4;
            }
            if !well_formed(&word) {
                continue;
            }
            for mode in [Mode::DrainEach, Mode::PollOnceEach, Mode::DrainEnd] {
                for raw_rx in [false, true] {
                    total += 1;
                    if counter % step == from {
                        f(&MergeCase { actions: word.clone(), mode, raw_rx });
                    }
                    counter += 1;
                }
            }
        }
    }
    total
}

fn gen_merge(rng: &mut Rng) -> MergeCase {
    let len = rng.range_u(7, 40);
    let p_close = rng.range(0, 8) as u64;
    let mut actions = Vec::with_capacity(len);
    let mut closed = [false, false];
    while actions.len() < len {
        let a = match rng.below(100) {
            x if x < p_close => {
                if rng.bool() { MA::CloseL } else { MA::CloseR }
            }
            x if x < 40 => MA::Poll,
            x if x < 70 => MA::SendL,
            _ => MA::SendR,
        };
        match a {
            MA::SendL | MA::CloseL if closed[0] => continue,
            MA::SendR | MA::CloseR if closed[1] => continue,
            MA::CloseL => closed[0] = true,
            MA::CloseR => closed[1] = true,
            _ => {}
        }
        actions.push(a);
        if closed[0] && closed[1] {
            break;
        }
    }
    MergeCase { actions, mode: *rng.pick(&[Mode::DrainEach, Mode::PollOnceEach, Mode::DrainEnd, Mode::DrainEnd]), raw_rx: rng.bool() }
}

// ------------------------------------------------------------------------------------------------

// ------------------------------------------------------------------------------------------------
// Consumer stage: the composition users actually call. `init_market_stream(policy, subscriptions)` is
// driven with a scripted in-memory exchange (own `Connector` + `StreamSelector` whose `MarketStream::init`
// succeeds / fails as scripted and stamps the virtual instant of every attempt): the waits between failed
// re-initialisations must follow THE CALLER'S policy, every connection's items arrive, one notice per drop.

mod consumer_stage {
    use super::Policy;
    use async_trait::async_trait;
    use barter_data::{
        Identifier, MarketStream, NoInitialSnapshots, SnapshotFetcher,
        error::DataError,
        event::MarketEvent,
        exchange::{Connector, StreamSelector, binance::subscription::BinanceSubResponse, subscription::ExchangeSub},
        streams::{consumer::init_market_stream, reconnect::{Event, stream::ReconnectionBackoffPolicy}},
        subscriber::{WebSocketSubscriber, validator::WebSocketSubValidator},
        subscription::{Subscription, trade::{PublicTrade, PublicTrades}},
    };
    use barter_instrument::{Side, exchange::ExchangeId, instrument::market_data::{MarketDataInstrument, kind::MarketDataInstrumentKind}};
    use barter_integration::{error::SocketError, protocol::websocket::WsMessage};
    use futures::{Stream, StreamExt};
    use serde::{Deserialize, Serialize};
    use std::{collections::{HashMap, VecDeque}, pin::Pin, sync::{Arc, Mutex, OnceLock}, task::{Context, Poll}, time::Duration};
    use tokio::time::Instant;

    #[derive(Debug, Clone, Copy, PartialEq, Eq, Hash, Serialize, Deserialize)]
    pub struct Attempt {
        pub ok: bool,
        pub items: u8,
    }

    #[derive(Debug, Clone, PartialEq, Eq, Hash, Serialize, Deserialize)]
    pub struct ConsumerCase {
        pub policy: Policy,
        /// attempt 0 succeeds; a final connection that never ends is appended by the stage
        pub script: Vec<Attempt>,
    }

    struct Script {
        t0: Instant,
        attempts: VecDeque<Attempt>,
        /// virtual instant (ms since t0) of every `MarketStream::init` call
        log: Vec<u64>,
    }

    fn registry() -> &'static Mutex<HashMap<String, Arc<Mutex<Script>>>> {
        static R: OnceLock<Mutex<HashMap<String, Arc<Mutex<Script>>>>> = OnceLock::new();
        R.get_or_init(Default::default)
    }

    #[derive(Debug, Clone, Default, Serialize, Deserialize)]
    pub struct FakeEx;
    pub struct FakeChannel;
    impl AsRef<str> for FakeChannel {
        fn as_ref(&self) -> &str {
            "trade"
        }
    }
    pub struct FakeMarket(String);
    impl AsRef<str> for FakeMarket {
        fn as_ref(&self) -> &str {
            &self.0
        }
    }
    impl Connector for FakeEx {
        const ID: ExchangeId = ExchangeId::Mock;
        type Channel = FakeChannel;
        type Market = FakeMarket;
        type Subscriber = WebSocketSubscriber;
        type SubValidator = WebSocketSubValidator;
        type SubResponse = BinanceSubResponse;
        fn url() -> Result<url::Url, SocketError> {
            Err(SocketError::Subscribe("the scripted exchange has no endpoint".into()))
        }
        fn requests(_: Vec<ExchangeSub<Self::Channel, Self::Market>>) -> Vec<WsMessage> {
            vec![]
        }
    }
    impl Identifier<FakeChannel> for Subscription<FakeEx, MarketDataInstrument, PublicTrades> {
        fn id(&self) -> FakeChannel {
            FakeChannel
        }
    }
    impl Identifier<FakeMarket> for Subscription<FakeEx, MarketDataInstrument, PublicTrades> {
        fn id(&self) -> FakeMarket {
            FakeMarket(self.instrument.base.to_string())
        }
    }
    impl StreamSelector<MarketDataInstrument, PublicTrades> for FakeEx {
        type SnapFetcher = NoInitialSnapshots;
        type Stream = FakeStream;
    }

    pub struct FakeStream {
        key: MarketDataInstrument,
        conn: u32,
        left: u8,
        next: u32,
        never_ends: bool,
    }
    impl Stream for FakeStream {
        type Item = Result<MarketEvent<MarketDataInstrument, PublicTrade>, DataError>;
        fn poll_next(mut self: Pin<&mut Self>, _: &mut Context<'_>) -> Poll<Option<Self::Item>> {
            if self.left == 0 {
                return if self.never_ends { Poll::Pending } else { Poll::Ready(None) };
            }
            self.left -= 1;
            self.next += 1;
            let id = format!("{}:{}", self.conn, self.next);
            Poll::Ready(Some(Ok(MarketEvent {
                time_exchange: vharness::fixtures::t(1),
                time_received: vharness::fixtures::t(1),
                exchange: ExchangeId::Mock,
                instrument: self.key.clone(),
                kind: PublicTrade { id, price: 1.0, amount: 1.0, side: Side::Buy },
            })))
        }
    }
    #[async_trait]
    impl MarketStream<FakeEx, MarketDataInstrument, PublicTrades> for FakeStream {
        async fn init<SnapFetcher>(subscriptions: &[Subscription<FakeEx, MarketDataInstrument, PublicTrades>]) -> Result<Self, DataError>
        where
            SnapFetcher: SnapshotFetcher<FakeEx, PublicTrades>,
            Subscription<FakeEx, MarketDataInstrument, PublicTrades>: Identifier<FakeChannel> + Identifier<FakeMarket>,
        {
            let key = subscriptions[0].instrument.clone();
            let script = registry().lock().unwrap().get(key.base.as_ref()).cloned().expect("script registered");
            let mut s = script.lock().unwrap();
            let now = s.t0.elapsed().as_millis() as u64;
            s.log.push(now);
            let conn = s.log.len() as u32 - 1;
            match s.attempts.pop_front() {
                Some(Attempt { ok: true, items }) => Ok(FakeStream { key, conn, left: items, next: 0, never_ends: false }),
                Some(Attempt { ok: false, .. }) => Err(DataError::Socket("scripted initialisation failure".into())),
                None => Ok(FakeStream { key, conn, left: 2, next: 0, never_ends: true }),
            }
        }
    }

    pub struct ConsumerOut {
        pub attempts_at: Vec<u64>,
        /// per successful connection (by attempt index): item ids seen, in order
        pub items: Vec<(u32, Vec<u32>)>,
        pub notices: u32,
        pub order: Vec<String>,
    }

    static NEXT: std::sync::atomic::AtomicU64 = std::sync::atomic::AtomicU64::new(0);

    pub fn run(case: &ConsumerCase) -> Result<ConsumerOut, String> {
        let rt = tokio::runtime::Builder::new_current_thread().enable_time().start_paused(true).build().map_err(|e| e.to_string())?;
        let out = rt.block_on(async {
            let name = format!("c12c{}", NEXT.fetch_add(1, std::sync::atomic::Ordering::Relaxed));
            let script = Arc::new(Mutex::new(Script { t0: Instant::now(), attempts: case.script.iter().copied().collect(), log: vec![] }));
            registry().lock().unwrap().insert(name.clone(), script.clone());
            let sub = Subscription::new(FakeEx, MarketDataInstrument::new(name.as_str(), "usdt", MarketDataInstrumentKind::Spot), PublicTrades);
            let policy = ReconnectionBackoffPolicy { backoff_ms_initial: case.policy.initial, backoff_multiplier: case.policy.mult, backoff_ms_max: case.policy.max };
            let res: Result<ConsumerOut, String> = async {
                let stream = init_market_stream::<FakeEx, MarketDataInstrument, PublicTrades>(policy, vec![sub]).await.map_err(|e| format!("init_market_stream failed although the first attempt succeeds: {e:?}"))?;
                let mut stream = Box::pin(stream);
                let mut out = ConsumerOut { attempts_at: vec![], items: vec![], notices: 0, order: vec![] };
                let final_conn = case.script.len() as u32;
                // watchdog in virtual time: far beyond every scripted wait
                let deadline = Duration::from_millis(case.policy.max.saturating_mul(case.script.len() as u64 + 2).saturating_add(3_600_000));
                let consume = async {
                    while let Some(ev) = stream.next().await {
                        match ev {
                            Event::Reconnecting(_) => {
                                out.notices += 1;
                                out.order.push("R".into());
                            }
                            Event::Item(Ok(m)) => {
                                let (c, i) = m.kind.id.split_once(':').map(|(c, i)| (c.parse::<u32>().unwrap_or(u32::MAX), i.parse::<u32>().unwrap_or(0))).unwrap_or((u32::MAX, 0));
                                out.order.push(format!("{c}:{i}"));
                                match out.items.last_mut() {
                                    Some((lc, v)) if *lc == c => v.push(i),
                                    _ => out.items.push((c, vec![i])),
                                }
                                if c == final_conn && i == 2 {
                                    break;
                                }
                            }
                            Event::Item(Err(e)) => out.order.push(format!("E({e})")),
                        }
                    }
                };
                if tokio::time::timeout(deadline, consume).await.is_err() {
                    out.order.push("WATCHDOG".into());
                }
                out.attempts_at = script.lock().unwrap().log.clone();
                Ok(out)
            }
            .await;
            registry().lock().unwrap().remove(&name);
            res
        });
        rt.shutdown_background();
        out
    }

    /// Oracle: the statement's recurrence on the CALLER'S policy, per-connection items, one notice per drop.
    pub fn judge(case: &ConsumerCase, out: &ConsumerOut) -> Result<(u64, Vec<&'static str>), (&'static str, String)> {
        let mut cells = vec!["consumer:init_market_stream"];
        let mut checks = 0u64;
        let n = case.script.len();
        if out.order.last().map(|s| s.as_str()) == Some("WATCHDOG") || out.attempts_at.len() != n + 1 {
            return Err(("reconnecting_stream_stopped_retrying", format!("{} initialisation attempts observed for a script of {} (+ the final connection); tail of events {:?}", out.attempts_at.len(), n, &out.order[out.order.len().saturating_sub(6)..])));
        }
        let mut fails = 0u32;
        for k in 1..=n {
            checks += 1;
            let prev = case.script[k - 1];
            let got = out.attempts_at[k] - out.attempts_at[k - 1];
            if prev.ok {
                fails = 0;
                if got != 0 {
                    return Err(("wait_before_reinitialising_after_a_connection_ended", format!("attempt #{k} started {got} ms after connection #{} ended (expected immediately)", k - 1)));
                }
            } else {
                let want = case.policy.wait(fails);
                if got != want {
                    let sig = if fails == 0 { "backoff_first_wait_wrong" } else { "backoff_growth_or_cap_wrong" };
                    return Err((sig, format!("init_market_stream with policy {:?}: wait after consecutive failure #{} = {got} ms, the caller's policy says {want} ms (attempt instants {:?})", case.policy, fails + 1, out.attempts_at)));
                }
                if fails >= 1 {
                    cells.push("consumer:custom_policy_growth_observed");
                }
                fails += 1;
            }
        }
        // items of every successful connection, in order, exactly once; one notice per ended connection
        let mut want_items: Vec<(u32, Vec<u32>)> = case.script.iter().enumerate().filter(|(_, a)| a.ok && a.items > 0).map(|(k, a)| (k as u32, (1..=a.items as u32).collect())).collect();
        want_items.push((n as u32, vec![1, 2]));
        checks += 2;
        if out.items != want_items {
            return Err(("connection_items_lost_duplicated_or_reordered", format!("observed {:?} expected {:?}", out.items, want_items)));
        }
        let ended = case.script.iter().filter(|a| a.ok).count() as u32;
        if out.notices != ended {
            return Err(("reconnecting_notice_missing", format!("{} notices for {ended} ended connections: {:?}", out.notices, out.order)));
        }
        Ok((checks, cells))
    }

    pub fn generate(rng: &mut vharness::Rng) -> ConsumerCase {
        // policies that differ from the library's default constant in every component
        let initial = *rng.pick(&[1u64, 7, 300, 2_000]);
        let mult = *rng.pick(&[1u8, 2, 3, 5]);
        let max = initial * *rng.pick(&[1u64, 2, 4, 30, 1_000]) + rng.below(3);
        let mut script = vec![Attempt { ok: true, items: rng.below(4) as u8 }];
        for _ in 0..rng.range_u(1, 10) {
            script.push(if rng.chance(3, 5) { Attempt { ok: false, items: 0 } } else { Attempt { ok: true, items: rng.below(4) as u8 } });
        }
        ConsumerCase { policy: Policy { initial, mult, max }, script }
    }
}

fn execute_consumer(case: &consumer_stage::ConsumerCase, report: &mut Report) {
    let h = fnv1a(format!("consumer{case:?}").as_bytes());
    match consumer_stage::run(case) {
        Err(e) => report.harness_errors.push(format!("consumer stage: {e}")),
        Ok(out) => {
            report.events_observed += out.order.len() as u64 + out.attempts_at.len() as u64;
            match consumer_stage::judge(case, &out) {
                Ok((checks, cells)) => {
                    report.oracle_checks += checks;
                    for c in cells {
                        report.cover(c);
                    }
                    report.case(h, case.script.iter().filter(|a| !a.ok).count() >= 2);
                }
                Err((sig, detail)) => {
                    report.case(h, true);
                    report.violation(sig, detail, json!({"kind": "consumer", "case": case}));
                }
            }
        }
    }
}

// ------------------------------------------------------------------------------------------------
// Account stage: the other user of the reconnecting machinery. `ExecutionManager::init` wraps a client's
// account stream (snapshot + updates) in init_reconnecting_stream -> with_reconnect_backoff ->
// with_reconnection_events and merges it with the request responses. A scripted mock-style client
// (EXCHANGE = Mock, serving Kraken - as the library's own MockExecution does) drops its connection and
// fails re-initialisations as scripted; every connection's items must arrive once and in order, followed by
// exactly one notice that names THE EXCHANGE WHOSE LINK DROPPED.

mod account_stage {
    use super::consumer_stage::Attempt;
    use super::Policy;
    use barter::execution::{AccountStreamEvent, manager::ExecutionManager, request::ExecutionRequest};
    use barter_data::streams::reconnect::{Event, stream::ReconnectionBackoffPolicy};
    use barter_execution::{
        AccountEventKind, UnindexedAccountEvent, UnindexedAccountSnapshot,
        balance::{AssetBalance, Balance},
        client::ExecutionClient,
        error::{ConnectivityError, UnindexedClientError, UnindexedOrderError},
        indexer::AccountEventIndexer,
        map::generate_execution_instrument_map,
        order::{Order, request::{OrderRequestCancel, OrderRequestOpen, UnindexedOrderResponseCancel}, state::Open},
        trade::Trade,
    };
    use barter_instrument::{asset::{QuoteAsset, name::AssetNameExchange}, exchange::ExchangeId, index::IndexedInstruments, instrument::name::InstrumentNameExchange};
    use barter_integration::{channel::mpsc_unbounded, snapshot::Snapshot};
    use chrono::{DateTime, Utc};
    use futures::{StreamExt, stream::BoxStream};
    use rust_decimal::Decimal;
    use serde::{Deserialize, Serialize};
    use std::{collections::VecDeque, sync::{Arc, Mutex}, time::Duration};
    use vharness::fixtures;

    const SERVED: ExchangeId = ExchangeId::Kraken;

    #[derive(Debug, Clone, PartialEq, Eq, Hash, Serialize, Deserialize)]
    pub struct AccountCase {
        pub policy: Policy,
        pub script: Vec<Attempt>,
    }

    #[derive(Clone)]
    pub struct DropClient {
        script: Arc<Mutex<VecDeque<Attempt>>>,
        conn: Arc<Mutex<u32>>,
    }

    impl ExecutionClient for DropClient {
        const EXCHANGE: ExchangeId = ExchangeId::Mock;
        type Config = DropClient;
        type AccountStream = BoxStream<'static, UnindexedAccountEvent>;

        fn new(config: Self::Config) -> Self {
            config
        }

        async fn account_snapshot(&self, _: &[AssetNameExchange], _: &[InstrumentNameExchange]) -> Result<UnindexedAccountSnapshot, UnindexedClientError> {
            let conn = *self.conn.lock().unwrap();
            // balance total = 1000 x connection number: identifies the connection the snapshot belongs to
            Ok(UnindexedAccountSnapshot {
                exchange: SERVED,
                balances: vec![AssetBalance { asset: AssetNameExchange::from("USDT"), balance: Balance::new(Decimal::from(1000 * conn), Decimal::ZERO), time_exchange: fixtures::t(conn as i64 + 1) }],
                instruments: vec![],
            })
        }

        async fn account_stream(&self, _: &[AssetNameExchange], _: &[InstrumentNameExchange]) -> Result<Self::AccountStream, UnindexedClientError> {
            let attempt = self.script.lock().unwrap().pop_front();
            let mut conn = self.conn.lock().unwrap();
            *conn += 1;
            let c = *conn;
            match attempt {
                Some(Attempt { ok: false, .. }) => Err(UnindexedClientError::Connectivity(ConnectivityError::Socket("scripted connection failure".into()))),
                Some(Attempt { ok: true, items }) => Ok(futures::stream::iter((1..=items as u32).map(move |i| UnindexedAccountEvent {
                    exchange: SERVED,
                    kind: AccountEventKind::BalanceSnapshot(Snapshot(AssetBalance { asset: AssetNameExchange::from("USDT"), balance: Balance::new(Decimal::from(1000 * c + i), Decimal::ZERO), time_exchange: fixtures::t(c as i64 * 100 + i as i64) })),
                }))
                .boxed()),
                // script exhausted: a connection that delivers two updates and then stays up
                None => Ok(futures::stream::iter((1..=2u32).map(move |i| UnindexedAccountEvent {
                    exchange: SERVED,
                    kind: AccountEventKind::BalanceSnapshot(Snapshot(AssetBalance { asset: AssetNameExchange::from("USDT"), balance: Balance::new(Decimal::from(1000 * c + i), Decimal::ZERO), time_exchange: fixtures::t(c as i64 * 100 + i as i64) })),
                }))
                .chain(futures::stream::pending())
                .boxed()),
            }
        }

        async fn cancel_order(&self, _: OrderRequestCancel<ExchangeId, &InstrumentNameExchange>) -> UnindexedOrderResponseCancel {
            std::future::pending().await
        }
        async fn open_order(&self, _: OrderRequestOpen<ExchangeId, &InstrumentNameExchange>) -> Order<ExchangeId, InstrumentNameExchange, Result<Open, UnindexedOrderError>> {
            std::future::pending().await
        }
        async fn fetch_balances(&self) -> Result<Vec<AssetBalance<AssetNameExchange>>, UnindexedClientError> {
            Ok(vec![])
        }
        async fn fetch_open_orders(&self) -> Result<Vec<Order<ExchangeId, InstrumentNameExchange, Open>>, UnindexedClientError> {
            Ok(vec![])
        }
        async fn fetch_trades(&self, _: DateTime<Utc>) -> Result<Vec<Trade<QuoteAsset, InstrumentNameExchange>>, UnindexedClientError> {
            Ok(vec![])
        }
    }

    /// what the merged account stream yielded: ("S"|"U", connection, index) items and "R:<exchange>" notices
    pub fn run(case: &AccountCase) -> Result<Vec<String>, String> {
        let rt = tokio::runtime::Builder::new_current_thread().enable_time().start_paused(true).build().map_err(|e| e.to_string())?;
        let out = rt.block_on(async {
            let ins = IndexedInstruments::new([fixtures::spot(ExchangeId::BinanceSpot, "btc", "usdt"), fixtures::spot(SERVED, "btc", "usdt")]);
            let map = generate_execution_instrument_map(&ins, SERVED).map_err(|e| format!("map: {e}"))?;
            let client = DropClient { script: Arc::new(Mutex::new(case.script.iter().copied().collect())), conn: Arc::new(Mutex::new(0)) };
            let (_req_tx, req_rx) = mpsc_unbounded::<ExecutionRequest>();
            let policy = ReconnectionBackoffPolicy { backoff_ms_initial: case.policy.initial, backoff_multiplier: case.policy.mult, backoff_ms_max: case.policy.max };
            let (_manager, stream) = ExecutionManager::init(req_rx.into_stream(), Duration::from_secs(1), Arc::new(client), AccountEventIndexer::new(Arc::new(map)), policy)
                .await
                .map_err(|e| format!("ExecutionManager::init failed although the first connection succeeds: {e:?}"))?;
            let mut stream = Box::pin(stream);
            let final_conn = case.script.len() as u32 + 1;
            let mut seen: Vec<String> = vec![];
            let deadline = Duration::from_millis(case.policy.max.saturating_mul(case.script.len() as u64 + 2).saturating_add(3_600_000));
            let consume = async {
                while let Some(ev) = stream.next().await {
                    match ev {
                        AccountStreamEvent::Reconnecting(origin) => seen.push(format!("R:{origin:?}")),
                        Event::Item(account) => match account.kind {
                            AccountEventKind::Snapshot(s) => {
                                let total = s.balances.first().map(|b| b.balance.total).unwrap_or_default();
                                seen.push(format!("S:{}", total / Decimal::from(1000)));
                            }
                            AccountEventKind::BalanceSnapshot(b) => {
                                let total: u32 = b.0.balance.total.try_into().unwrap_or(0);
                                seen.push(format!("U:{}:{}", total / 1000, total % 1000));
                                if total / 1000 == final_conn && total % 1000 == 2 {
                                    break;
                                }
                            }
                            other => seen.push(format!("?:{other:?}")),
                        },
                    }
                    if seen.len() > 2_000 {
                        break;
                    }
                }
            };
            if tokio::time::timeout(deadline, consume).await.is_err() {
                seen.push("WATCHDOG".into());
            }
            Ok(seen)
        });
        rt.shutdown_background();
        out
    }

    pub fn judge(case: &AccountCase, seen: &[String]) -> Result<(u64, Vec<&'static str>), (&'static str, String)> {
        // expected: per successful attempt k (connection number k+1): S:<k+1>, U:<k+1>:1..items, then R:<served>
        let mut want: Vec<String> = vec![];
        for (k, a) in case.script.iter().enumerate() {
            if a.ok {
                want.push(format!("S:{}", k + 1));
                for i in 1..=a.items {
                    want.push(format!("U:{}:{i}", k + 1));
                }
                want.push(format!("R:{SERVED:?}"));
            }
        }
        let last = case.script.len() + 1;
        want.push(format!("S:{last}"));
        want.push(format!("U:{last}:1"));
        want.push(format!("U:{last}:2"));
        if seen == want.as_slice() {
            return Ok((want.len() as u64, vec!["account_stage:execution_manager_account_stream"]));
        }
        // classify
        let strip = |v: &[String]| -> Vec<String> { v.iter().map(|s| if s.starts_with("R:") { "R".to_string() } else { s.clone() }).collect() };
        if strip(seen) == strip(&want) {
            let bad = seen.iter().find(|s| s.starts_with("R:") && **s != format!("R:{SERVED:?}")).cloned().unwrap_or_default();
            return Err(("reconnecting_notice_names_another_exchange", format!("the account link of {SERVED:?} dropped; the notice says {bad} (events {seen:?})")));
        }
        Err(("account_stream_items_or_notices_differ", format!("expected {want:?} observed {seen:?}")))
    }

    pub fn generate(rng: &mut vharness::Rng) -> AccountCase {
        let initial = *rng.pick(&[1u64, 7, 300]);
        let mult = *rng.pick(&[1u8, 2, 3]);
        let max = initial * *rng.pick(&[1u64, 4, 30]);
        let mut script = vec![Attempt { ok: true, items: rng.below(4) as u8 }];
        for _ in 0..rng.range_u(1, 8) {
            script.push(if rng.chance(2, 5) { Attempt { ok: false, items: 0 } } else { Attempt { ok: true, items: rng.below(4) as u8 } });
        }
        AccountCase { policy: Policy { initial, mult, max }, script }
    }
}

fn execute_account(case: &account_stage::AccountCase, report: &mut Report) {
    let h = fnv1a(format!("account{case:?}").as_bytes());
    match account_stage::run(case) {
        Err(e) => report.harness_errors.push(format!("account stage: {e}")),
        Ok(seen) => {
            report.events_observed += seen.len() as u64;
            match account_stage::judge(case, &seen) {
                Ok((checks, cells)) => {
                    report.oracle_checks += checks;
                    for c in cells {
                        report.cover(c);
                    }
                    report.case(h, case.script.iter().filter(|a| a.ok).count() >= 2);
                }
                Err((sig, detail)) => {
                    report.case(h, true);
                    report.violation(sig, detail, json!({"kind": "account", "case": case}));
                }
            }
        }
    }
}

fn main() {
    let args = Args::parse();

    if let Some(path) = &args.replay {
        let v: serde_json::Value = serde_json::from_str(&std::fs::read_to_string(path).expect("read replay")).expect("json");
        let h = &v["history"];
        let mut report = Report::new("C12");
        match h["kind"].as_str() {
            Some("merge") => {
                let case: MergeCase = serde_json::from_value(h["case"].clone()).expect("merge case");
                execute_merge(&case, &mut report);
            }
            Some("account") => {
                let case: account_stage::AccountCase = serde_json::from_value(h["case"].clone()).expect("account case");
                execute_account(&case, &mut report);
            }
            Some("consumer") => {
                let case: consumer_stage::ConsumerCase = serde_json::from_value(h["case"].clone()).expect("consumer case");
                execute_consumer(&case, &mut report);
            }
            _ => {
                let case: Case = normalize(serde_json::from_value(h["case"].clone()).expect("reconnect case"));
                match execute_case(&case) {
                    Ok(out) => eprintln!("{}", excerpt(&out)),
                    Err(msg) => eprintln!("panic: {msg}"),
                }
                execute_reconnect(&case, &mut report, false);
            }
        }
        println!("{}", serde_json::to_string_pretty(&report.to_json()).unwrap());
        std::process::exit(if report.violation_count > 0 { 1 } else { 0 });
    }

    let small = args.tier == "miri" || args.tier == "tsan";
    let n_scripts = if small { 6 } else { args.size(20_000, 5_000_000) };
    let n_merge_random = if small { 20 } else { args.size(20_000, 2_000_000) };
    let merge_len = if args.is_thorough() { 8usize } else { 6 };
    let n_consumer = if small { 2 } else { args.size(2_000, 200_000) };

    let mut report = run_workers(&args, "C12", |w, n, rng, report| {
        if !small {
            if w == 0 {
                for case in fixed_cases() {
                    execute_reconnect(&case, report, true);
                }
            }
            enumerate_merge(merge_len, w, n, |case| execute_merge(case, report));
        }
        for _ in 0..Args::share(n_scripts, w, n) {
            let case = gen_case(rng, if small { Some(5) } else { None });
            execute_reconnect(&case, report, true);
        }
        for _ in 0..Args::share(n_merge_random, w, n) {
            let case = gen_merge(rng);
            execute_merge(&case, report);
        }
        for _ in 0..Args::share(n_consumer, w, n) {
            let case = consumer_stage::generate(rng);
            execute_consumer(&case, report);
        }
        for _ in 0..Args::share(n_consumer, w, n) {
            let case = account_stage::generate(rng);
            execute_account(&case, report);
        }
    });

    if !small {
        let total = enumerate_merge(merge_len, 0, 1, |_| {});
        report.exhaustive_blocks.push(format!(
            "merge: all {total} cases = every well-formed action word of length 0..={merge_len} over {{send L, send R, close L, close R}} x 3 polling disciplines x 2 receiver kinds"
        ));
        for c in [
            "connection_ends_normally",
            "terminal_error_mid_connection_items_after_dropped",
            "terminal_error_on_otherwise_pending_connection",
            "non_terminal_error_passed_through",
            "non_terminal_error_handled",
            "items_continue_after_non_terminal_error",
            "variant:pass_through",
            "variant:error_handler",
            "variant:forward_to_pass_through",
            "variant:forward_to_error_handler",
            "variant:merged_account_style",
            "init_failure_then_retry",
            "init_failures_consecutive_ge3",
            "backoff_cap_reached",
            "multiplier_1_constant_backoff",
            "success_resets_backoff",
            "huge_wait_2pow34ms_or_more",
            "scripted_virtual_delays",
            "initial_attempt_failure_returns_err",
            "empty_connection_ends",
            "merge:left_closes_first",
            "merge:right_closes_first",
            "merge:both_orders_preserved",
            "merge:outputs_interleaved",
            "merge:both_inputs_closed",
            "merge:both_alive_all_delivered",
            "merge:mode_drain_each",
            "merge:mode_poll_once_each",
            "merge:mode_drain_end",
            "merge:input_unbounded_rx",
            "merge:input_receiver_stream",
            "consumer:init_market_stream",
            "consumer:custom_policy_growth_observed",
            "account_stage:execution_manager_account_stream",
        ] {
            report.require(c);
        }
    }
    std::process::exit(report.finish(args.out.as_deref()));
}
