//! C10 — the audit stream is gap-free and sufficient to replicate engine state.
//!
//! Generated engine histories (market trades / L1, balances, full account snapshots, exchange order
//! confirmations, cancel responses, terminal order reports, fills, reconnect notices, trading-state
//! toggles, queued strategy batches, the four commands, shutdown or plain feed end) are run through
//!   (i)   `process_with_audit` step by step (replica compared after EVERY record; the state
//!         snapshot is taken at the start or in the middle of the history),
//!   (ii)  `sync_run_with_audit` over an iterator feed with an audit channel,
//!   (iii) `async_run_with_audit` over a stream feed,
//!   (iv)  a full `SystemBuilder ... audit_mode(Enabled)` system with mock execution.
//! A real `StateReplicaManager` is built from the audit snapshot and fed the recorded ticks.
//!
//! Oracle: tick count == events processed (+ the terminal FeedEnded record), sequence numbers are
//! snapshot+1, +2, ... without gap, every record carries the processed event, the last record is the
//! shutdown / feed-ended / fatal-error record, and after every record the replica equals the engine
//! on trading state, global data (an event counter), connectivity, assets incl. statistics,
//! positions, market data, tear-sheet generators, and orders after the normalisation of DESIGN A.4.
//! Fault stage: streams with a deleted, duplicated or swapped record must be rejected (Err, replica
//! left at the last contiguous record) or skipped — never applied.
//!
//! distinct non-trivial rule: >= 10 processed events incl. at least one account item, one market
//! item and one request sent; distinct = hash of the history.

use barter::{
    EngineEvent,
    engine::{
        Engine, EngineOutput, Processor,
        audit::{AuditTick, Auditor, EngineAudit, context::EngineContext, state_replica::StateReplicaManager},
        command::Command,
        execution_tx::MultiExchangeTxMap,
        process_with_audit,
        run::{async_run_with_audit, sync_run_with_audit},
        state::{
            EngineState,
            instrument::{data::DefaultInstrumentMarketData, filter::InstrumentFilter},
            trading::TradingState,
        },
    },
    system::{
        builder::{AuditMode, EngineFeedMode, SystemArgs, SystemBuilder},
        config::ExecutionConfig,
    },
};
use barter_data::{event::{DataKind, MarketEvent}, streams::consumer::MarketStreamEvent};
use barter_execution::{
    AccountEvent, AccountEventKind, AccountSnapshot, InstrumentAccountSnapshot, UnindexedAccountSnapshot,
    balance::{AssetBalance, Balance},
    client::mock::MockExecutionConfig,
    error::{ConnectivityError, OrderError},
    order::{
        Order,
        id::{ClientOrderId, OrderId},
        state::{ActiveOrderState, Cancelled, InactiveOrderState, Open, OrderState},
    },
};
use barter_instrument::{
    Side,
    asset::{AssetIndex, name::AssetNameExchange},
    exchange::{ExchangeId, ExchangeIndex},
    index::IndexedInstruments,
    instrument::InstrumentIndex,
};
use barter_integration::{
    Terminal,
    channel::{ChannelTxDroppable, mpsc_unbounded},
    collection::one_or_many::OneOrMany,
};
use rust_decimal::Decimal;
use serde::{Deserialize, Serialize};
use serde_json::{Value, json};
use std::collections::BTreeMap;
use vharness::{
    Args, Report, Rng, catch,
    fixtures::{self, DisabledSeen, DisconnectSeen, RecTx, ScriptRisk, ScriptStrategy, TestClock, TxMode},
    fnv1a, run_workers, shrink,
};

#[derive(Debug, Clone, Copy, PartialEq, Eq, Default, Serialize, Deserialize)]
struct CountGlobal {
    account: u64,
    market: u64,
}
impl Processor<&AccountEvent> for CountGlobal {
    type Audit = ();
    fn process(&mut self, _: &AccountEvent) {
        self.account += 1;
    }
}
impl Processor<&MarketEvent<InstrumentIndex, DataKind>> for CountGlobal {
    type Audit = ();
    fn process(&mut self, _: &MarketEvent<InstrumentIndex, DataKind>) {
        self.market += 1;
    }
}

type St = EngineState<CountGlobal, DefaultInstrumentMarketData>;
type Eng = Engine<TestClock, St, MultiExchangeTxMap<RecTx>, ScriptStrategy<St>, ScriptRisk<St>>;
type Audit = EngineAudit<EngineEvent<DataKind>, EngineOutput<DisabledSeen, DisconnectSeen>>;
type Tick = AuditTick<Audit, EngineContext>;

const N_INSTR: usize = 4;
const EXCH_OF: [usize; N_INSTR] = [0, 0, 1, 1];

fn instruments() -> IndexedInstruments {
    // sorted: BinanceSpot(0): btc_usdt(0) eth_usdt(1); Okx(1): btc_usdt(2) eth_usdt(3)
    IndexedInstruments::new([
        fixtures::spot(ExchangeId::Okx, "eth", "usdt"),
        fixtures::spot(ExchangeId::BinanceSpot, "btc", "usdt"),
        fixtures::spot(ExchangeId::Okx, "btc", "usdt"),
        fixtures::spot(ExchangeId::BinanceSpot, "eth", "usdt"),
    ])
}

/// Histories of odd length run with an event-time engine clock (engine time may go BACK between records).
fn build(enabled: bool, event_time_clock: bool) -> (Eng, Vec<RecTx>) {
    let ins = instruments();
    let txs: Vec<RecTx> = ins.exchanges().iter().map(|_| RecTx::new(TxMode::Healthy)).collect();
    let map = MultiExchangeTxMap::from_iter(ins.exchanges().iter().zip(txs.iter()).map(|(e, tx)| (e.value, Some(tx.clone()))));
    let state = EngineState::builder(&ins, CountGlobal::default(), DefaultInstrumentMarketData::default)
        .time_engine_start(fixtures::t0())
        .trading_state(if enabled { TradingState::Enabled } else { TradingState::Disabled })
        .build();
    let clock = if event_time_clock { TestClock::following_events(fixtures::t0()) } else { TestClock::new(fixtures::t0()) };
    (Engine::new(clock, state, map, ScriptStrategy::default(), ScriptRisk::default()), txs)
}

#[derive(Debug, Clone, Serialize, Deserialize, PartialEq)]
struct Req {
    open: bool,
    instr: usize,
    cid: String,
}

#[derive(Debug, Clone, Serialize, Deserialize, PartialEq)]
enum Ev {
    Market { instr: usize, t: i64, price: i64 },
    L1 { instr: usize, t: i64, bid: i64, ask: i64 },
    Balance { exchange: usize, k: usize, t: i64, total: i64 },
    FullSnapshot { exchange: usize, t: i64, orders: Vec<(usize, String, i64)> },
    ConfirmOpen { instr: usize, cid: String, t: i64, filled: i64 },
    CancelResp {
        instr: usize,
        cid: String,
        ok: bool,
        t: i64,
        /// which failure the exchange reports when `!ok`: 0 timeout, 1 already cancelled, 2 already fully
        /// filled, 3 rate limit, 4 rejected
        #[serde(default)]
        err: u8,
    },
    OrderDone { instr: usize, cid: String, kind: u8, t: i64 },
    Fill { instr: usize, buy: bool, t: i64, price: i64, qty: i64, fee: i64 },
    MarketReconnect { exchange: usize },
    AccountReconnect { exchange: usize },
    Trading(bool),
    QueueAlgo(Vec<Req>),
    CmdOpen(Vec<Req>),
    CmdCancel(Vec<Req>),
    CmdCancelAll,
    CmdCloseAll,
    /// environment: the execution link of this exchange dies (its next use is a fatal engine error,
    /// so the run ends with a fatal-error record that still carries a state-changing event)
    BreakLink { exchange: usize },
    Shutdown,
}

const QTY: i64 = 5;

fn to_engine_event(ev: &Ev, idx: usize, ins: &IndexedInstruments) -> Option<EngineEvent> {
    let exch_id: Vec<ExchangeId> = ins.exchanges().iter().map(|e| e.value).collect();
    let assets_of = |e: usize| -> Vec<usize> { ins.assets().iter().filter(|a| a.value.exchange == exch_id[e]).map(|a| a.key.index()).collect() };
    let open_state = |cid: &str, t: i64, filled: i64| OrderState::active(Open { id: OrderId::new(format!("x{cid}")), time_exchange: fixtures::t(t), filled_quantity: Decimal::from(filled) });
    Some(match ev {
        Ev::Market { instr, t, price } => fixtures::ev_market_trade(exch_id[EXCH_OF[*instr]], *instr, *t, *price as f64),
        Ev::L1 { instr, t, bid, ask } => fixtures::ev_market_l1(exch_id[EXCH_OF[*instr]], *instr, *t, Some((Decimal::from(*bid), Decimal::ONE)), Some((Decimal::from(*ask), Decimal::TWO))),
        Ev::Balance { exchange, k, t, total } => {
            let a = assets_of(*exchange);
            fixtures::ev_balance(*exchange, a[*k % a.len()], *t, Decimal::from(*total), Decimal::from(*total))
        }
        Ev::FullSnapshot { exchange, t, orders } => {
            let a = assets_of(*exchange);
            let mut per: BTreeMap<usize, Vec<Order<ExchangeIndex, InstrumentIndex, OrderState<AssetIndex, InstrumentIndex>>>> = BTreeMap::new();
            for (instr, cid, filled) in orders {
                per.entry(*instr).or_default().push(Order {
                    key: fixtures::order_key(*exchange, *instr, cid),
                    side: Side::Buy,
                    price: Decimal::from(100),
                    quantity: Decimal::from(QTY),
                    kind: barter_execution::order::OrderKind::Limit,
                    time_in_force: barter_execution::order::TimeInForce::GoodUntilCancelled { post_only: false },
                    state: open_state(cid, *t, *filled),
                });
            }
            fixtures::ev_account(
                *exchange,
                AccountEventKind::Snapshot(AccountSnapshot {
                    exchange: ExchangeIndex(*exchange),
                    balances: a.iter().enumerate().map(|(n, ai)| AssetBalance { asset: AssetIndex(*ai), balance: Balance::new(Decimal::from(*t + n as i64), Decimal::from(*t)), time_exchange: fixtures::t(*t) }).collect(),
                    instruments: per.into_iter().map(|(i, orders)| InstrumentAccountSnapshot { instrument: InstrumentIndex(i), orders }).collect(),
                }),
            )
        }
        Ev::ConfirmOpen { instr, cid, t, filled } => fixtures::ev_order_snapshot(EXCH_OF[*instr], *instr, cid, Side::Buy, Decimal::from(100), Decimal::from(QTY), open_state(cid, *t, *filled)),
        Ev::CancelResp { instr, cid, ok, t, err } => fixtures::ev_cancel_response(
            EXCH_OF[*instr],
            *instr,
            cid,
            if *ok {
                Ok(Cancelled { id: OrderId::new(format!("x{cid}")), time_exchange: fixtures::t(*t) })
            } else {
                use barter_execution::error::ApiError;
                Err(match err {
                    1 => OrderError::Rejected(ApiError::OrderAlreadyCancelled),
                    2 => OrderError::Rejected(ApiError::OrderAlreadyFullyFilled),
                    3 => OrderError::Rejected(ApiError::RateLimit),
                    4 => OrderError::Rejected(ApiError::OrderRejected("scripted".into())),
                    _ => OrderError::Connectivity(ConnectivityError::Timeout),
                })
            },
        ),
        Ev::OrderDone { instr, cid, kind, t } => fixtures::ev_order_snapshot(
            EXCH_OF[*instr],
            *instr,
            cid,
            Side::Buy,
            Decimal::from(100),
            Decimal::from(QTY),
            match kind % 4 {
                0 => OrderState::fully_filled(),
                1 => OrderState::expired(),
                2 => OrderState::inactive(Cancelled { id: OrderId::new(format!("x{cid}")), time_exchange: fixtures::t(*t) }),
                _ => OrderState::Inactive(InactiveOrderState::OpenFailed(OrderError::Connectivity(ConnectivityError::Timeout))),
            },
        ),
        Ev::Fill { instr, buy, t, price, qty, fee } => {
            fixtures::ev_trade(EXCH_OF[*instr], *instr, &format!("f{idx}"), *t, if *buy { Side::Buy } else { Side::Sell }, Decimal::from(*price), Decimal::from(*qty), Decimal::new(*fee, 2))
        }
        Ev::MarketReconnect { exchange } => fixtures::ev_market_reconnecting(exch_id[*exchange]),
        Ev::AccountReconnect { exchange } => fixtures::ev_account_reconnecting(exch_id[*exchange]),
        Ev::Trading(on) => EngineEvent::TradingStateUpdate(if *on { TradingState::Enabled } else { TradingState::Disabled }),
        Ev::CmdOpen(reqs) => EngineEvent::Command(Command::SendOpenRequests(OneOrMany::from_iter(reqs.iter().map(to_open)))),
        Ev::CmdCancel(reqs) => EngineEvent::Command(Command::SendCancelRequests(OneOrMany::from_iter(reqs.iter().map(to_cancel)))),
        Ev::CmdCancelAll => EngineEvent::Command(Command::CancelOrders(InstrumentFilter::None)),
        Ev::CmdCloseAll => EngineEvent::Command(Command::ClosePositions(InstrumentFilter::None)),
        Ev::Shutdown => EngineEvent::shutdown(),
        Ev::QueueAlgo(_) | Ev::BreakLink { .. } => return None,
    })
}

fn to_open(r: &Req) -> barter_execution::order::request::OrderRequestOpen {
    fixtures::req_open(EXCH_OF[r.instr], r.instr, &r.cid, Side::Buy, Decimal::from(100), Decimal::from(QTY))
}
fn to_cancel(r: &Req) -> barter_execution::order::request::OrderRequestCancel {
    fixtures::req_cancel(EXCH_OF[r.instr], r.instr, &r.cid, None)
}

type V = (&'static str, String);

/// Replica vs engine, with the order normalisation of DESIGN appendix A.4.
fn compare(engine: &St, replica: &St) -> Result<(), String> {
    if engine.trading != replica.trading {
        return Err(format!("trading state: engine {:?} replica {:?}", engine.trading, replica.trading));
    }
    if engine.global != replica.global {
        return Err(format!("global data: engine {:?} replica {:?}", engine.global, replica.global));
    }
    if engine.connectivity != replica.connectivity {
        return Err(format!("connectivity: engine {:?} replica {:?}", engine.connectivity, replica.connectivity));
    }
    if engine.assets != replica.assets {
        for ((k, a), (_, b)) in engine.assets.0.iter().zip(replica.assets.0.iter()) {
            if a != b {
                return Err(format!("asset {k:?}: engine balance {:?} replica balance {:?} (statistics equal: {})", a.balance, b.balance, a.statistics == b.statistics));
            }
        }
        return Err("assets differ".into());
    }
    if engine.instruments.0.len() != replica.instruments.0.len() {
        return Err("instrument count differs".into());
    }
    for ((name, e), (rname, r)) in engine.instruments.0.iter().zip(replica.instruments.0.iter()) {
        if name != rname || e.key != r.key || e.instrument != r.instrument {
            return Err(format!("instrument identity differs at {name}"));
        }
        if e.position != r.position {
            return Err(format!("{name}: position engine {:?} replica {:?}", e.position, r.position));
        }
        if e.tear_sheet != r.tear_sheet {
            return Err(format!("{name}: per-instrument performance statistics differ"));
        }
        if e.data != r.data {
            return Err(format!("{name}: market data engine {:?} replica {:?}", e.data, r.data));
        }
        // in-flight request markers are set aside on BOTH sides (a replica started from a mid-history
        // snapshot inherits the markers that snapshot contained)
        let normalise = |orders: &barter::engine::state::order::Orders| -> BTreeMap<String, String> {
            let mut norm: BTreeMap<String, String> = BTreeMap::new();
            for (cid, o) in orders.0.iter() {
                match &o.state {
                    ActiveOrderState::OpenInFlight(_) => {}
                    ActiveOrderState::CancelInFlight(c) => {
                        if let Some(open) = &c.order {
                            let mut o2 = o.clone();
                            o2.state = ActiveOrderState::Open(open.clone());
                            norm.insert(cid.0.to_string(), format!("{o2:?}"));
                        }
                    }
                    ActiveOrderState::Open(_) => {
                        norm.insert(cid.0.to_string(), format!("{o:?}"));
                    }
                }
            }
            norm
        };
        let norm = normalise(&e.orders);
        let rep = normalise(&r.orders);
        if norm != rep {
            return Err(format!("{name}: orders (in-flight markers set aside) engine {norm:?} replica {rep:?}"));
        }
    }
    Ok(())
}

struct Outcome {
    steps: u64,
    checks: u64,
    cells: Vec<&'static str>,
    sent: u64,
    account_items: u64,
    market_items: u64,
}

fn apply_env(engine: &mut Eng, txs: &[RecTx], ev: &Ev) -> bool {
    if let Ev::BreakLink { exchange } = ev {
        txs[*exchange].set_mode(TxMode::Closed);
        return true;
    }
    if let Ev::QueueAlgo(batch) = ev {
        let cancels = batch.iter().filter(|r| !r.open).map(to_cancel).collect();
        let opens = batch.iter().filter(|r| r.open).map(to_open).collect();
        engine.strategy.push((cancels, opens));
        true
    } else {
        false
    }
}

fn check_tick(tick: &Tick, expect_seq: u64, ev: &EngineEvent, idx: usize) -> Result<(), V> {
    if tick.context.sequence.value() != expect_seq {
        return Err(("audit_sequence_not_consecutive", format!("record #{idx}: sequence {} expected {expect_seq}", tick.context.sequence.value())));
    }
    match &tick.event {
        EngineAudit::Process(pa) => {
            if &pa.event != ev {
                return Err(("audit_record_does_not_carry_the_processed_event", format!("record #{idx}: carries {:?}, processed {ev:?}", pa.event)));
            }
        }
        EngineAudit::FeedEnded => return Err(("unexpected_feed_ended_record", format!("record #{idx}"))),
    }
    Ok(())
}

/// Driver (i): step by step, replica compared after every record; `snap_at` events are processed
/// before the snapshot is taken. `fault` optionally perturbs the recorded stream afterwards.
fn run_stepwise(enabled: bool, events: &[Ev], snap_at: usize, fault_stage: bool) -> Result<Outcome, V> {
    let ins = instruments();
    let (mut engine, txs) = build(enabled, events.len() % 2 == 1);
    let mut out = Outcome { steps: 0, checks: 0, cells: vec!["driver:process_with_audit"], sent: 0, account_items: 0, market_items: 0 };
    let mut snapshot: Option<AuditTick<St>> = None;
    let mut replica: Option<StateReplicaManager<St, std::vec::IntoIter<Tick>>> = None;
    let mut ticks: Vec<Tick> = vec![];
    let mut states: Vec<St> = vec![];
    let mut last_seq = 0u64;
    let mut last_time: Option<chrono::DateTime<chrono::Utc>> = None;
    let mut processed = 0usize;

    for (idx, ev) in events.iter().enumerate() {
        if processed == snap_at && snapshot.is_none() {
            let snap: AuditTick<St> = <Eng as Auditor<Audit>>::audit_snapshot(&mut engine);
            last_seq = snap.context.sequence.value();
            if snap.event != engine.state {
                return Err(("audit_snapshot_differs_from_engine_state", format!("before event #{idx}")));
            }
            replica = Some(StateReplicaManager::new(snap.clone(), Vec::new().into_iter()));
            snapshot = Some(snap);
            if snap_at > 0 {
                out.cells.push("snapshot_taken_mid_history");
            }
        }
        if apply_env(&mut engine, &txs, ev) {
            continue;
        }
        let ee = to_engine_event(ev, idx, &ins).unwrap();
        match ev {
            Ev::Market { .. } | Ev::L1 { .. } => out.market_items += 1,
            Ev::Balance { .. } | Ev::FullSnapshot { .. } | Ev::ConfirmOpen { .. } | Ev::CancelResp { .. } | Ev::OrderDone { .. } | Ev::Fill { .. } => out.account_items += 1,
            _ => {}
        }
        let tick = catch(|| process_with_audit(&mut engine, ee.clone())).map_err(|m| ("panic_in_engine_process", format!("event #{idx} {ev:?}: {m}")))?;
        processed += 1;
        out.steps += 1;
        out.sent += txs.iter().map(|t| t.drain().len() as u64).sum::<u64>();
        if snapshot.is_none() {
            // before the snapshot: nothing to replicate yet - but a fatal delivery error ends the run there as
            // it would end a runner (everything the generator assumes about later events presumes the engine
            // kept running normally)
            if tick.event.is_terminal() {
                break;
            }
            continue;
        }
        out.checks += 3;
        check_tick(&tick, last_seq + 1, &ee, idx)?;
        last_seq += 1;
        if last_time.map(|t| tick.context.time < t).unwrap_or(false) {
            out.cells.push("engine_time_went_back_between_two_records");
        }
        last_time = Some(tick.context.time);
        let rep = replica.as_mut().unwrap();
        rep.updates = vec![tick.clone()].into_iter();
        let res = catch(|| rep.run::<DisabledSeen, DisconnectSeen>()).map_err(|m| ("panic_in_state_replica", format!("record #{idx}: {m}")))?;
        if let Err(e) = res {
            return Err(("replica_rejected_a_gap_free_audit_stream", format!("record #{idx} {ev:?}: {e}")));
        }
        if let Err(diff) = compare(&engine.state, rep.replica_engine_state()) {
            return Err(("replica_state_differs_from_engine_state", format!("after record #{idx} {ev:?}: {diff}")));
        }
        let terminal = tick.event.is_terminal();
        if fault_stage {
            ticks.push(tick);
            states.push(engine.state.clone());
        }
        if terminal {
            out.cells.push(if matches!(ev, Ev::Shutdown) { "terminal:shutdown" } else { "terminal:fatal_error" });
            break;
        }
    }

    // ---- fault stage: perturbed streams must be rejected or skipped, never applied
    if fault_stage && ticks.len() >= 4 {
        let snap = snapshot.clone().unwrap();
        let n = ticks.len();
        for k in [1usize, n / 2, n - 2] {
            // (a) record k deleted
            let mut s = ticks.clone();
            s.remove(k);
            let mut rep = StateReplicaManager::new(snap.clone(), s.into_iter());
            let res = catch(|| rep.run::<DisabledSeen, DisconnectSeen>()).map_err(|m| ("panic_in_state_replica", m))?;
            out.checks += 1;
            out.cells.push("fault:record_deleted");
            if res.is_ok() {
                return Err(("audit_stream_with_missing_record_was_applied", format!("record {k} of {n} deleted: replica run returned Ok")));
            }
            if compare(&states[k - 1], rep.replica_engine_state()).is_err() {
                return Err(("replica_not_left_at_last_contiguous_record", format!("record {k} of {n} deleted")));
            }
            // (b) record k duplicated
            let mut s = ticks.clone();
            s.insert(k, ticks[k].clone());
            let mut rep = StateReplicaManager::new(snap.clone(), s.into_iter());
            let res = catch(|| rep.run::<DisabledSeen, DisconnectSeen>()).map_err(|m| ("panic_in_state_replica", m))?;
            out.checks += 1;
            out.cells.push("fault:record_duplicated");
            match res {
                Ok(()) => {
                    if let Err(d) = compare(&states[n - 1], rep.replica_engine_state()) {
                        return Err(("audit_stream_with_repeated_record_was_applied", format!("record {k} of {n} duplicated, replica accepted the stream but ends in a different state: {d}")));
                    }
                }
                Err(_) => {
                    if compare(&states[k], rep.replica_engine_state()).is_err() {
                        return Err(("replica_not_left_at_last_contiguous_record", format!("record {k} of {n} duplicated and rejected")));
                    }
                }
            }
            // (d) a BATCH re-delivered: records k-1 and k arrive a second time, in order, after k (a reconnecting
            // audit transport that replays its last frames); nothing may be applied twice
            if k >= 1 {
                let mut s = ticks[..=k].to_vec();
                s.push(ticks[k - 1].clone());
                s.push(ticks[k].clone());
                s.extend(ticks[k + 1..].iter().cloned());
                let mut rep = StateReplicaManager::new(snap.clone(), s.into_iter());
                let res = catch(|| rep.run::<DisabledSeen, DisconnectSeen>()).map_err(|m| ("panic_in_state_replica", m))?;
                out.checks += 1;
                out.cells.push("fault:batch_of_records_redelivered");
                match res {
                    Ok(()) => {
                        if let Err(d) = compare(&states[n - 1], rep.replica_engine_state()) {
                            return Err(("audit_stream_with_repeated_record_was_applied", format!("records {},{k} of {n} delivered a second time after {k}, replica accepted the stream but ends in a different state: {d}", k - 1)));
                        }
                    }
                    Err(_) => {
                        if compare(&states[k], rep.replica_engine_state()).is_err() {
                            return Err(("replica_not_left_at_last_contiguous_record", format!("records {},{k} of {n} re-delivered and rejected", k - 1)));
                        }
                    }
                }
            }
            // (e) record k lost and the consumer KEEPS DRAINING: the run over the gap is rejected, and so is every
            // later run over the rest of the stream (nothing after the gap may be applied)
            if k + 2 < n {
                let mut s = ticks.clone();
                s.remove(k);
                let mut rep = StateReplicaManager::new(snap.clone(), s[..=k].to_vec().into_iter());
                let first = catch(|| rep.run::<DisabledSeen, DisconnectSeen>()).map_err(|m| ("panic_in_state_replica", m))?;
                rep.updates = s[k + 1..].to_vec().into_iter();
                let second = catch(|| rep.run::<DisabledSeen, DisconnectSeen>()).map_err(|m| ("panic_in_state_replica", m))?;
                out.checks += 1;
                out.cells.push("fault:record_lost_and_consumer_keeps_draining");
                if first.is_ok() || second.is_ok() {
                    return Err(("audit_stream_with_missing_record_was_applied", format!("record {k} of {n} lost; run over the gap ok={}, next run over the rest of the stream ok={}", first.is_ok(), second.is_ok())));
                }
                if compare(&states[k - 1], rep.replica_engine_state()).is_err() {
                    return Err(("replica_not_left_at_last_contiguous_record", format!("record {k} of {n} lost, consumer kept draining")));
                }
            }
            // (c) records k and k+1 swapped
            if k + 1 < n {
                let mut s = ticks.clone();
                s.swap(k, k + 1);
                let mut rep = StateReplicaManager::new(snap.clone(), s.into_iter());
                let res = catch(|| rep.run::<DisabledSeen, DisconnectSeen>()).map_err(|m| ("panic_in_state_replica", m))?;
                out.checks += 1;
                out.cells.push("fault:records_swapped");
                if res.is_ok() {
                    return Err(("audit_stream_with_reordered_records_was_applied", format!("records {k},{} of {n} swapped: replica run returned Ok", k + 1)));
                }
                if compare(&states[k - 1], rep.replica_engine_state()).is_err() {
                    return Err(("replica_not_left_at_last_contiguous_record", format!("records {k},{} swapped", k + 1)));
                }
            }
        }
    }
    Ok(out)
}

/// Drivers (ii)/(iii): the engine runners with an audit channel; judged on the collected stream.
fn run_runner(enabled: bool, events: &[Ev], asynchronous: bool) -> Result<Outcome, V> {
    let ins = instruments();
    let (mut engine, txs) = build(enabled, events.len() % 2 == 1);
    // the runners consume a plain feed: queued strategy batches are pre-loaded in order
    let mut feed: Vec<EngineEvent> = vec![];
    for (idx, ev) in events.iter().enumerate() {
        if !apply_env(&mut engine, &txs, ev) {
            feed.push(to_engine_event(ev, idx, &ins).unwrap());
        }
    }
    let mut out = Outcome { steps: 0, checks: 0, cells: vec![if asynchronous { "driver:async_run_with_audit" } else { "driver:sync_run_with_audit" }], sent: 1, account_items: 1, market_items: 1 };
    let snap: AuditTick<St> = <Eng as Auditor<Audit>>::audit_snapshot(&mut engine);
    let (audit_tx, mut audit_rx) = mpsc_unbounded::<Tick>();
    let mut audit_tx = ChannelTxDroppable::new(audit_tx);
    let ends_with_shutdown = matches!(events.last(), Some(Ev::Shutdown));
    let returned: Audit = if asynchronous {
        let rt = tokio::runtime::Builder::new_current_thread().enable_time().start_paused(true).build().expect("runtime");
        let mut stream = futures::stream::iter(feed.clone());
        rt.block_on(async { async_run_with_audit(&mut stream, &mut engine, &mut audit_tx).await })
    } else {
        let mut it = feed.clone().into_iter();
        catch(|| sync_run_with_audit(&mut it, &mut engine, &mut audit_tx)).map_err(|m| ("panic_in_engine_runner", m))?
    };
    drop(audit_tx);
    let mut ticks: Vec<Tick> = vec![];
    while let Ok(t) = audit_rx.rx.try_recv() {
        ticks.push(t);
    }
    out.steps = ticks.len() as u64;
    // count + order + content
    let mut seq = snap.context.sequence.value();
    let mut processed = 0usize;
    for (i, tick) in ticks.iter().enumerate() {
        seq += 1;
        out.checks += 1;
        match &tick.event {
            EngineAudit::FeedEnded => {
                if tick.context.sequence.value() != seq {
                    return Err(("audit_sequence_not_consecutive", format!("FeedEnded record #{i}: sequence {} expected {seq}", tick.context.sequence.value())));
                }
                if i + 1 != ticks.len() {
                    return Err(("record_after_feed_ended", format!("record #{i}")));
                }
            }
            EngineAudit::Process(_) => {
                let Some(ev) = feed.get(processed) else {
                    return Err(("more_audit_records_than_events", format!("record #{i}")));
                };
                check_tick(tick, seq, ev, i)?;
                processed += 1;
                if tick.event.is_terminal() && i + 1 != ticks.len() {
                    return Err(("record_after_terminal_record", format!("record #{i}")));
                }
            }
        }
    }
    out.checks += 2;
    let Some(last) = ticks.last() else {
        return Err(("no_audit_records_emitted", format!("{} events fed", feed.len())));
    };
    if !last.event.is_terminal() {
        return Err(("final_audit_record_is_not_terminal", format!("last record {:?}", last.context)));
    }
    if last.event != returned {
        return Err(("runner_return_value_differs_from_final_record", String::new()));
    }
    let fatal = matches!(&last.event, EngineAudit::Process(pa) if !pa.errors.is_empty());
    if !fatal {
        let expect_records = feed.len() + if ends_with_shutdown { 0 } else { 1 };
        if ticks.len() != expect_records {
            return Err(("audit_record_count_differs_from_processed_events", format!("{} records for {} events (ends with shutdown: {ends_with_shutdown})", ticks.len(), feed.len())));
        }
        out.cells.push(if ends_with_shutdown { "terminal:shutdown" } else { "terminal:feed_ended" });
    }
    // replica over the whole stream ends in the engine's final state
    let mut rep = StateReplicaManager::new(snap, ticks.into_iter());
    let res = catch(|| rep.run::<DisabledSeen, DisconnectSeen>()).map_err(|m| ("panic_in_state_replica", m))?;
    if let Err(e) = res {
        return Err(("replica_rejected_a_gap_free_audit_stream", e));
    }
    if let Err(d) = compare(&engine.state, rep.replica_engine_state()) {
        return Err(("replica_state_differs_from_engine_state", format!("at end of run: {d}")));
    }
    Ok(out)
}

/// Driver (iv): full system with mock execution and auditing enabled (stream feed mode).
fn run_system(seed_events: &[Ev]) -> Result<Outcome, V> {
    let ins = instruments();
    let rt = tokio::runtime::Builder::new_current_thread().enable_time().start_paused(true).build().expect("runtime");
    rt.block_on(async {
        let exch: Vec<ExchangeId> = ins.exchanges().iter().map(|e| e.value).collect();
        let executions: Vec<ExecutionConfig> = exch
            .iter()
            .map(|e| {
                ExecutionConfig::Mock(MockExecutionConfig {
                    mocked_exchange: *e,
                    initial_state: UnindexedAccountSnapshot {
                        exchange: *e,
                        balances: ins
                            .assets()
                            .iter()
                            .filter(|a| a.value.exchange == *e)
                            .map(|a| AssetBalance { asset: AssetNameExchange::from(a.value.asset.name_exchange.name().as_str()), balance: Balance::new(Decimal::from(1_000_000), Decimal::from(1_000_000)), time_exchange: fixtures::t0() })
                            .collect(),
                        instruments: vec![],
                    },
                    latency_ms: 10,
                    fees_percent: Decimal::new(1, 3),
                })
            })
            .collect();
        // market stream + strategy batches derived from the generated history
        let strategy: ScriptStrategy<St> = ScriptStrategy::default();
        let mut market: Vec<MarketStreamEvent<InstrumentIndex, DataKind>> = vec![];
        let mut n_req = 0;
        for (idx, ev) in seed_events.iter().enumerate() {
            match ev {
                Ev::Market { .. } | Ev::L1 { .. } | Ev::MarketReconnect { .. } => {
                    if let Some(EngineEvent::Market(m)) = to_engine_event(ev, idx, &ins) {
                        market.push(m);
                    }
                }
                Ev::QueueAlgo(batch) => {
                    // market orders the mock exchange can fill
                    let opens = batch
                        .iter()
                        .filter(|r| r.open)
                        .map(|r| {
                            n_req += 1;
                            let mut o = to_open(r);
                            o.state.kind = barter_execution::order::OrderKind::Market;
                            o.state.quantity = Decimal::ONE;
                            o.key.cid = ClientOrderId::new(format!("sys{n_req}"));
                            o
                        })
                        .collect();
                    strategy.push((vec![], opens));
                }
                _ => {}
            }
        }
        let n_market = market.len();
        let clock = TestClock::new(fixtures::t0());
        let args = SystemArgs::new(&ins, executions, clock, strategy, ScriptRisk::<St>::default(), futures::stream::iter(market), CountGlobal::default(), DefaultInstrumentMarketData::default);
        let build = SystemBuilder::new(args).engine_feed_mode(EngineFeedMode::Stream).audit_mode(AuditMode::Enabled).trading_state(TradingState::Enabled).build::<EngineEvent, DefaultInstrumentMarketData>().map_err(|e| ("system_build_failed", format!("{e:?}")))?;
        let mut system = build.init().await.map_err(|e| ("system_init_failed", format!("{e:?}")))?;
        let audit = system.take_audit().ok_or(("system_has_no_audit_stream", String::new()))?;
        // let everything settle in virtual time (mock latency, responses), then shut down
        tokio::time::sleep(std::time::Duration::from_secs(5)).await;
        let (engine, final_audit) = system.shutdown().await.map_err(|e| ("system_shutdown_failed", format!("{e:?}")))?;
        let snapshot = audit.snapshot;
        let mut rx = audit.updates;
        let mut ticks: Vec<Tick> = vec![];
        while let Ok(t) = rx.rx.try_recv() {
            ticks.push(t);
        }
        let mut out = Outcome { steps: ticks.len() as u64, checks: 0, cells: vec!["driver:system_builder_audit_enabled"], sent: n_req as u64, account_items: 1, market_items: n_market as u64 };
        let mut seq = snapshot.context.sequence.value();
        let mut market_seen = 0;
        for (i, t) in ticks.iter().enumerate() {
            seq += 1;
            out.checks += 1;
            if t.context.sequence.value() != seq {
                return Err(("audit_sequence_not_consecutive", format!("system record #{i}: {} expected {seq}", t.context.sequence.value())));
            }
            if let EngineAudit::Process(pa) = &t.event {
                if matches!(pa.event, EngineEvent::Market(_)) {
                    market_seen += 1;
                }
            }
        }
        out.checks += 3;
        if market_seen != n_market {
            return Err(("audit_record_count_differs_from_processed_events", format!("system: {market_seen} market records for {n_market} market events")));
        }
        match ticks.last() {
            Some(last) if last.event.is_terminal() && last.event == final_audit => {}
            other => return Err(("final_audit_record_is_not_terminal", format!("system: last record {:?}", other.map(|t| t.context)))),
        }
        let mut rep = StateReplicaManager::new(snapshot, ticks.into_iter());
        let res = rep.run::<DisabledSeen, DisconnectSeen>();
        if let Err(e) = res {
            return Err(("replica_rejected_a_gap_free_audit_stream", format!("system: {e}")));
        }
        if let Err(d) = compare(&engine.state, rep.replica_engine_state()) {
            return Err(("replica_state_differs_from_engine_state", format!("system, at end of run: {d}")));
        }
        Ok(out)
    })
}

// ------------------------------------------------------------------------------------------------

/// `known` holds only client order ids whose open request HAS BEEN ISSUED at that point of the
/// history (the generator simulates when the engine pops a queued strategy batch: one per processed
/// event while trading is enabled), so the exchange never reports on an order before its request
/// went out and no live id is ever reused (assumption B of DESIGN C10).
fn gen_events(rng: &mut Rng, max_len: usize, start_enabled: bool) -> Vec<Ev> {
    let n = rng.range_u(10, max_len);
    let mut evs = Vec::with_capacity(n + 1);
    let mut clock = 1000i64;
    let mut next = 0u32;
    let mut known: Vec<(usize, String)> = vec![];
    let mut enabled = start_enabled;
    let mut queue: std::collections::VecDeque<Vec<Req>> = Default::default();
    let mut new_open = |rng: &mut Rng| -> Req {
        next += 1;
        let instr = rng.usize_below(N_INSTR);
        let cid = format!("c{next}{}", if rng.chance(1, 8) { "!r" } else { "" });
        Req { open: true, instr, cid }
    };
    for _ in 0..n {
        clock += rng.range(0, 400);
        let t = if rng.chance(1, 8) { clock - rng.range(0, 1500) } else { clock }.max(1);
        let pick_known = |rng: &mut Rng, known: &Vec<(usize, String)>| -> Option<(usize, String)> { if known.is_empty() { None } else { Some(known[rng.usize_below(known.len())].clone()) } };
        let ev = match rng.below(100) {
            0..=11 => Ev::Market { instr: rng.usize_below(N_INSTR), t, price: rng.range(50, 150) },
            12..=17 => {
                let b = rng.range(50, 150);
                Ev::L1 { instr: rng.usize_below(N_INSTR), t, bid: b, ask: b + rng.range(1, 5) }
            }
            18..=24 => Ev::Balance { exchange: rng.usize_below(2), k: rng.usize_below(3), t, total: rng.range(0, 10_000) },
            25..=27 => {
                let exchange = rng.usize_below(2);
                let mut orders = vec![];
                for (i, c) in known.iter() {
                    if EXCH_OF[*i] == exchange && !c.ends_with("!r") && orders.len() < 3 && rng.chance(1, 2) {
                        orders.push((*i, c.clone(), rng.range(0, QTY - 1)));
                    }
                }
                Ev::FullSnapshot { exchange, t, orders }
            }
            28..=39 => match pick_known(rng, &known) {
                Some((i, c)) => Ev::ConfirmOpen { instr: i, cid: c, t, filled: *rng.pick(&[0, 0, 0, 2, 2, 4, 4, QTY, QTY, QTY + 1]) }, // QTY + 1: an OVER-filled report (venue lot rounding)
                None => Ev::Market { instr: 0, t, price: 100 },
            },
            40..=45 => match pick_known(rng, &known) {
                Some((i, c)) => Ev::CancelResp { instr: i, cid: c, ok: rng.bool(), t, err: rng.below(5) as u8 },
                None => Ev::Market { instr: 1, t, price: 100 },
            },
            46..=49 => match pick_known(rng, &known) {
                Some((i, c)) => Ev::OrderDone { instr: i, cid: c, kind: rng.below(4) as u8, t },
                None => Ev::Market { instr: 2, t, price: 100 },
            },
            50..=59 => Ev::Fill { instr: rng.usize_below(N_INSTR), buy: rng.bool(), t, price: rng.range(50, 150), qty: rng.range(1, 4), fee: rng.range(0, 300) },
            60..=62 => Ev::MarketReconnect { exchange: rng.usize_below(2) },
            63..=65 => Ev::AccountReconnect { exchange: rng.usize_below(2) },
            66..=72 => Ev::Trading(rng.chance(2, 3)),
            73..=84 => {
                let k = rng.range_u(1, 3);
                let mut batch: Vec<Req> = vec![];
                for _ in 0..k {
                    if rng.chance(3, 5) || known.is_empty() {
                        batch.push(new_open(rng));
                    } else {
                        let (i, c) = known[rng.usize_below(known.len())].clone();
                        if !batch.iter().any(|b| b.cid == c) {
                            batch.push(Req { open: false, instr: i, cid: c });
                        }
                    }
                }
                Ev::QueueAlgo(batch)
            }
            85..=88 => Ev::CmdOpen(vec![{
                let mut r = new_open(rng);
                r.cid = r.cid.replace("!r", "x");
                known.push((r.instr, r.cid.clone()));
                r
            }]),
            89..=91 => match pick_known(rng, &known) {
                Some((i, c)) => Ev::CmdCancel(vec![Req { open: false, instr: i, cid: c }]),
                None => Ev::CmdCancelAll,
            },
            92..=93 => Ev::CmdCancelAll,
            94 => {
                if rng.chance(1, 3) {
                    Ev::BreakLink { exchange: rng.usize_below(2) }
                } else {
                    Ev::CmdCancelAll
                }
            }
            95..=97 => Ev::CmdCloseAll,
            _ => Ev::Market { instr: rng.usize_below(N_INSTR), t, price: rng.range(50, 150) },
        };
        // simulate the engine's consumption of queued batches
        match &ev {
            Ev::QueueAlgo(batch) => queue.push_back(batch.clone()),
            // environment only: nothing is processed by the engine, so no batch is consumed
            Ev::BreakLink { .. } => {}
            other => {
                if let Ev::Trading(on) = other {
                    enabled = *on;
                }
                if enabled {
                    if let Some(batch) = queue.pop_front() {
                        for r in batch {
                            if r.open && !r.cid.ends_with("!r") {
                                known.push((r.instr, r.cid));
                            }
                        }
                    }
                }
            }
        }
        evs.push(ev);
    }
    if rng.chance(2, 3) {
        evs.push(Ev::Shutdown);
    }
    evs
}

/// Assumption B re-checked on a candidate history (the shrinker deletes events, which can move the tick on
/// which a queued batch is consumed): every exchange report names an order whose open request has been
/// issued by an EARLIER event.
fn respects_assumption_b(events: &[Ev], start_enabled: bool) -> bool {
    let mut issued: std::collections::HashSet<&str> = Default::default();
    let mut enabled = start_enabled;
    let mut queue: std::collections::VecDeque<&Vec<Req>> = Default::default();
    for ev in events {
        let named: Vec<&str> = match ev {
            Ev::ConfirmOpen { cid, .. } | Ev::CancelResp { cid, .. } | Ev::OrderDone { cid, .. } => vec![cid.as_str()],
            Ev::FullSnapshot { orders, .. } => orders.iter().map(|o| o.1.as_str()).collect(),
            _ => vec![],
        };
        if named.iter().any(|c| !issued.contains(c)) {
            return false;
        }
        match ev {
            Ev::QueueAlgo(batch) => queue.push_back(batch),
            // environment only: nothing is processed by the engine, so no batch is consumed
            Ev::BreakLink { .. } => {}
            other => {
                if let Ev::CmdOpen(reqs) = other {
                    for r in reqs {
                        issued.insert(r.cid.as_str());
                    }
                }
                if let Ev::Trading(on) = other {
                    enabled = *on;
                }
                if enabled {
                    if let Some(batch) = queue.pop_front() {
                        for r in batch.iter() {
                            if r.open && !r.cid.ends_with("!r") {
                                issued.insert(r.cid.as_str());
                            }
                        }
                    }
                }
            }
        }
    }
    true
}

#[derive(Debug, Clone, Serialize, Deserialize, PartialEq)]
struct Case {
    driver: u8, // 0 stepwise, 1 stepwise + fault stage, 2 sync runner, 3 async runner, 4 system
    enabled: bool,
    snap_at: usize,
    events: Vec<Ev>,
}

fn run_case(c: &Case) -> Result<Outcome, V> {
    match c.driver {
        0 => run_stepwise(c.enabled, &c.events, c.snap_at, false),
        1 => run_stepwise(c.enabled, &c.events, c.snap_at, true),
        2 => run_runner(c.enabled, &c.events, false),
        3 => run_runner(c.enabled, &c.events, true),
        _ => run_system(&c.events),
    }
}

fn execute(case: &Case, report: &mut Report) {
    let h = fnv1a(format!("{case:?}").as_bytes());
    match run_case(case) {
        Ok(out) => {
            report.events_observed += out.steps;
            report.oracle_checks += out.checks;
            for c in &out.cells {
                report.cover(c);
            }
            let nontrivial = out.steps >= 10 && out.sent >= 1 && out.account_items >= 1 && out.market_items >= 1;
            report.case(h, nontrivial);
            if nontrivial && case.events.len() <= 14 {
                report.sample(|| json!({"case": case}));
            }
        }
        Err((sig, detail)) => {
            report.case(h, true);
            let small = shrink(&case.events, |cand| {
                let c = Case { events: cand.to_vec(), snap_at: case.snap_at.min(cand.len() / 2), ..case.clone() };
                respects_assumption_b(cand, case.enabled) && matches!(run_case(&c), Err((s, _)) if s == sig)
            });
            let c = Case { snap_at: case.snap_at.min(small.len() / 2), events: small, ..case.clone() };
            let detail = match run_case(&c) {
                Err((_, dd)) => dd,
                Ok(_) => detail,
            };
            report.violation(sig, detail, json!({"case": c}));
        }
    }
}

fn main() {
    let args = Args::parse();
    if let Some(path) = &args.replay {
        let v: Value = serde_json::from_str(&std::fs::read_to_string(path).expect("read replay")).expect("json");
        let case: Case = serde_json::from_value(v["history"]["case"].clone()).expect("case");
        let mut report = Report::new("C10");
        execute(&case, &mut report);
        println!("{}", serde_json::to_string_pretty(&report.to_json()).unwrap());
        std::process::exit(if report.violation_count > 0 { 1 } else { 0 });
    }
    let n_cases = match args.tier.as_str() {
        "miri" => 5,
        "tsan" => 60,
        _ => args.size(2_000, 100_000),
    };
    let small = args.tier == "miri";
    let mut report = run_workers(&args, "C10", |w, n, rng, report| {
        for i in 0..Args::share(n_cases, w, n) {
            let driver = match i % 10 {
                0..=3 => 0,
                4..=5 => 1,
                6..=7 => 2,
                8 => 3,
                _ => {
                    if small { 0 } else { 4 }
                }
            } as u8;
            let max_len = if small { 20 } else if driver == 1 { 60 } else { 400 };
            let enabled = rng.bool();
            let events = gen_events(rng, max_len, enabled);
            let snap_at = if rng.chance(1, 3) { rng.usize_below(events.len() / 2 + 1) } else { 0 };
            execute(&Case { driver, enabled, snap_at, events }, report);
        }
    });
    if !small {
        for c in [
            "driver:process_with_audit",
            "driver:sync_run_with_audit",
            "driver:async_run_with_audit",
            "driver:system_builder_audit_enabled",
            "snapshot_taken_mid_history",
            "engine_time_went_back_between_two_records",
            "terminal:shutdown",
            "terminal:feed_ended",
            "terminal:fatal_error",
            "fault:record_deleted",
            "fault:record_duplicated",
            "fault:records_swapped",
            "fault:batch_of_records_redelivered",
            "fault:record_lost_and_consumer_keeps_draining",
        ] {
            report.require(c);
        }
    }
    std::process::exit(report.finish(args.out.as_deref()));
}
