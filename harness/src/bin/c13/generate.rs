//! Random instrument sets and probe lists (subscribed-market messages, unsubscribed-market
//! messages, other-channel messages) for one (connector, kind) pair.

use crate::{model::*, venue};
use rust_decimal::Decimal;
use std::collections::{BTreeMap, HashSet};
use vharness::Rng;

const ASSETS: &[&str] = &[
    "btc", "BTC", "Btc", "btcb", "BTCB", "eth", "ETH", "ethw", "usdt", "USDT", "UsDt", "usd", "USD", "usdc", "busd", "BUSD", "xbt", "XBT",
    "1000shib", "1000SHIB", "shib", "SHIB1000", "1inch", "sol", "SOL", "s", "t", "T", "a", "b", "10000nft", "eur", "EUR", "dai", "Dai",
];
const ALNUM: &[u8] = b"abcdefghijklmnopqrstuvwxyzABCDEFGHIJKLMNOPQRSTUVWXYZ0123456789";
const UPPER_DIGIT: &[u8] = b"ABCDEFGHIJKLMNOPQRSTUVWXYZ0123456789";

fn gen_asset(rng: &mut Rng) -> String {
    if rng.chance(4, 5) {
        rng.pick(ASSETS).to_string()
    } else {
        (0..rng.range_u(1, 7)).map(|_| *rng.pick(ALNUM) as char).collect()
    }
}

fn gen_kind(class: KindClass, rng: &mut Rng) -> KindSpec {
    // 2020-01-01 .. 2030-12-31
    let mut day = rng.range(18262, 22279);
    if rng.chance(1, 6) {
        // around New Year (Dec 29 .. Jan 3), where calendar year and ISO week-based year differ
        let year = rng.range(2021, 2030);
        let jan1 = chrono::NaiveDate::from_ymd_opt(year as i32, 1, 1).unwrap().signed_duration_since(chrono::NaiveDate::from_ymd_opt(1970, 1, 1).unwrap()).num_days();
        day = jan1 + rng.range(-3, 2);
    }
    let tod = if rng.chance(2, 3) { 8 * 3_600_000 } else { rng.range(0, 86_399_999) };
    let expiry_ms = day * 86_400_000 + tod;
    match class {
        KindClass::Spot => KindSpec::Spot,
        KindClass::Perp => KindSpec::Perpetual,
        KindClass::Fut => KindSpec::Future { expiry_ms },
        KindClass::Opt => {
            let strike = if rng.bool() {
                rng.pick(&["35000", "0.5", "1234.5", "100", "65000", "2.25", "3500", "350000", "0.175", "0.185", "0.0125", "0.00001234"]).to_string()
            } else {
                // option chains of low-priced underlyings quote strikes with many decimals
                Decimal::new(rng.range(1, 999_999), rng.range(0, 8) as u32).normalize().to_string()
            };
            KindSpec::Option { call: rng.bool(), exercise: rng.below(3) as u8, expiry_ms, strike }
        }
    }
}

fn gen_name_exchange(def: &PairDef, base: &str, quote: &str, plain: bool, rng: &mut Rng) -> String {
    let sep = if plain { "" } else { *rng.pick(&["", "", "-", "_", "/"]) };
    let suffix = if plain { "" } else { *rng.pick(&["", "", "", "-SWAP", "-231229", "_QUARTERLY_20201225", "-20211130-65000-C", "PERP"]) };
    let mut name = format!("{base}{sep}{quote}{suffix}");
    if def.venue == Venue::Bitfinex && rng.chance(7, 10) {
        name.insert(0, 't');
    }
    if def.venue.is_binance() || matches!(def.venue, Venue::KrakenTrade | Venue::KrakenSpread) {
        // `name_exchange` is the venue's own spelling of the instrument; Binance spells (and echoes)
        // symbols upper-case. Non-canonical spellings are only observed, not judged (see main.rs).
        name = name.to_uppercase();
    }
    name
}

pub fn gen_instr(def: &PairDef, rng: &mut Rng, class: KindClass, fixed: Option<(&str, &str)>) -> InstrSpec {
    let (base, quote) = match fixed {
        Some((b, q)) => (b.to_string(), q.to_string()),
        None => (gen_asset(rng), gen_asset(rng)),
    };
    let name_exchange = gen_name_exchange(def, &base, &quote, fixed.is_some(), rng);
    InstrSpec { key: 0, base, quote, kind: gen_kind(class, rng), name_exchange, chan_id: None, l2_seq: None }
}

#[derive(Default, Debug)]
pub struct GenInfo {
    pub strict_prefix: bool,
    pub common_prefix: bool,
    pub mixed_case: bool,
    pub collisions_skipped: u64,
    pub foreign_classes: Vec<&'static str>,
}

fn has_mixed_case(s: &str) -> bool {
    s.chars().any(|c| c.is_ascii_uppercase()) && s.chars().any(|c| c.is_ascii_lowercase())
}

enum Intent {
    Sub(usize),
    Foreign(String, &'static str),
    OtherChan(usize),
}

/// `single_tok(instrument)` = the (token, channel) the REAL mapper puts into the subscribe request
/// when this instrument is subscribed alone.
pub fn gen_case(
    def: &PairDef,
    sub_type: SubType,
    rng: &mut Rng,
    family: bool,
    single_tok: &dyn Fn(&InstrSpec) -> Result<ReqTok, String>,
) -> Result<(Case, GenInfo), String> {
    let mut info = GenInfo::default();
    let mut n = rng.range_u(1, 12);
    if def.kinds.len() > 1 {
        n = n.max(def.kinds.len());
    }
    let mut instruments: Vec<InstrSpec> = Vec::new();
    let mut toks: Vec<ReqTok> = Vec::new();
    let mut echoed: Vec<String> = Vec::new();
    let mut seen: HashSet<String> = HashSet::new();
    let mut attempts = 0;
    while instruments.len() < n && attempts < 80 {
        attempts += 1;
        let j = instruments.len();
        let class = if j < def.kinds.len() { def.kinds[j] } else { *rng.pick(def.kinds) };
        let fixed = match (family, j) {
            (true, 0) => Some(("btc", "usd")),
            (true, 1) => Some(("Btc", "USDT")),
            (true, 2) => Some(("btcb", "usd")),
            _ => None,
        };
        // the family members use the first kind class so that their tokens differ only in the names
        let class = if fixed.is_some() { def.kinds[0] } else { class };
        let mut ins = gen_instr(def, rng, class, fixed);
        if fixed.is_some() && j < 3 {
            // same contract terms within the family
            if let Some(first) = instruments.first() {
                ins.kind = first.kind.clone();
            }
        }
        let tok = single_tok(&ins)?;
        let e = venue::echo(def.venue, &tok.token);
        if !seen.insert(e.clone()) {
            info.collisions_skipped += 1;
            continue;
        }
        instruments.push(ins);
        toks.push(tok);
        echoed.push(e);
    }
    if instruments.is_empty() {
        return Err("could not generate a single instrument".into());
    }
    // distinct random keys
    let mut keys: HashSet<Key> = HashSet::new();
    for ins in instruments.iter_mut() {
        loop {
            let k = rng.below(1_000_000) as Key;
            if keys.insert(k) {
                ins.key = k;
                break;
            }
        }
    }
    // Bitfinex channel ids (adversarial: shared digit prefixes) / Binance L2 snapshot sequences
    let mut chan_ids: HashSet<u32> = HashSet::new();
    if def.venue == Venue::Bitfinex {
        let seed = rng.range(1, 9999) as u32;
        for (j, ins) in instruments.iter_mut().enumerate() {
            loop {
                let c = match (j, rng.below(3)) {
                    (0, _) => seed,
                    (_, 0) => seed * 10 + rng.below(10) as u32,
                    (_, 1) => seed + rng.range(1, 20) as u32,
                    _ => rng.range(1, 999_999) as u32,
                };
                if chan_ids.insert(c) {
                    ins.chan_id = Some(c);
                    break;
                }
            }
        }
    }
    if def.venue == Venue::BinanceL2 {
        for ins in instruments.iter_mut() {
            ins.l2_seq = Some(rng.range(10, 1 << 30) as u64);
        }
    }
    // coverage facts about the token set
    for a in 0..echoed.len() {
        for b in 0..echoed.len() {
            if a != b {
                if echoed[b].len() > echoed[a].len() && echoed[b].starts_with(&echoed[a]) {
                    info.strict_prefix = true;
                }
                if echoed[a].len() >= 3 && echoed[b].len() >= 3 && echoed[a][..3].eq_ignore_ascii_case(&echoed[b][..3]) {
                    info.common_prefix = true;
                }
            }
        }
    }
    info.mixed_case = instruments.iter().any(|i| match sub_type {
        SubType::Keyed => has_mixed_case(&i.base) || has_mixed_case(&i.quote),
        SubType::Mid => has_mixed_case(&i.name_exchange),
    });

    // what the venue calls each subscribed market in its messages
    let market_of = |j: usize| -> String {
        if def.venue == Venue::Bitfinex { instruments[j].chan_id.expect("chan id").to_string() } else { echoed[j].clone() }
    };
    let subscribed: HashSet<String> = (0..instruments.len()).map(market_of).collect();

    // intents
    let mut intents: Vec<Intent> = Vec::new();
    for j in 0..instruments.len() {
        intents.push(Intent::Sub(j));
        if rng.chance(1, 4) {
            intents.push(Intent::Sub(j));
        }
    }
    let mut foreign: Vec<(String, &'static str)> = Vec::new();
    let pick_j = rng.usize_below(instruments.len());
    let m = market_of(pick_j);
    if def.venue == Venue::Bitfinex {
        let id: u64 = m.parse().expect("chan id");
        foreign.push(((id * 10 + rng.below(10)).to_string(), "trailing_char"));
        foreign.push((format!("{}{}", rng.range(1, 9), id), "leading_char"));
        if id >= 10 {
            foreign.push(((id / 10).to_string(), "truncated"));
        }
        foreign.push(((id + 1).to_string(), "other_instrument"));
        foreign.push((rng.range(1, 4_000_000).to_string(), "other_instrument"));
        foreign.retain(|(t, _)| t.parse::<u64>().map(|x| x <= u32::MAX as u64 && x > 0).unwrap_or(false));
    } else {
        for _ in 0..2 {
            let class = *rng.pick(def.kinds);
            let other = gen_instr(def, rng, class, None);
            let t = single_tok(&other)?;
            foreign.push((venue::echo(def.venue, &t.token), "other_instrument"));
        }
        if !def.venue.is_binance() {
            // the venue namespace is case-sensitive as far as the repo documents
            let variant = if m.chars().any(|c| c.is_ascii_uppercase()) { m.to_lowercase() } else { m.to_uppercase() };
            foreign.push((variant, "case_variant"));
        }
        let c = *rng.pick(UPPER_DIGIT) as char;
        foreign.push((format!("{m}{c}"), "trailing_char"));
        foreign.push((format!("{c}{m}"), "leading_char"));
        if m.len() > 1 {
            foreign.push((m[..m.len() - 1].to_string(), "truncated"));
        }
    }
    foreign.retain(|(t, _)| !t.is_empty() && !subscribed.contains(t));
    if foreign.is_empty() {
        // practically unreachable; keeps the ">= 1 rejection per case" floor deterministic
        let mut t = format!("{m}0");
        while subscribed.contains(&t) {
            t.push('0');
        }
        foreign.push((t, "trailing_char"));
    }
    for (t, class) in foreign {
        info.foreign_classes.push(class);
        intents.push(Intent::Foreign(t, class));
    }
    if rng.chance(1, 2) {
        intents.push(Intent::OtherChan(rng.usize_below(instruments.len())));
    }
    rng.shuffle(&mut intents);
    // RUNS: one unsubscribed market sends two messages in a row (right after whatever preceded it), and one
    // subscribed market does the same - a connector sees runs of messages of one market all the time
    let foreign_at: Vec<usize> = intents.iter().enumerate().filter(|(_, i)| matches!(i, Intent::Foreign(..))).map(|(k, _)| k).collect();
    if !foreign_at.is_empty() {
        let k = *rng.pick(&foreign_at);
        if let Intent::Foreign(t, class) = &intents[k] {
            let again = Intent::Foreign(t.clone(), class);
            intents.insert(k + 1, again);
        }
    }
    let sub_at: Vec<usize> = intents.iter().enumerate().filter(|(_, i)| matches!(i, Intent::Sub(_))).map(|(k, _)| k).collect();
    if !sub_at.is_empty() {
        let k = *rng.pick(&sub_at);
        if let Intent::Sub(j) = &intents[k] {
            let again = Intent::Sub(*j);
            intents.insert(k + 1, again);
        }
    }

    // synthesise in final order (Binance L2 updates must be in sequence per book)
    let mut l2: BTreeMap<usize, venue::L2Seq> = BTreeMap::new();
    for (j, ins) in instruments.iter().enumerate() {
        if let Some(s) = ins.l2_seq {
            l2.insert(j, venue::L2Seq { snapshot: s, last_u: None });
        }
    }
    let channel0 = toks[0].channel.clone();
    let mut probes = Vec::new();
    for intent in intents {
        match intent {
            Intent::Sub(j) => {
                let (text, events) = venue::synth(def.venue, def.futures, &market_of(j), &toks[j].channel, rng, l2.get_mut(&j));
                probes.push(Probe { class: "subscribed".into(), text, expect: Expect::Events { key: instruments[j].key, events } });
            }
            Intent::Foreign(t, class) => {
                let (text, _) = venue::synth(def.venue, def.futures, &t, &channel0, rng, None);
                probes.push(Probe { class: class.into(), text, expect: Expect::Unidentifiable });
            }
            Intent::OtherChan(j) => {
                if let Some(text) = venue::other_channel(def.venue, def.futures, &market_of(j), &toks[j].channel, rng) {
                    info.foreign_classes.push("other_channel");
                    probes.push(Probe { class: "other_channel".into(), text, expect: Expect::NotOk });
                }
            }
        }
    }

    // Bitfinex: order in which the venue answers (subscribed_i before snapshot_i, otherwise free)
    let mut bitfinex_order: Vec<Key> = Vec::new();
    if def.venue == Venue::Bitfinex {
        bitfinex_order = instruments.iter().flat_map(|i| [i.key, i.key]).collect();
        rng.shuffle(&mut bitfinex_order);
    }
    Ok((Case { pair: def.name.to_string(), sub_type, instruments, bitfinex_order, probes }, info))
}
