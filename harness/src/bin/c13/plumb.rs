//! Type-level plumbing: runs the REAL `WebSocketSubMapper::map`, the REAL transformer behind a REAL
//! `ExchangeStream<WebSocketParser, _, Transformer>` (fed with `WsMessage::Text` through an in-memory
//! channel), and the REAL `BitfinexWebSocketSubValidator::validate` against a loopback WebSocket
//! server, for each of the 21 (connector, kind) pairs of `DynamicStreams::init`.

use crate::model::*;
use barter_data::{
    Identifier,
    books::{Level, OrderBook},
    error::DataError,
    event::MarketEvent,
    exchange::{
        Connector,
        binance::{
            book::l1::BinanceOrderBookL1,
            futures::{BinanceFuturesUsd, l2::BinanceFuturesUsdOrderBooksL2Transformer, liquidation::BinanceLiquidation},
            spot::{BinanceSpot, l2::BinanceSpotOrderBooksL2Transformer},
            trade::BinanceTrade,
        },
        bitfinex::{Bitfinex, message::BitfinexMessage, validator::BitfinexWebSocketSubValidator},
        bitmex::{Bitmex, trade::BitmexTrade},
        bybit::{futures::BybitPerpetualsUsd, message::BybitMessage, spot::BybitSpot},
        coinbase::{Coinbase, trade::CoinbaseTrade},
        gateio::{
            future::{GateioFuturesBtc, GateioFuturesUsd},
            option::GateioOptions,
            perpetual::{GateioPerpetualsBtc, GateioPerpetualsUsd, trade::GateioFuturesTrades},
            spot::{GateioSpot, trade::GateioSpotTrade},
        },
        kraken::{Kraken, book::l1::KrakenOrderBookL1, trade::KrakenTrades},
        okx::{Okx, trade::OkxTrades},
    },
    instrument::MarketInstrumentData,
    process_buffered_events,
    subscriber::{
        mapper::{SubscriptionMapper, WebSocketSubMapper},
        validator::SubscriptionValidator,
    },
    subscription::{
        Map, Subscription, SubscriptionKind, SubscriptionMeta,
        book::{OrderBookEvent, OrderBookL1, OrderBooksL1, OrderBooksL2},
        liquidation::{Liquidation, Liquidations},
        trade::{PublicTrade, PublicTrades},
    },
    transformer::{ExchangeTransformer, stateless::StatelessTransformer},
};
use barter_instrument::{
    Keyed,
    instrument::{market_data::MarketDataInstrument, name::InstrumentNameExchange},
};
use barter_integration::{
    error::SocketError,
    protocol::websocket::{WebSocketParser, WsError, WsMessage, connect},
    stream::ExchangeStream,
    subscription::SubscriptionId,
};
use chrono::Utc;
use futures::{SinkExt, StreamExt};
use std::{
    collections::{BTreeMap, VecDeque},
    task::{Context, Poll},
    time::Duration,
};
use vharness::catch;

// ---------------------------------------------------------------------------------------------
// observation of the normalised event kinds

pub trait Observe: Sized {
    fn body(&self) -> Body;
    fn snapshot(_sequence: u64) -> Option<Self> {
        None
    }
}

fn lvl(l: &Level) -> (rust_decimal::Decimal, rust_decimal::Decimal) {
    (l.price, l.amount)
}

impl Observe for PublicTrade {
    fn body(&self) -> Body {
        Body::Trade { price: self.price, amount: self.amount, side: self.side }
    }
}

impl Observe for OrderBookL1 {
    fn body(&self) -> Body {
        Body::L1 { bid: self.best_bid.as_ref().map(lvl), ask: self.best_ask.as_ref().map(lvl), update_ns: ns_of(self.last_update_time) }
    }
}

impl Observe for Liquidation {
    fn body(&self) -> Body {
        Body::Liq { price: self.price, qty: self.quantity, side: self.side, time_ns: ns_of(self.time) }
    }
}

impl Observe for OrderBookEvent {
    fn body(&self) -> Body {
        let (snapshot, book) = match self {
            OrderBookEvent::Snapshot(b) => (true, b),
            OrderBookEvent::Update(b) => (false, b),
        };
        Body::L2 {
            snapshot,
            sequence: book.sequence,
            bids: book.bids().levels().iter().map(lvl).collect(),
            asks: book.asks().levels().iter().map(lvl).collect(),
        }
    }
    fn snapshot(sequence: u64) -> Option<Self> {
        Some(OrderBookEvent::Snapshot(OrderBook::new(sequence, None, Vec::<Level>::new(), Vec::<Level>::new())))
    }
}

// ---------------------------------------------------------------------------------------------
// error classification, using the repo's own Display of the error it promises

pub struct ErrClass {
    unidentifiable_prefix: String,
    deserialise_prefix: String,
}

impl ErrClass {
    pub fn new() -> Self {
        let DataError::Socket(unid) = DataError::from(SocketError::Unidentifiable(SubscriptionId::from(""))) else {
            panic!("SocketError no longer converts into DataError::Socket");
        };
        let serde_err = serde_json::from_str::<u8>("x").unwrap_err();
        let de = SocketError::Deserialise { error: serde_err, payload: String::new() }.to_string();
        let deserialise_prefix = de.split(':').next().unwrap_or("").to_string();
        Self { unidentifiable_prefix: unid, deserialise_prefix }
    }

    fn classify<T: Observe>(&self, item: Result<MarketEvent<Key, T>, DataError>) -> Out {
        match item {
            Ok(ev) => Out::Event(ObsEvent { exchange: ev.exchange, key: ev.instrument, time_ns: ns_of(ev.time_exchange), body: ev.kind.body() }),
            Err(DataError::Socket(s)) if s.starts_with(&self.unidentifiable_prefix) => Out::Unidentifiable(s[self.unidentifiable_prefix.len()..].to_string()),
            Err(DataError::Socket(s)) if !self.deserialise_prefix.is_empty() && s.starts_with(&self.deserialise_prefix) => {
                Out::Parse(s.chars().take(200).collect())
            }
            Err(other) => Out::OtherErr(format!("{other:?}").chars().take(200).collect()),
        }
    }
}

// ---------------------------------------------------------------------------------------------
// generic: subscriptions -> (Map, subscribe request texts)

pub struct Mapped {
    pub map: Map<Key>,
    pub requests: Vec<String>,
}

pub struct StreamRun {
    /// outputs of messages buffered during subscription validation (Bitfinex snapshots)
    pub pre: Vec<Out>,
    pub per_msg: Vec<Vec<Out>>,
    pub panic: Option<(usize, String)>,
}

fn map_subs<Ex, Kind, Tr>(sub_type: SubType, instrs: &[InstrSpec]) -> Result<Mapped, String>
where
    Ex: Connector,
    Kind: SubscriptionKind + Default,
    Subscription<Ex, Keyed<Key, MarketDataInstrument>, Kind>: Identifier<Ex::Channel> + Identifier<Ex::Market>,
    Subscription<Ex, MarketInstrumentData<Key>, Kind>: Identifier<Ex::Channel> + Identifier<Ex::Market>,
{
    let meta: SubscriptionMeta<Key> = match sub_type {
        SubType::Keyed => {
            let subs: Vec<Subscription<Ex, Keyed<Key, MarketDataInstrument>, Kind>> = instrs
                .iter()
                .map(|i| Subscription::new(Ex::default(), Keyed::new(i.key, i.market_data_instrument()), Kind::default()))
                .collect();
            WebSocketSubMapper::map::<Ex, Keyed<Key, MarketDataInstrument>, Kind>(&subs)
        }
        SubType::Mid => {
            let subs: Vec<Subscription<Ex, MarketInstrumentData<Key>, Kind>> = instrs
                .iter()
                .map(|i| {
                    Subscription::new(
                        Ex::default(),
                        MarketInstrumentData { key: i.key, name_exchange: InstrumentNameExchange::new(i.name_exchange.as_str()), kind: i.kind.to_kind() },
                        Kind::default(),
                    )
                })
                .collect();
            WebSocketSubMapper::map::<Ex, MarketInstrumentData<Key>, Kind>(&subs)
        }
    };
    let mut requests = Vec::new();
    for m in meta.ws_subscriptions {
        match m {
            WsMessage::Text(t) => requests.push(t.to_string()),
            other => return Err(format!("non-text subscribe request: {other:?}")),
        }
    }
    Ok(Mapped { map: meta.instrument_map, requests })
}

fn run_stream<Ex, Kind, Tr>(errs: &ErrClass, map: Map<Key>, snaps: &[(Key, u64)], buffered: Vec<WsMessage>, texts: &[String]) -> Result<StreamRun, String>
where
    Ex: Connector,
    Kind: SubscriptionKind,
    Kind::Event: Observe,
    Tr: ExchangeTransformer<Ex, Key, Kind>,
{
    let snapshots: Vec<MarketEvent<Key, Kind::Event>> = snaps
        .iter()
        .filter_map(|(k, seq)| {
            <Kind::Event as Observe>::snapshot(*seq).map(|kind| MarketEvent {
                time_exchange: Utc::now(),
                time_received: Utc::now(),
                exchange: Ex::ID,
                instrument: *k,
                kind,
            })
        })
        .collect();
    let (sink_tx, _sink_rx) = tokio::sync::mpsc::unbounded_channel::<WsMessage>();
    let mut transformer = futures::executor::block_on(Tr::init(map, &snapshots, sink_tx)).map_err(|e| format!("transformer init failed: {e}"))?;
    let pre_buf: VecDeque<_> = process_buffered_events::<WebSocketParser, Tr>(&mut transformer, buffered);
    let (tx, rx) = futures::channel::mpsc::unbounded::<Result<WsMessage, WsError>>();
    let mut stream = ExchangeStream::<WebSocketParser, _, Tr>::new(rx, transformer, pre_buf);
    let waker = futures::task::noop_waker();
    let mut cx = Context::from_waker(&waker);

    let mut run = StreamRun { pre: Vec::new(), per_msg: Vec::new(), panic: None };
    // flush what validation buffered
    while let Poll::Ready(Some(item)) = stream.poll_next_unpin(&mut cx) {
        run.pre.push(errs.classify(item));
    }
    for (idx, text) in texts.iter().enumerate() {
        tx.unbounded_send(Ok(WsMessage::text(text.clone()))).map_err(|e| format!("in-memory stream closed: {e}"))?;
        let res = catch(|| {
            let mut outs = Vec::new();
            while let Poll::Ready(Some(item)) = stream.poll_next_unpin(&mut cx) {
                outs.push(errs.classify(item));
            }
            outs
        });
        match res {
            Ok(outs) => run.per_msg.push(outs),
            Err(msg) => {
                run.panic = Some((idx, msg));
                break;
            }
        }
    }
    Ok(run)
}

macro_rules! for_pair {
    ($pair:expr, $f:ident ( $($arg:expr),* )) => {
        match $pair {
            "BinanceSpot:PublicTrades" => $f::<BinanceSpot, PublicTrades, StatelessTransformer<BinanceSpot, Key, PublicTrades, BinanceTrade>>($($arg),*),
            "BinanceSpot:OrderBooksL1" => $f::<BinanceSpot, OrderBooksL1, StatelessTransformer<BinanceSpot, Key, OrderBooksL1, BinanceOrderBookL1>>($($arg),*),
            "BinanceSpot:OrderBooksL2" => $f::<BinanceSpot, OrderBooksL2, BinanceSpotOrderBooksL2Transformer<Key>>($($arg),*),
            "BinanceFuturesUsd:PublicTrades" => $f::<BinanceFuturesUsd, PublicTrades, StatelessTransformer<BinanceFuturesUsd, Key, PublicTrades, BinanceTrade>>($($arg),*),
            "BinanceFuturesUsd:OrderBooksL1" => $f::<BinanceFuturesUsd, OrderBooksL1, StatelessTransformer<BinanceFuturesUsd, Key, OrderBooksL1, BinanceOrderBookL1>>($($arg),*),
            "BinanceFuturesUsd:OrderBooksL2" => $f::<BinanceFuturesUsd, OrderBooksL2, BinanceFuturesUsdOrderBooksL2Transformer<Key>>($($arg),*),
            "BinanceFuturesUsd:Liquidations" => $f::<BinanceFuturesUsd, Liquidations, StatelessTransformer<BinanceFuturesUsd, Key, Liquidations, BinanceLiquidation>>($($arg),*),
            "Bitfinex:PublicTrades" => $f::<Bitfinex, PublicTrades, StatelessTransformer<Bitfinex, Key, PublicTrades, BitfinexMessage>>($($arg),*),
            "Bitmex:PublicTrades" => $f::<Bitmex, PublicTrades, StatelessTransformer<Bitmex, Key, PublicTrades, BitmexTrade>>($($arg),*),
            "BybitSpot:PublicTrades" => $f::<BybitSpot, PublicTrades, StatelessTransformer<BybitSpot, Key, PublicTrades, BybitMessage>>($($arg),*),
            "BybitPerpetualsUsd:PublicTrades" => $f::<BybitPerpetualsUsd, PublicTrades, StatelessTransformer<BybitPerpetualsUsd, Key, PublicTrades, BybitMessage>>($($arg),*),
            "Coinbase:PublicTrades" => $f::<Coinbase, PublicTrades, StatelessTransformer<Coinbase, Key, PublicTrades, CoinbaseTrade>>($($arg),*),
            "GateioSpot:PublicTrades" => $f::<GateioSpot, PublicTrades, StatelessTransformer<GateioSpot, Key, PublicTrades, GateioSpotTrade>>($($arg),*),
            "GateioFuturesUsd:PublicTrades" => $f::<GateioFuturesUsd, PublicTrades, StatelessTransformer<GateioFuturesUsd, Key, PublicTrades, GateioFuturesTrades>>($($arg),*),
            "GateioFuturesBtc:PublicTrades" => $f::<GateioFuturesBtc, PublicTrades, StatelessTransformer<GateioFuturesBtc, Key, PublicTrades, GateioFuturesTrades>>($($arg),*),
            "GateioPerpetualsUsd:PublicTrades" => $f::<GateioPerpetualsUsd, PublicTrades, StatelessTransformer<GateioPerpetualsUsd, Key, PublicTrades, GateioFuturesTrades>>($($arg),*),
            "GateioPerpetualsBtc:PublicTrades" => $f::<GateioPerpetualsBtc, PublicTrades, StatelessTransformer<GateioPerpetualsBtc, Key, PublicTrades, GateioFuturesTrades>>($($arg),*),
            "GateioOptions:PublicTrades" => $f::<GateioOptions, PublicTrades, StatelessTransformer<GateioOptions, Key, PublicTrades, GateioFuturesTrades>>($($arg),*),
            "Kraken:PublicTrades" => $f::<Kraken, PublicTrades, StatelessTransformer<Kraken, Key, PublicTrades, KrakenTrades>>($($arg),*),
            "Kraken:OrderBooksL1" => $f::<Kraken, OrderBooksL1, StatelessTransformer<Kraken, Key, OrderBooksL1, KrakenOrderBookL1>>($($arg),*),
            "Okx:PublicTrades" => $f::<Okx, PublicTrades, StatelessTransformer<Okx, Key, PublicTrades, OkxTrades>>($($arg),*),
            other => Err(format!("unknown pair {other}")),
        }
    };
}

/// The real mapper for `pair`: `Map` (subscription id -> key) and the subscribe request texts.
pub fn map_pair(pair: &str, sub_type: SubType, instrs: &[InstrSpec]) -> Result<Mapped, String> {
    for_pair!(pair, map_subs(sub_type, instrs))
}

/// The real transformer of `pair` behind a real `ExchangeStream`, fed one text message at a time.
pub fn stream_pair(pair: &str, errs: &ErrClass, map: Map<Key>, snaps: &[(Key, u64)], buffered: Vec<WsMessage>, texts: &[String]) -> Result<StreamRun, String> {
    for_pair!(pair, run_stream(errs, map, snaps, buffered, texts))
}

// ---------------------------------------------------------------------------------------------
// Bitfinex: the real validator against a loopback venue

pub struct SocketEnv {
    rt: tokio::runtime::Runtime,
    listener: tokio::net::TcpListener,
    port: u16,
}

impl SocketEnv {
    pub fn new() -> Result<Self, String> {
        let rt = tokio::runtime::Builder::new_current_thread().enable_all().build().map_err(|e| format!("tokio runtime: {e}"))?;
        let listener = rt.block_on(tokio::net::TcpListener::bind("127.0.0.1:0")).map_err(|e| format!("bind loopback: {e}"))?;
        let port = listener.local_addr().map_err(|e| format!("local addr: {e}"))?.port();
        Ok(Self { rt, listener, port })
    }
}

pub enum ValidateOutcome {
    Ok(Map<Key>, Vec<WsMessage>),
    /// the validator returned an error although the venue confirmed every subscription
    Rejected(String),
    /// trouble of the harness itself (loopback IO, timeout)
    Harness(String),
}

/// `chan_of_symbol`: channel id the venue assigns to the subscription of each requested symbol;
/// `order`: symbols, each twice: first occurrence = `subscribed` event, second = initial snapshot.
pub fn bitfinex_validate(env: &SocketEnv, map: Map<Key>, requests: &[String], chan_of_symbol: &BTreeMap<String, u32>, order: &[String]) -> ValidateOutcome {
    let url = format!("ws://127.0.0.1:{}", env.port);
    let n = requests.len();
    let fut = async {
        let (done_tx, done_rx) = tokio::sync::oneshot::channel::<()>();
        let server = async {
            let (tcp, _) = env.listener.accept().await.map_err(|e| format!("accept: {e}"))?;
            let _ = tcp.set_nodelay(true);
            let mut ws = tokio_tungstenite::accept_async(tcp).await.map_err(|e| format!("ws accept: {e}"))?;
            ws.send(WsMessage::text(r#"{"event":"info","version":2,"serverId":"5b73a436-19ca-4a15-8160-9069bdd7f181","platform":{"status":1}}"#))
                .await
                .map_err(|e| format!("send info: {e}"))?;
            // read the subscribe requests from the wire
            let mut asked: Vec<(String, String)> = Vec::new();
            while asked.len() < n {
                match ws.next().await {
                    Some(Ok(WsMessage::Text(t))) => {
                        let v: serde_json::Value = serde_json::from_str(&t).map_err(|e| format!("venue got non-JSON request: {e}"))?;
                        if v["event"] != "subscribe" {
                            return Err(format!("venue got unexpected request {t}"));
                        }
                        asked.push((v["channel"].as_str().unwrap_or("").to_string(), v["symbol"].as_str().unwrap_or("").to_string()));
                        // a protocol-level ping after each request lets the TCP ACK piggy-back on data
                        // (otherwise Nagle on the client + delayed ACK here cost 40 ms per session)
                        ws.send(WsMessage::Ping(Vec::new().into())).await.map_err(|e| format!("venue ping: {e}"))?;
                    }
                    Some(Ok(_)) => continue,
                    other => return Err(format!("venue: client went away: {other:?}")),
                }
            }
            let mut seen: Vec<&String> = Vec::new();
            for sym in order {
                let Some((channel, symbol)) = asked.iter().find(|(_, s)| s == sym) else {
                    return Err(format!("venue: symbol {sym} was never requested (requests {asked:?})"));
                };
                let chan = chan_of_symbol.get(sym).ok_or_else(|| format!("no channel id scripted for {sym}"))?;
                let msg = if !seen.contains(&sym) {
                    seen.push(sym);
                    let pair = symbol.strip_prefix('t').unwrap_or(symbol);
                    serde_json::json!({"event":"subscribed","channel":channel,"chanId":chan,"symbol":symbol,"pair":pair}).to_string()
                } else {
                    format!("[{chan},[[1225484398,1665452200022,0.5,19027.5],[1225484397,1665452200021,-0.25,19027]]]")
                };
                ws.send(WsMessage::text(msg)).await.map_err(|e| format!("venue send: {e}"))?;
            }
            let _ = done_rx.await;
            Ok::<(), String>(())
        };
        let client = async {
            let res = async {
                let mut ws = connect(url.clone()).await.map_err(|e| ValidateOutcome::Harness(format!("connect: {e}")))?;
                for r in requests {
                    ws.send(WsMessage::text(r.clone())).await.map_err(|e| ValidateOutcome::Harness(format!("send request: {e}")))?;
                }
                let out = BitfinexWebSocketSubValidator::validate::<Bitfinex, Key, PublicTrades>(map, &mut ws).await;
                Ok::<_, ValidateOutcome>(out)
            }
            .await;
            let _ = done_tx.send(());
            res
        };
        tokio::join!(server, client)
    };
    let joined = env.rt.block_on(async { tokio::time::timeout(Duration::from_secs(30), fut).await });
    match joined {
        Err(_) => ValidateOutcome::Harness("bitfinex loopback session timed out (30 s)".into()),
        Ok((Err(server_err), _)) => ValidateOutcome::Harness(server_err),
        Ok((Ok(()), Err(h))) => h,
        Ok((Ok(()), Ok(Ok((map, buffered))))) => ValidateOutcome::Ok(map, buffered),
        Ok((Ok(()), Ok(Err(e)))) => {
            let s = e.to_string();
            if s.contains("timeout") { ValidateOutcome::Harness(format!("validator timed out: {s}")) } else { ValidateOutcome::Rejected(s) }
        }
    }
}

// ---------------------------------------------------------------------------------------------
// Subscription-validation window: the real `WebSocketSubValidator` against a loopback venue that sends
// market data BETWEEN its subscription acknowledgements (one ack per subscription: Okx, Kraken, ...).
// The validator buffers those messages; `MarketStream::init` replays them through
// `process_buffered_events` (done by `run_stream` with the returned buffer).

fn window_validate_generic<Ex, Kind, Tr>(env: &SocketEnv, map: Map<Key>, messages: &[String]) -> ValidateOutcome
where
    Ex: Connector + Send,
    Kind: SubscriptionKind + Send,
    Tr: ExchangeTransformer<Ex, Key, Kind>,
{
    use barter_data::subscriber::validator::{SubscriptionValidator, WebSocketSubValidator};
    let url = format!("ws://127.0.0.1:{}", env.port);
    let fut = async {
        let (done_tx, done_rx) = tokio::sync::oneshot::channel::<()>();
        let server = async {
            let (tcp, _) = env.listener.accept().await.map_err(|e| format!("accept: {e}"))?;
            let _ = tcp.set_nodelay(true);
            let mut ws = tokio_tungstenite::accept_async(tcp).await.map_err(|e| format!("ws accept: {e}"))?;
            for m in messages {
                ws.send(WsMessage::text(m.clone())).await.map_err(|e| format!("venue send: {e}"))?;
            }
            let _ = done_rx.await;
            Ok::<(), String>(())
        };
        let client = async {
            let res = async {
                let mut ws = connect(url.clone()).await.map_err(|e| ValidateOutcome::Harness(format!("connect: {e}")))?;
                let out = WebSocketSubValidator::validate::<Ex, Key, Kind>(map, &mut ws).await;
                Ok::<_, ValidateOutcome>(out)
            }
            .await;
            let _ = done_tx.send(());
            res
        };
        tokio::join!(server, client)
    };
    let joined = env.rt.block_on(async { tokio::time::timeout(Duration::from_secs(30), fut).await });
    match joined {
        Err(_) => ValidateOutcome::Harness("loopback session timed out (30 s)".into()),
        Ok((Err(server_err), _)) => ValidateOutcome::Harness(server_err),
        Ok((Ok(()), Err(h))) => h,
        Ok((Ok(()), Ok(Ok((map, buffered))))) => ValidateOutcome::Ok(map, buffered),
        Ok((Ok(()), Ok(Err(e)))) => {
            let s = e.to_string();
            if s.contains("timeout") { ValidateOutcome::Harness(format!("validator timed out: {s}")) } else { ValidateOutcome::Rejected(s) }
        }
    }
}

pub fn window_validate(pair: &str, env: &SocketEnv, map: Map<Key>, messages: &[String]) -> ValidateOutcome {
    let r: Result<ValidateOutcome, String> = for_pair!(pair, window_ok(env, map, messages));
    r.unwrap_or_else(ValidateOutcome::Harness)
}

fn window_ok<Ex, Kind, Tr>(env: &SocketEnv, map: Map<Key>, messages: &[String]) -> Result<ValidateOutcome, String>
where
    Ex: Connector + Send,
    Kind: SubscriptionKind + Send,
    Tr: ExchangeTransformer<Ex, Key, Kind>,
{
    Ok(window_validate_generic::<Ex, Kind, Tr>(env, map, messages))
}
