//! Venue side of the simulation: where the market token sits in a generated subscribe request,
//! what the venue echoes for it, and wire payload synthesis per connector (formats: DESIGN.md
//! appendix B, taken from the repo's doc comments / sample payloads in its unit tests).

use crate::model::*;
use chrono::{DateTime, SecondsFormat, Utc};
use rust_decimal::Decimal;
use serde_json::Value;
use vharness::Rng;

fn q(s: &str) -> String {
    serde_json::to_string(s).expect("json string")
}

/// Extract (market token, channel) pairs from one generated subscribe request.
pub fn extract_tokens(venue: Venue, request: &str) -> Result<Vec<ReqTok>, String> {
    let v: Value = serde_json::from_str(request).map_err(|e| format!("subscribe request is not JSON: {e}: {request}"))?;
    let bad = |what: &str| format!("subscribe request lacks {what}: {request}");
    let strs = |x: &Value, what: &str| -> Result<Vec<String>, String> {
        x.as_array()
            .ok_or_else(|| bad(what))?
            .iter()
            .map(|s| s.as_str().map(str::to_string).ok_or_else(|| bad(what)))
            .collect()
    };
    let split_at = |s: &str, sep: char, chan_first: bool| -> Result<ReqTok, String> {
        let i = s.find(sep).ok_or_else(|| bad("separator in stream name"))?;
        Ok(if chan_first {
            ReqTok { channel: s[..i].to_string(), token: s[i + sep.len_utf8()..].to_string() }
        } else {
            // Binance: "<market>@<stream>": the channel keeps its leading '@'
            ReqTok { token: s[..i].to_string(), channel: s[i..].to_string() }
        })
    };
    match venue {
        Venue::BinanceTrade | Venue::BinanceL1 | Venue::BinanceL2 | Venue::BinanceLiq => {
            strs(&v["params"], "params")?.iter().map(|s| split_at(s, '@', false)).collect()
        }
        Venue::Bitfinex => Ok(vec![ReqTok {
            token: v["symbol"].as_str().ok_or_else(|| bad("symbol"))?.to_string(),
            channel: v["channel"].as_str().ok_or_else(|| bad("channel"))?.to_string(),
        }]),
        Venue::Bitmex => strs(&v["args"], "args")?.iter().map(|s| split_at(s, ':', true)).collect(),
        Venue::Bybit => strs(&v["args"], "args")?.iter().map(|s| split_at(s, '.', true)).collect(),
        Venue::Coinbase => {
            let chans = strs(&v["channels"], "channels")?;
            let chan = chans.first().ok_or_else(|| bad("channels[0]"))?;
            Ok(strs(&v["product_ids"], "product_ids")?.into_iter().map(|t| ReqTok { token: t, channel: chan.clone() }).collect())
        }
        Venue::GateioSpot | Venue::GateioDeriv => {
            let chan = v["channel"].as_str().ok_or_else(|| bad("channel"))?.to_string();
            Ok(strs(&v["payload"], "payload")?.into_iter().map(|t| ReqTok { token: t, channel: chan.clone() }).collect())
        }
        Venue::KrakenTrade | Venue::KrakenSpread => {
            let chan = v["subscription"]["name"].as_str().ok_or_else(|| bad("subscription.name"))?.to_string();
            Ok(strs(&v["pair"], "pair")?.into_iter().map(|t| ReqTok { token: t, channel: chan.clone() }).collect())
        }
        Venue::Okx => v["args"]
            .as_array()
            .ok_or_else(|| bad("args"))?
            .iter()
            .map(|a| {
                Ok(ReqTok {
                    token: a["instId"].as_str().ok_or_else(|| bad("instId"))?.to_string(),
                    channel: a["channel"].as_str().ok_or_else(|| bad("channel"))?.to_string(),
                })
            })
            .collect(),
    }
}

/// What the venue puts into its messages for a market that was subscribed as `token`.
/// Binance: subscribed lower-case, echoed upper-case (documented in binance/market.rs and
/// binance/mod.rs). Kraken: pairs are spelled upper-case by the venue - the repo documents it in
/// kraken/subscription.rs (the `subscribed` reply carries `"pair": "XBT/USD"`), kraken/message.rs,
/// kraken/trade.rs (`trade|XBT/USD`) and kraken/book/l1.rs (`spread|XBT/USD`). Every other
/// connector: identity (nothing else is documented in the repo).
pub fn echo(venue: Venue, token: &str) -> String {
    if venue.is_binance() || matches!(venue, Venue::KrakenTrade | Venue::KrakenSpread) { token.to_uppercase() } else { token.to_string() }
}

// ---------------------------------------------------------------------------------------------
// value generators: decimal literals that every correctly rounding parser maps to the same f64
// (mantissa < 2^53, |exponent| <= 22)

pub fn dec_text(rng: &mut Rng, max_digits: u32, max_scale: u32) -> String {
    let d = rng.range(1, max_digits as i64) as u32;
    let m = rng.range(1, 10i64.pow(d) - 1);
    let scale = rng.range(0, max_scale as i64) as u32;
    let mut s = Decimal::new(m, scale).to_string();
    if scale > 0 && rng.chance(1, 3) {
        for _ in 0..rng.range(1, 2) {
            s.push('0');
        }
    }
    s
}

fn int_text(rng: &mut Rng, max_digits: u32) -> String {
    let d = rng.range(1, max_digits as i64) as u32;
    rng.range(1, 10i64.pow(d) - 1).to_string()
}

fn ms(rng: &mut Rng) -> i64 {
    rng.range(1_500_000_000_000, 1_900_000_000_000)
}

fn iso(us: i64, fmt: SecondsFormat) -> String {
    DateTime::<Utc>::from_timestamp_micros(us).expect("ts").to_rfc3339_opts(fmt, true)
}

fn uuid(rng: &mut Rng) -> String {
    format!("{:08x}-{:04x}-{:04x}-{:04x}-{:012x}", rng.below(1 << 32), rng.below(1 << 16), rng.below(1 << 16), rng.below(1 << 16), rng.below(1 << 48))
}

fn trade(price: &str, amount: &str, buy: bool, time_ns: Option<i64>, tol: i64) -> ExpEvent {
    ExpEvent { time_ns, time_tol_ns: tol, body: ExpBody::Trade { price: price.to_string(), amount: amount.to_string(), buy } }
}

fn levels(rng: &mut Rng, n: usize) -> Vec<(String, String)> {
    let mut out: Vec<(String, String)> = Vec::new();
    while out.len() < n {
        let p = dec_text(rng, 8, 8);
        let pd: Decimal = p.parse().expect("dec");
        if out.iter().any(|(x, _)| x.parse::<Decimal>().expect("dec") == pd) {
            continue;
        }
        out.push((p, dec_text(rng, 8, 8)));
    }
    out
}

fn levels_json(ls: &[(String, String)]) -> String {
    let items: Vec<String> = ls.iter().map(|(p, a)| format!("[\"{p}\",\"{a}\"]")).collect();
    format!("[{}]", items.join(","))
}

/// Sequencing state of one Binance L2 book (only so that generated updates are in sequence; the
/// sequencing rules themselves are C06's subject).
#[derive(Clone, Debug)]
pub struct L2Seq {
    pub snapshot: u64,
    pub last_u: Option<u64>,
}

/// Synthesize one venue message of wire family `venue` for `market` (echoed token; for Bitfinex the
/// channel id) on `channel`. Returns the text and the events a correct normaliser produces.
/// One top-of-book message in six states only ONE side (the other is empty: price and amount zero).
fn one_sided(rng: &mut Rng, bp: &mut String, ba: &mut String, ap: &mut String, aa: &mut String) {
    match rng.below(12) {
        0 => {
            *bp = "0.00000000".into();
            *ba = "0.00000000".into();
        }
        1 => {
            *ap = "0.00000000".into();
            *aa = "0.00000000".into();
        }
        _ => {}
    }
}

pub fn synth(venue: Venue, futures: bool, market: &str, channel: &str, rng: &mut Rng, l2: Option<&mut L2Seq>) -> (String, Vec<ExpEvent>) {
    let m = q(market);
    match venue {
        Venue::BinanceTrade => {
            let t = ms(rng);
            let (p, a) = (dec_text(rng, 9, 8), dec_text(rng, 9, 8));
            let maker = rng.bool();
            let id = rng.below(1 << 40);
            // "E" is when the venue pushed the event, "T" when the trade happened: the trade time is what is stated
            let e = t + rng.range(1, 9);
            let text = if futures {
                format!(r#"{{"e":"trade","E":{e},"T":{t},"s":{m},"t":{id},"p":"{p}","q":"{a}","X":"MARKET","m":{maker}}}"#)
            } else {
                format!(
                    r#"{{"e":"trade","E":{e},"s":{m},"t":{id},"p":"{p}","q":"{a}","b":{},"a":{},"T":{t},"m":{maker},"M":true}}"#,
                    rng.below(1 << 40),
                    rng.below(1 << 40)
                )
            };
            // "m": is the buyer the market maker? -> the taker sold
            (text, vec![trade(&p, &a, !maker, Some(t * 1_000_000), 0)])
        }
        Venue::BinanceL1 => {
            let t = ms(rng);
            let (mut bp, mut ba, mut ap, mut aa) = (dec_text(rng, 9, 8), dec_text(rng, 9, 8), dec_text(rng, 9, 8), dec_text(rng, 9, 8));
            one_sided(rng, &mut bp, &mut ba, &mut ap, &mut aa);
            let u = rng.below(1 << 40);
            let e = t + rng.range(1, 9);
            let text = if futures {
                format!(r#"{{"e":"bookTicker","u":{u},"E":{e},"T":{t},"s":{m},"b":"{bp}","B":"{ba}","a":"{ap}","A":"{aa}"}}"#)
            } else {
                format!(r#"{{"u":{u},"s":{m},"b":"{bp}","B":"{ba}","a":"{ap}","A":"{aa}"}}"#)
            };
            let ev = ExpEvent {
                time_ns: if futures { Some(t * 1_000_000) } else { None },
                time_tol_ns: 0,
                body: ExpBody::L1 { bid: (bp, ba), ask: (ap, aa) },
            };
            (text, vec![ev])
        }
        Venue::BinanceL2 => {
            let t = ms(rng);
            let d = rng.range(0, 5) as u64;
            let (first, last, pu) = match l2 {
                Some(st) => {
                    let (first, last, pu) = match st.last_u {
                        // first update after the snapshot: spot needs U <= S+1 <= u, futures U <= S <= u
                        None if futures => (st.snapshot.saturating_sub(rng.range(0, 2) as u64), st.snapshot + d, st.snapshot.saturating_sub(3)),
                        None => (st.snapshot + 1, st.snapshot + 1 + d, 0),
                        Some(prev) => (prev + 1, prev + 1 + d, prev),
                    };
                    st.last_u = Some(last);
                    (first, last, pu)
                }
                None => {
                    let x = rng.below(1 << 30) + 10;
                    (x, x + d, x - 1)
                }
            };
            let (nb, na) = (rng.range_u(0, 3), rng.range_u(0, 3));
            let (bids, asks) = (levels(rng, nb), levels(rng, na));
            let text = if futures {
                format!(
                    r#"{{"e":"depthUpdate","E":{t},"T":{t},"s":{m},"U":{first},"u":{last},"pu":{pu},"b":{},"a":{}}}"#,
                    levels_json(&bids),
                    levels_json(&asks)
                )
            } else {
                format!(r#"{{"e":"depthUpdate","E":{t},"s":{m},"U":{first},"u":{last},"b":{},"a":{}}}"#, levels_json(&bids), levels_json(&asks))
            };
            let ev = ExpEvent { time_ns: Some(t * 1_000_000), time_tol_ns: 0, body: ExpBody::L2 { sequence: last, bids, asks } };
            (text, vec![ev])
        }
        Venue::BinanceLiq => {
            let t = ms(rng);
            let (p, a) = (dec_text(rng, 9, 8), dec_text(rng, 9, 8));
            let buy = rng.bool();
            let side = if buy { "BUY" } else { "SELL" };
            let e = t + rng.range(1, 9);
            let text = format!(
                r#"{{"e":"forceOrder","E":{e},"o":{{"s":{m},"S":"{side}","o":"LIMIT","f":"IOC","q":"{a}","p":"{p}","ap":"{}","X":"FILLED","l":"{a}","z":"{a}","T":{t}}}}}"#,
                dec_text(rng, 9, 8)
            );
            let ev = ExpEvent { time_ns: Some(t * 1_000_000), time_tol_ns: 0, body: ExpBody::Liq { price: p, qty: a, buy } };
            (text, vec![ev])
        }
        Venue::Bitfinex => {
            // [CHANNEL_ID,"te",[ID,MTS,±AMOUNT,PRICE]]; market = channel id
            let t = ms(rng);
            let (p, a) = (dec_text(rng, 9, 8), dec_text(rng, 9, 8));
            let buy = rng.bool();
            let sign = if buy { "" } else { "-" };
            let text = format!(r#"[{market},"te",[{},{t},{sign}{a},{p}]]"#, rng.below(1 << 40));
            (text, vec![trade(&p, &a, buy, Some(t * 1_000_000), 0)])
        }
        Venue::Bitmex => {
            let us = ms(rng) * 1000;
            let ts = iso(us, SecondsFormat::Millis);
            // mostly 1-3 items per message; sometimes a burst (a busy market after a reconnect: messages of several KiB)
            let n = if rng.chance(1, 8) { rng.range_u(20, 40) } else { rng.range_u(1, 3) };
            let mut items = Vec::new();
            let mut evs = Vec::new();
            for _ in 0..n {
                let (p, a) = (dec_text(rng, 8, 2), if rng.bool() { int_text(rng, 7) } else { dec_text(rng, 8, 4) });
                let buy = rng.bool();
                items.push(format!(
                    r#"{{"timestamp":"{ts}","symbol":{m},"side":"{}","size":{a},"price":{p},"tickDirection":"MinusTick","trdMatchID":"{}","grossValue":814184,"homeNotional":0.00814184,"foreignNotional":200,"trdType":"Regular"}}"#,
                    if buy { "Buy" } else { "Sell" },
                    uuid(rng)
                ));
                evs.push(trade(&p, &a, buy, Some(us * 1000), 0));
            }
            (format!(r#"{{"table":{},"action":"insert","data":[{}]}}"#, q(channel), items.join(",")), evs)
        }
        Venue::Bybit => {
            let t = ms(rng);
            // mostly 1-3 items per message; sometimes a burst (a busy market after a reconnect: messages of several KiB)
            let n = if rng.chance(1, 8) { rng.range_u(20, 40) } else { rng.range_u(1, 3) };
            let mut items = Vec::new();
            let mut evs = Vec::new();
            // every trade carries its OWN fill time "T"; the envelope's "ts" is when the venue pushed the message
            let mut fill_t = t;
            for _ in 0..n {
                let (p, a) = (dec_text(rng, 9, 8), dec_text(rng, 9, 8));
                let buy = rng.bool();
                fill_t += rng.range(0, 3);
                items.push(format!(
                    r#"{{"T":{fill_t},"s":{m},"S":"{}","v":"{a}","p":"{p}","L":"PlusTick","i":"{}","BT":false}}"#,
                    if buy { "Buy" } else { "Sell" },
                    uuid(rng)
                ));
                evs.push(trade(&p, &a, buy, Some(fill_t * 1_000_000), 0));
            }
            let topic = q(&format!("{channel}.{market}"));
            let ts = fill_t + rng.range(1, 9);
            (format!(r#"{{"topic":{topic},"type":"snapshot","ts":{ts},"data":[{}]}}"#, items.join(",")), evs)
        }
        Venue::Coinbase => {
            let us = ms(rng) * 1000 + rng.range(0, 999);
            let (p, a) = (dec_text(rng, 9, 8), dec_text(rng, 9, 8));
            let buy = rng.bool();
            let text = format!(
                r#"{{"type":"match","trade_id":{},"sequence":{},"maker_order_id":"{}","taker_order_id":"{}","time":"{}","product_id":{m},"size":"{a}","price":"{p}","side":"{}"}}"#,
                rng.below(1 << 40),
                rng.below(1 << 40),
                uuid(rng),
                uuid(rng),
                iso(us, SecondsFormat::Micros),
                if buy { "buy" } else { "sell" }
            );
            (text, vec![trade(&p, &a, buy, Some(us * 1000), 0)])
        }
        Venue::GateioSpot => {
            let t = ms(rng);
            let frac = rng.range(0, 8999);
            let (p, a) = (dec_text(rng, 9, 8), dec_text(rng, 9, 8));
            let buy = rng.bool();
            let text = format!(
                r#"{{"time":{},"time_ms":{t},"channel":{},"event":"update","result":{{"id":{},"create_time":{},"create_time_ms":"{t}.{frac:04}","side":"{}","currency_pair":{m},"amount":"{a}","price":"{p}"}}}}"#,
                t / 1000,
                q(channel),
                rng.below(1 << 40),
                t / 1000,
                if buy { "buy" } else { "sell" }
            );
            (text, vec![trade(&p, &a, buy, Some(t * 1_000_000), 0)])
        }
        Venue::GateioDeriv => {
            let t = ms(rng);
            // mostly 1-3 items per message; sometimes a burst (a busy market after a reconnect: messages of several KiB)
            let n = if rng.chance(1, 8) { rng.range_u(20, 40) } else { rng.range_u(1, 3) };
            let mut items = Vec::new();
            let mut evs = Vec::new();
            for _ in 0..n {
                let (p, a) = (dec_text(rng, 9, 8), int_text(rng, 7));
                let buy = rng.bool();
                // size: positive = taker bought, negative = taker sold (contracts)
                items.push(format!(
                    r#"{{"size":{}{a},"id":{},"create_time":{},"create_time_ms":{t},"price":"{p}","contract":{m}}}"#,
                    if buy { "" } else { "-" },
                    rng.below(1 << 40),
                    t / 1000
                ));
                evs.push(trade(&p, &a, buy, Some(t * 1_000_000), 0));
            }
            (format!(r#"{{"time":{},"time_ms":{t},"channel":{},"event":"update","result":[{}]}}"#, t / 1000, q(channel), items.join(",")), evs)
        }
        Venue::KrakenTrade => {
            let us = ms(rng) * 1000 + rng.range(0, 999);
            let ts = format!("{}.{:06}", us / 1_000_000, us % 1_000_000);
            // mostly 1-3 items per message; sometimes a burst (a busy market after a reconnect: messages of several KiB)
            let n = if rng.chance(1, 8) { rng.range_u(20, 40) } else { rng.range_u(1, 3) };
            let mut items = Vec::new();
            let mut evs = Vec::new();
            for _ in 0..n {
                let (p, a) = (dec_text(rng, 9, 8), dec_text(rng, 9, 8));
                let buy = rng.bool();
                items.push(format!(r#"["{p}","{a}","{ts}","{}","{}",""]"#, if buy { "b" } else { "s" }, if rng.bool() { "l" } else { "m" }));
                evs.push(trade(&p, &a, buy, Some(us * 1000), 1000));
            }
            (format!(r#"[{},[{}],{},{m}]"#, rng.below(1000), items.join(","), q(channel)), evs)
        }
        Venue::KrakenSpread => {
            let us = ms(rng) * 1000 + rng.range(0, 999);
            let ts = format!("{}.{:06}", us / 1_000_000, us % 1_000_000);
            let (mut bp, mut ba, mut ap, mut aa) = (dec_text(rng, 9, 8), dec_text(rng, 9, 8), dec_text(rng, 9, 8), dec_text(rng, 9, 8));
            one_sided(rng, &mut bp, &mut ba, &mut ap, &mut aa);
            let text = format!(r#"[{},["{bp}","{ap}","{ts}","{ba}","{aa}"],{},{m}]"#, rng.below(1000), q(channel));
            let ev = ExpEvent { time_ns: Some(us * 1000), time_tol_ns: 1000, body: ExpBody::L1 { bid: (bp, ba), ask: (ap, aa) } };
            (text, vec![ev])
        }
        Venue::Okx => {
            let t = ms(rng);
            // mostly 1-3 items per message; sometimes a burst (a busy market after a reconnect: messages of several KiB)
            let n = if rng.chance(1, 8) { rng.range_u(20, 40) } else { rng.range_u(1, 3) };
            let mut items = Vec::new();
            let mut evs = Vec::new();
            for _ in 0..n {
                let (p, a) = (dec_text(rng, 9, 8), dec_text(rng, 9, 8));
                let buy = rng.bool();
                items.push(format!(
                    r#"{{"instId":{m},"tradeId":"{}","px":"{p}","sz":"{a}","side":"{}","ts":"{t}"}}"#,
                    rng.below(1 << 40),
                    if buy { "buy" } else { "sell" }
                ));
                evs.push(trade(&p, &a, buy, Some(t * 1_000_000), 0));
            }
            (format!(r#"{{"arg":{{"channel":{},"instId":{m}}},"data":[{}]}}"#, q(channel), items.join(",")), evs)
        }
    }
}

/// A message of ANOTHER channel / kind for a market that is subscribed on this stream (must never
/// become an `Ok` event of this stream). None where the message carries no channel at all.
pub fn other_channel(venue: Venue, futures: bool, market: &str, channel: &str, rng: &mut Rng) -> Option<String> {
    let text = match venue {
        Venue::BinanceTrade => synth(Venue::BinanceL1, futures, market, channel, rng, None).0,
        Venue::BinanceL1 | Venue::BinanceL2 | Venue::BinanceLiq => synth(Venue::BinanceTrade, futures, market, channel, rng, None).0,
        Venue::Bitmex => synth(venue, futures, market, "tradeBin1m", rng, None).0,
        Venue::Bybit => synth(venue, futures, market, "tickers", rng, None).0,
        Venue::GateioSpot => synth(venue, futures, market, "spot.tickers", rng, None).0,
        Venue::GateioDeriv => {
            let other = if channel == "futures.trades" { "options.trades" } else { "futures.trades" };
            synth(venue, futures, market, other, rng, None).0
        }
        Venue::KrakenTrade => synth(Venue::KrakenSpread, futures, market, "spread", rng, None).0,
        Venue::KrakenSpread => synth(Venue::KrakenTrade, futures, market, "trade", rng, None).0,
        Venue::Okx => synth(venue, futures, market, "trades-all", rng, None).0,
        Venue::Bitfinex | Venue::Coinbase => return None,
    };
    Some(text)
}
