//! Serialisable history model of a C13 case (replayable) and the normalised observation types.

use barter_data::subscription::SubKind;
use barter_instrument::{
    Side,
    exchange::ExchangeId,
    instrument::{
        kind::option::{OptionExercise, OptionKind},
        market_data::{
            MarketDataInstrument,
            kind::{MarketDataFutureContract, MarketDataInstrumentKind, MarketDataOptionContract},
        },
    },
};
use chrono::{DateTime, Utc};
use rust_decimal::Decimal;
use serde::{Deserialize, Serialize};
use std::str::FromStr;

pub type Key = u32;

/// Wire-format family of a (connector, kind) pair.
#[derive(Clone, Copy, Debug, PartialEq, Eq)]
pub enum Venue {
    BinanceTrade,
    BinanceL1,
    BinanceL2,
    BinanceLiq,
    Bitfinex,
    Bitmex,
    Bybit,
    Coinbase,
    GateioSpot,
    GateioDeriv,
    KrakenTrade,
    KrakenSpread,
    Okx,
}

impl Venue {
    pub fn is_binance(self) -> bool {
        matches!(self, Venue::BinanceTrade | Venue::BinanceL1 | Venue::BinanceL2 | Venue::BinanceLiq)
    }
}

#[derive(Clone, Copy, Debug, PartialEq, Eq)]
pub enum KindClass {
    Spot,
    Perp,
    Fut,
    Opt,
}

pub struct PairDef {
    pub name: &'static str,
    pub exchange: ExchangeId,
    pub sub_kind: SubKind,
    pub venue: Venue,
    /// Binance futures server (payload shape differs slightly from spot)
    pub futures: bool,
    pub kinds: &'static [KindClass],
}

use KindClass::*;
pub const PAIRS: [PairDef; 21] = [
    PairDef { name: "BinanceSpot:PublicTrades", exchange: ExchangeId::BinanceSpot, sub_kind: SubKind::PublicTrades, venue: Venue::BinanceTrade, futures: false, kinds: &[Spot] },
    PairDef { name: "BinanceSpot:OrderBooksL1", exchange: ExchangeId::BinanceSpot, sub_kind: SubKind::OrderBooksL1, venue: Venue::BinanceL1, futures: false, kinds: &[Spot] },
    PairDef { name: "BinanceSpot:OrderBooksL2", exchange: ExchangeId::BinanceSpot, sub_kind: SubKind::OrderBooksL2, venue: Venue::BinanceL2, futures: false, kinds: &[Spot] },
    PairDef { name: "BinanceFuturesUsd:PublicTrades", exchange: ExchangeId::BinanceFuturesUsd, sub_kind: SubKind::PublicTrades, venue: Venue::BinanceTrade, futures: true, kinds: &[Perp] },
    PairDef { name: "BinanceFuturesUsd:OrderBooksL1", exchange: ExchangeId::BinanceFuturesUsd, sub_kind: SubKind::OrderBooksL1, venue: Venue::BinanceL1, futures: true, kinds: &[Perp] },
    PairDef { name: "BinanceFuturesUsd:OrderBooksL2", exchange: ExchangeId::BinanceFuturesUsd, sub_kind: SubKind::OrderBooksL2, venue: Venue::BinanceL2, futures: true, kinds: &[Perp] },
    PairDef { name: "BinanceFuturesUsd:Liquidations", exchange: ExchangeId::BinanceFuturesUsd, sub_kind: SubKind::Liquidations, venue: Venue::BinanceLiq, futures: true, kinds: &[Perp] },
    PairDef { name: "Bitfinex:PublicTrades", exchange: ExchangeId::Bitfinex, sub_kind: SubKind::PublicTrades, venue: Venue::Bitfinex, futures: false, kinds: &[Spot] },
    PairDef { name: "Bitmex:PublicTrades", exchange: ExchangeId::Bitmex, sub_kind: SubKind::PublicTrades, venue: Venue::Bitmex, futures: false, kinds: &[Perp] },
    PairDef { name: "BybitSpot:PublicTrades", exchange: ExchangeId::BybitSpot, sub_kind: SubKind::PublicTrades, venue: Venue::Bybit, futures: false, kinds: &[Spot] },
    PairDef { name: "BybitPerpetualsUsd:PublicTrades", exchange: ExchangeId::BybitPerpetualsUsd, sub_kind: SubKind::PublicTrades, venue: Venue::Bybit, futures: false, kinds: &[Perp] },
    PairDef { name: "Coinbase:PublicTrades", exchange: ExchangeId::Coinbase, sub_kind: SubKind::PublicTrades, venue: Venue::Coinbase, futures: false, kinds: &[Spot] },
    PairDef { name: "GateioSpot:PublicTrades", exchange: ExchangeId::GateioSpot, sub_kind: SubKind::PublicTrades, venue: Venue::GateioSpot, futures: false, kinds: &[Spot] },
    PairDef { name: "GateioFuturesUsd:PublicTrades", exchange: ExchangeId::GateioFuturesUsd, sub_kind: SubKind::PublicTrades, venue: Venue::GateioDeriv, futures: false, kinds: &[Fut] },
    PairDef { name: "GateioFuturesBtc:PublicTrades", exchange: ExchangeId::GateioFuturesBtc, sub_kind: SubKind::PublicTrades, venue: Venue::GateioDeriv, futures: false, kinds: &[Fut] },
    PairDef { name: "GateioPerpetualsUsd:PublicTrades", exchange: ExchangeId::GateioPerpetualsUsd, sub_kind: SubKind::PublicTrades, venue: Venue::GateioDeriv, futures: false, kinds: &[Perp] },
    PairDef { name: "GateioPerpetualsBtc:PublicTrades", exchange: ExchangeId::GateioPerpetualsBtc, sub_kind: SubKind::PublicTrades, venue: Venue::GateioDeriv, futures: false, kinds: &[Perp] },
    PairDef { name: "GateioOptions:PublicTrades", exchange: ExchangeId::GateioOptions, sub_kind: SubKind::PublicTrades, venue: Venue::GateioDeriv, futures: false, kinds: &[Opt] },
    PairDef { name: "Kraken:PublicTrades", exchange: ExchangeId::Kraken, sub_kind: SubKind::PublicTrades, venue: Venue::KrakenTrade, futures: false, kinds: &[Spot] },
    PairDef { name: "Kraken:OrderBooksL1", exchange: ExchangeId::Kraken, sub_kind: SubKind::OrderBooksL1, venue: Venue::KrakenSpread, futures: false, kinds: &[Spot] },
    PairDef { name: "Okx:PublicTrades", exchange: ExchangeId::Okx, sub_kind: SubKind::PublicTrades, venue: Venue::Okx, futures: false, kinds: &[Spot, Fut, Perp, Opt] },
];

pub fn pair_def(name: &str) -> &'static PairDef {
    PAIRS.iter().find(|p| p.name == name).unwrap_or_else(|| panic!("unknown pair {name}"))
}

#[derive(Clone, Copy, Debug, PartialEq, Eq, Hash, Serialize, Deserialize)]
pub enum SubType {
    /// `Subscription<Exchange, Keyed<u32, MarketDataInstrument>, Kind>`
    Keyed,
    /// `Subscription<Exchange, MarketInstrumentData<u32>, Kind>`
    Mid,
}

#[derive(Clone, Debug, PartialEq, Eq, Hash, Serialize, Deserialize)]
pub enum KindSpec {
    Spot,
    Perpetual,
    Future { expiry_ms: i64 },
    Option { call: bool, exercise: u8, expiry_ms: i64, strike: String },
}

impl KindSpec {
    pub fn class(&self) -> &'static str {
        match self {
            KindSpec::Spot => "spot",
            KindSpec::Perpetual => "perpetual",
            KindSpec::Future { .. } => "future",
            KindSpec::Option { .. } => "option",
        }
    }
    pub fn to_kind(&self) -> MarketDataInstrumentKind {
        let dt = |ms: i64| DateTime::<Utc>::from_timestamp_millis(ms).expect("expiry in range");
        match self {
            KindSpec::Spot => MarketDataInstrumentKind::Spot,
            KindSpec::Perpetual => MarketDataInstrumentKind::Perpetual,
            KindSpec::Future { expiry_ms } => MarketDataInstrumentKind::Future(MarketDataFutureContract { expiry: dt(*expiry_ms) }),
            KindSpec::Option { call, exercise, expiry_ms, strike } => MarketDataInstrumentKind::Option(MarketDataOptionContract {
                kind: if *call { OptionKind::Call } else { OptionKind::Put },
                exercise: match exercise % 3 {
                    0 => OptionExercise::American,
                    1 => OptionExercise::Bermudan,
                    _ => OptionExercise::European,
                },
                expiry: dt(*expiry_ms),
                strike: Decimal::from_str(strike).expect("strike"),
            }),
        }
    }
}

#[derive(Clone, Debug, PartialEq, Eq, Hash, Serialize, Deserialize)]
pub struct InstrSpec {
    pub key: Key,
    pub base: String,
    pub quote: String,
    pub kind: KindSpec,
    /// exchange-side name used by the `MarketInstrumentData` flavour
    pub name_exchange: String,
    /// Bitfinex: channel id the (simulated) venue assigns to this subscription
    pub chan_id: Option<u32>,
    /// Binance L2: sequence (`lastUpdateId`) of the initial snapshot
    pub l2_seq: Option<u64>,
}

impl InstrSpec {
    pub fn market_data_instrument(&self) -> MarketDataInstrument {
        MarketDataInstrument::new(self.base.as_str(), self.quote.as_str(), self.kind.to_kind())
    }
}

#[derive(Clone, Debug, PartialEq, Serialize, Deserialize)]
pub enum ExpBody {
    /// price / amount are the decimal literals of the payload (amount without sign)
    Trade { price: String, amount: String, buy: bool },
    L1 { bid: (String, String), ask: (String, String) },
    Liq { price: String, qty: String, buy: bool },
    L2 { sequence: u64, bids: Vec<(String, String)>, asks: Vec<(String, String)> },
}

#[derive(Clone, Debug, PartialEq, Serialize, Deserialize)]
pub struct ExpEvent {
    /// exchange time in ns since epoch if the message carries one
    pub time_ns: Option<i64>,
    /// accepted absolute deviation (float-seconds encodings)
    pub time_tol_ns: i64,
    pub body: ExpBody,
}

#[derive(Clone, Debug, PartialEq, Serialize, Deserialize)]
pub enum Expect {
    /// message for a subscribed market: exactly these events, all keyed `key`
    Events { key: Key, events: Vec<ExpEvent> },
    /// well-formed message for a market that is not subscribed
    Unidentifiable,
    /// message of another channel / kind for a subscribed market: anything but an `Ok` event
    NotOk,
}

#[derive(Clone, Debug, PartialEq, Serialize, Deserialize)]
pub struct Probe {
    pub class: String,
    pub text: String,
    pub expect: Expect,
}

#[derive(Clone, Debug, PartialEq, Serialize, Deserialize)]
pub struct Case {
    pub pair: String,
    pub sub_type: SubType,
    pub instruments: Vec<InstrSpec>,
    /// Bitfinex: order in which the simulated venue answers; first occurrence of a key = its
    /// `subscribed` event, second occurrence = its initial snapshot
    pub bitfinex_order: Vec<Key>,
    pub probes: Vec<Probe>,
}

// ---------------------------------------------------------------------------------------------
// normalised observations

#[derive(Clone, Debug, PartialEq)]
pub enum Body {
    Trade { price: f64, amount: f64, side: Side },
    L1 { bid: Option<(Decimal, Decimal)>, ask: Option<(Decimal, Decimal)>, update_ns: i64 },
    Liq { price: f64, qty: f64, side: Side, time_ns: i64 },
    L2 { snapshot: bool, sequence: u64, bids: Vec<(Decimal, Decimal)>, asks: Vec<(Decimal, Decimal)> },
}

#[derive(Clone, Debug, PartialEq)]
pub struct ObsEvent {
    pub exchange: ExchangeId,
    pub key: Key,
    pub time_ns: i64,
    pub body: Body,
}

#[derive(Clone, Debug, PartialEq)]
pub enum Out {
    Event(ObsEvent),
    Unidentifiable(String),
    Parse(String),
    OtherErr(String),
}

/// One market token found in a generated subscribe request.
#[derive(Clone, Debug, PartialEq, Eq, Hash)]
pub struct ReqTok {
    /// market token exactly as it appears in the request
    pub token: String,
    /// channel name exactly as it appears in the request
    pub channel: String,
}

pub fn ns_of(dt: DateTime<Utc>) -> i64 {
    dt.timestamp_nanos_opt().unwrap_or(i64::MIN)
}
