//! C13 — market-data messages are attributed to the subscribed instrument, or rejected.
//!
//! For each of the 21 (connector, subscription kind) pairs of `DynamicStreams::init`:
//! random instrument sets -> the REAL `WebSocketSubMapper::map` (subscription-id map + JSON subscribe
//! requests) -> market tokens are read back out of the generated requests -> wire payloads are
//! synthesised for those tokens (venue echo: identity, except Binance which the repo documents as
//! "subscribe lower-case, echoed upper-case") -> pushed as `WsMessage::Text` through a REAL
//! `ExchangeStream<WebSocketParser, in-memory stream, Transformer>` whose transformer was built with
//! the public `ExchangeTransformer::init` -> every produced item is judged: events of a subscribed
//! market carry exactly the key subscribed under it, `Connector::ID`, and the price / amount / side /
//! exchange time stated in the message; messages of markets that are not subscribed give an
//! unidentifiable-subscription error and never an event. Bitfinex ids are remapped by the REAL
//! `BitfinexWebSocketSubValidator::validate` talking to a loopback tungstenite venue.
//!
//! History = (pair, subscription flavour, instrument set, [payload text + expectation]).
//! Non-trivial = at least 2 subscribed instruments, >= 1 subscribed-market event checked and >= 1
//! unsubscribed-market rejection observed; distinct = FNV-1a of (pair, instruments, payload texts).

mod exec;
mod generate;
mod model;
mod plumb;
mod venue;

use exec::{Env, ExecResult, exec_case};
use model::*;
use serde_json::json;
use std::{cell::Cell, collections::HashSet};
use vharness::{Args, Report, Rng, fnv1a, run_workers, shrink};

fn case_hash(case: &Case) -> u64 {
    let mut s = format!("{}{:?}{:?}", case.pair, case.sub_type, case.instruments);
    for p in &case.probes {
        s.push_str(&p.text);
    }
    fnv1a(s.as_bytes())
}

/// Shrink a failing case: keep the failing probe (all probes up to it for the stateful Binance L2
/// books), then drop instruments that the kept probes do not refer to while the signature persists.
fn minimise(case: &Case, probe: Option<usize>, signature: &str, env: &Env) -> Case {
    let def = pair_def(&case.pair);
    let mut small = case.clone();
    if let Some(idx) = probe {
        small.probes = if def.venue == Venue::BinanceL2 { case.probes[..=idx].to_vec() } else { vec![case.probes[idx].clone()] };
    }
    let still = |c: &Case| exec_case(c, env).fired.iter().any(|f| f.signature == signature);
    if !still(&small) {
        return case.clone();
    }
    let must_keep: HashSet<Key> = small.probes.iter().filter_map(|p| if let Expect::Events { key, .. } = &p.expect { Some(*key) } else { None }).collect();
    let instruments = shrink(&small.instruments, |cand| {
        if cand.is_empty() || !must_keep.iter().all(|k| cand.iter().any(|i| i.key == *k)) {
            return false;
        }
        let mut c = small.clone();
        c.instruments = cand.to_vec();
        still(&c)
    });
    small.instruments = instruments;
    let keys: HashSet<Key> = small.instruments.iter().map(|i| i.key).collect();
    small.bitfinex_order.retain(|k| keys.contains(k));
    small
}

fn record(report: &mut Report, def: &PairDef, case: &Case, info: &generate::GenInfo, res: &ExecResult) {
    let st = &res.stats;
    report.events_observed += st.outputs;
    report.oracle_checks += st.probes_judged + st.events_checked;
    let sub = match case.sub_type {
        SubType::Keyed => "keyed",
        SubType::Mid => "mid",
    };
    if st.events_checked > 0 {
        report.cover_n(&format!("pair:{}", def.name), st.events_checked);
        report.cover(&format!("type:{}:{sub}", def.name));
    }
    if st.rejections > 0 {
        report.cover_n(&format!("reject:{}", def.name), st.rejections);
    }
    if st.not_ok_checked > 0 {
        report.cover_n("foreign:other_channel", st.not_ok_checked);
    }
    for c in &info.foreign_classes {
        if *c != "other_channel" {
            report.cover(&format!("foreign:{c}"));
        }
    }
    if info.strict_prefix {
        report.cover("token:strict_prefix");
    }
    if info.common_prefix {
        report.cover("token:common_prefix3");
    }
    if info.mixed_case {
        report.cover("token:mixed_case_input");
    }
    if st.multi_trade_batches > 0 {
        report.cover_n("batch:multi_trade", st.multi_trade_batches);
    }
    if def.kinds.len() > 1 {
        for k in &st.kinds_checked {
            report.cover(&format!("okx:kind:{k}"));
        }
    }
    if st.bitfinex_remapped_via_validator {
        report.cover("bitfinex:remap_via_validator");
        report.info("bitfinex_snapshots_buffered_during_validation", st.bitfinex_buffered_snapshots);
    }
    if st.dated_contracts_checked > 0 {
        report.cover_n("dated_contract:expiry_date_in_market_id", st.dated_contracts_checked);
    }
    if st.dated_contracts_near_year_boundary > 0 {
        report.cover_n("dated_contract:expiry_where_iso_week_year_differs", st.dated_contracts_near_year_boundary);
    }
    if st.option_contracts_checked > 0 {
        report.cover_n("option_contract:strike_and_right_in_market_id", st.option_contracts_checked);
    }
    if st.option_strikes_with_3_or_more_decimals > 0 {
        report.cover_n("option_contract:strike_with_3_or_more_decimals", st.option_strikes_with_3_or_more_decimals);
    }
    if st.one_sided_top_of_book > 0 {
        report.cover_n("l1:one_sided_top_of_book", st.one_sided_top_of_book);
    }
    if st.twin_sets_mapped > 0 {
        report.cover_n("twin:market_subscribed_under_two_keys", st.twin_sets_mapped);
    }
    if st.window_messages > 0 {
        report.cover_n("validation_window:payloads_buffered_and_replayed", st.window_messages);
    }
    report.info("payloads_synthesised", case.probes.len() as u64);
    report.info("instruments_subscribed", case.instruments.len() as u64);
    report.info("token_collisions_skipped", info.collisions_skipped);
    if st.negative_amount_events > 0 {
        report.info("events_with_negative_amount(sign-encoded venues, unjudged)", st.negative_amount_events);
    }
}

fn run_case(def: &PairDef, sub_type: SubType, family: bool, rng: &mut Rng, env: &Env, report: &mut Report, shrunk: &Cell<u32>) -> bool {
    let single = |ins: &InstrSpec| exec::single_token(def, sub_type, ins);
    let (case, info) = match generate::gen_case(def, sub_type, rng, family, &single) {
        Ok(x) => x,
        Err(e) => {
            report.harness_errors.push(format!("{}: generation failed: {e}", def.name));
            return false;
        }
    };
    let res = exec_case(&case, env);
    if let Some(e) = &res.harness_error {
        report.harness_errors.push(format!("{}: {e}", def.name));
        return false;
    }
    record(report, def, &case, &info, &res);
    let nontrivial = case.instruments.len() >= 2 && res.stats.events_checked >= 1 && res.stats.rejections >= 1;
    report.case(case_hash(&case), nontrivial);
    if nontrivial && case.instruments.len() <= 4 {
        report.sample(|| json!({"pair": case.pair, "sub_type": case.sub_type, "instruments": case.instruments, "probes": case.probes.iter().take(4).collect::<Vec<_>>()}));
    }
    for fired in &res.fired {
        let witness = if shrunk.get() < 4 {
            shrunk.set(shrunk.get() + 1);
            minimise(&case, fired.probe, fired.signature, env)
        } else {
            case.clone()
        };
        let detail = exec_case(&witness, env).fired.iter().find(|f| f.signature == fired.signature).map(|f| f.detail.clone()).unwrap_or_else(|| fired.detail.clone());
        report.violation(fired.signature, detail, serde_json::to_value(&witness).expect("case json"));
    }
    true
}

/// Unjudged observations of what happens under echo hypotheses the repo does not document.
fn observe(rng: &mut Rng, env: &Env, report: &mut Report) {
    // (a) Kraken pairs echoed UPPER-case (as in every sample payload of the repo) for Keyed<MarketDataInstrument>
    // (b) Binance MarketInstrumentData whose name_exchange is not spelled upper-case
    for (pair, sub_type, label) in [
        ("BinanceSpot:PublicTrades", SubType::Mid, "binance_mid_lowercase_name_exchange"),
    ] {
        let def = pair_def(pair);
        let single = |ins: &InstrSpec| exec::single_token(def, sub_type, ins);
        let Ok((mut case, _)) = generate::gen_case(def, sub_type, rng, false, &single) else { continue };
        if sub_type == SubType::Mid {
            for i in case.instruments.iter_mut() {
                i.name_exchange = i.name_exchange.to_lowercase();
            }
        }
        let Ok(mapped) = plumb::map_pair(pair, sub_type, &case.instruments) else { continue };
        let mut texts = Vec::new();
        for ins in &case.instruments {
            let Ok(tok) = exec::single_token(def, sub_type, ins) else { continue };
            let market = tok.token.to_uppercase();
            if market == tok.token && sub_type == SubType::Keyed {
                continue;
            }
            texts.push(venue::synth(def.venue, def.futures, &market, &tok.channel, rng, None).0);
        }
        let Ok(run) = plumb::stream_pair(pair, &env.errs, mapped.map, &[], Vec::new(), &texts) else { continue };
        for outs in &run.per_msg {
            for o in outs {
                match o {
                    Out::Event(_) => report.info(&format!("observe:{label}:attributed"), 1),
                    Out::Unidentifiable(_) => report.info(&format!("observe:{label}:unidentifiable"), 1),
                    _ => report.info(&format!("observe:{label}:other_error"), 1),
                }
            }
        }
    }
}

fn make_env(socket: bool, verbose: bool) -> Result<Env, String> {
    let sock = if socket { Some(plumb::SocketEnv::new()?) } else { None };
    Ok(Env { errs: plumb::ErrClass::new(), socket: sock, use_socket: socket, verbose })
}

fn main() {
    let args = Args::parse();
    let small = args.tier == "miri" || args.tier == "tsan";
    let use_socket = args.tier != "miri";

    if let Some(path) = &args.replay {
        let v: serde_json::Value = serde_json::from_str(&std::fs::read_to_string(path).expect("read replay")).expect("json");
        let case: Case = serde_json::from_value(v["history"].clone()).expect("history is a C13 case");
        let env = make_env(use_socket, true).expect("env");
        let res = exec_case(&case, &env);
        let mut report = Report::new("C13");
        if let Some(e) = &res.harness_error {
            report.harness_errors.push(e.clone());
        }
        for (p, outs) in case.probes.iter().zip(&res.stats.per_probe) {
            println!("probe[{}] {}\n  expect {:?}\n  observed {outs}", p.class, p.text, p.expect);
        }
        for f in &res.fired {
            report.violation(f.signature, f.detail.clone(), serde_json::to_value(&case).expect("json"));
        }
        report.case(case_hash(&case), true);
        println!("{}", serde_json::to_string_pretty(&report.to_json()).unwrap());
        std::process::exit(if report.violation_count > 0 { 1 } else if report.harness_errors.is_empty() { 0 } else { 2 });
    }

    let sets_per_pair = if small { 2 } else { args.size(200, 20_000) };

    let mut report = run_workers(&args, "C13", |w, n, rng, report| {
        let env = match make_env(use_socket, false) {
            Ok(e) => e,
            Err(e) => {
                report.harness_errors.push(e);
                return;
            }
        };
        let shrunk = Cell::new(0u32);
        for def in PAIRS.iter() {
            let mine = Args::share(sets_per_pair, w, n);
            for i in 0..mine {
                let g = w as u64 + i * n as u64;
                let sub_type = if g % 2 == 0 { SubType::Keyed } else { SubType::Mid };
                let family = g % 5 == 0;
                if !run_case(def, sub_type, family, rng, &env, report, &shrunk) {
                    // harness trouble with this pair (e.g. loopback socket): do not spin on it
                    break;
                }
            }
        }
        if !small {
            for _ in 0..4 {
                observe(rng, &env, report);
            }
        }
    });

    for def in PAIRS.iter() {
        report.require(&format!("pair:{}", def.name));
        report.require(&format!("reject:{}", def.name));
        report.require(&format!("type:{}:keyed", def.name));
        report.require(&format!("type:{}:mid", def.name));
    }
    for c in ["token:strict_prefix", "token:common_prefix3", "token:mixed_case_input", "foreign:other_instrument", "foreign:trailing_char", "foreign:leading_char", "foreign:case_variant"] {
        report.require(c);
    }
    if !small {
        for c in ["foreign:other_channel", "foreign:truncated", "batch:multi_trade", "okx:kind:spot", "okx:kind:future", "okx:kind:perpetual", "okx:kind:option"] {
            report.require(c);
        }
    }
    if use_socket {
        report.require("bitfinex:remap_via_validator");
        report.require("dated_contract:expiry_date_in_market_id");
        report.require("dated_contract:expiry_where_iso_week_year_differs");
        report.require("option_contract:strike_and_right_in_market_id");
        report.require("option_contract:strike_with_3_or_more_decimals");
        report.require("validation_window:payloads_buffered_and_replayed");
        report.require("twin:market_subscribed_under_two_keys");
        report.require("l1:one_sided_top_of_book");
    }
    report.notes.push("path: WebSocketSubMapper::map -> ExchangeTransformer::init -> ExchangeStream<WebSocketParser, in-memory stream, Transformer> fed with WsMessage::Text; Bitfinex ids remapped by BitfinexWebSocketSubValidator::validate against a loopback venue".into());
    std::process::exit(report.finish(args.out.as_deref()));
}
