//! Execute one case against the real code and judge every probe (the oracle).

use crate::{
    model::*,
    plumb::{self, ErrClass, SocketEnv, ValidateOutcome},
    venue,
};
use barter_data::subscription::{Map, exchange_supports_instrument_kind_sub_kind};
use barter_instrument::Side;
use barter_integration::subscription::SubscriptionId;
use rust_decimal::Decimal;
use std::collections::{BTreeMap, HashSet};

pub struct Env {
    pub errs: ErrClass,
    /// None: no loopback socket (miri tier) -> Bitfinex remap emulated by hand
    pub socket: Option<SocketEnv>,
    pub use_socket: bool,
    /// keep the raw outputs of every probe (replay)
    pub verbose: bool,
}

#[derive(Debug, Clone)]
pub struct Fired {
    pub signature: &'static str,
    pub detail: String,
    pub probe: Option<usize>,
}

#[derive(Default)]
pub struct ExecStats {
    pub events_checked: u64,
    pub rejections: u64,
    pub not_ok_checked: u64,
    pub outputs: u64,
    pub probes_judged: u64,
    pub kinds_checked: Vec<&'static str>,
    pub multi_trade_batches: u64,
    pub negative_amount_events: u64,
    pub bitfinex_remapped_via_validator: bool,
    pub bitfinex_buffered_snapshots: u64,
    pub per_probe: Vec<String>,
    pub dated_contracts_checked: u64,
    pub dated_contracts_near_year_boundary: u64,
    pub option_contracts_checked: u64,
    pub option_strikes_with_3_or_more_decimals: u64,
    pub window_messages: u64,
    pub twin_sets_mapped: u64,
    pub one_sided_top_of_book: u64,
}

pub struct ExecResult {
    pub fired: Vec<Fired>,
    pub harness_error: Option<String>,
    pub stats: ExecStats,
}

/// Token of every instrument when subscribed ALONE (one real mapper call each).
pub fn single_token(def: &PairDef, sub_type: SubType, ins: &InstrSpec) -> Result<ReqTok, String> {
    if !exchange_supports_instrument_kind_sub_kind(&def.exchange, &ins.kind.to_kind(), def.sub_kind) {
        return Err(format!("generated instrument kind {:?} is outside the dispatch table for {}", ins.kind, def.name));
    }
    let mapped = plumb::map_pair(def.name, sub_type, std::slice::from_ref(ins))?;
    let mut toks = Vec::new();
    for r in &mapped.requests {
        toks.extend(venue::extract_tokens(def.venue, r)?);
    }
    if toks.len() != 1 {
        return Err(format!("single subscription produced {} market tokens: {:?}", toks.len(), mapped.requests));
    }
    Ok(toks.remove(0))
}

fn f(text: &str) -> f64 {
    text.parse::<f64>().expect("decimal literal")
}

fn d(text: &str) -> Decimal {
    text.parse::<Decimal>().expect("decimal literal")
}

fn side(buy: bool) -> Side {
    if buy { Side::Buy } else { Side::Sell }
}

fn sorted(mut v: Vec<(Decimal, Decimal)>) -> Vec<(Decimal, Decimal)> {
    v.sort();
    v
}

/// Field oracle for one event. `sign_encoded`: the venue encodes the side in the sign of the amount
/// (Bitfinex, Gateio derivatives) -> amount compared in magnitude.
fn compare(exp: &ExpEvent, obs: &ObsEvent, sign_encoded: bool) -> Result<(), (&'static str, String)> {
    if let Some(t) = exp.time_ns {
        if (obs.time_ns - t).abs() > exp.time_tol_ns {
            return Err(("event_time_mismatch", format!("exchange time: message says {t} ns, event carries {} ns", obs.time_ns)));
        }
    }
    match (&exp.body, &obs.body) {
        (ExpBody::Trade { price, amount, buy }, Body::Trade { price: op, amount: oa, side: os }) => {
            if *op != f(price) {
                return Err(("event_price_mismatch", format!("price: message says {price}, event carries {op}")));
            }
            let oa_cmp = if sign_encoded { oa.abs() } else { *oa };
            if oa_cmp != f(amount) {
                return Err(("event_amount_mismatch", format!("amount: message says {amount}, event carries {oa}")));
            }
            if *os != side(*buy) {
                return Err(("event_side_mismatch", format!("side: message says {:?}, event carries {os:?}", side(*buy))));
            }
            Ok(())
        }
        (ExpBody::L1 { bid, ask }, Body::L1 { bid: ob, ask: oa, update_ns }) => {
            // a price of zero is how these venues state "no level on this side" (an empty side of a thin book)
            let stated = |l: &(String, String)| if d(&l.0).is_zero() { None } else { Some((d(&l.0), d(&l.1))) };
            if *ob != stated(bid) {
                return Err(("event_price_mismatch", format!("best bid: message says {bid:?}, event carries {ob:?}")));
            }
            if *oa != stated(ask) {
                return Err(("event_price_mismatch", format!("best ask: message says {ask:?}, event carries {oa:?}")));
            }
            if let Some(t) = exp.time_ns {
                if (update_ns - t).abs() > exp.time_tol_ns {
                    return Err(("event_time_mismatch", format!("last_update_time: message says {t} ns, event carries {update_ns} ns")));
                }
            }
            Ok(())
        }
        (ExpBody::Liq { price, qty, buy }, Body::Liq { price: op, qty: oq, side: os, time_ns }) => {
            if *op != f(price) {
                return Err(("event_price_mismatch", format!("price: message says {price}, event carries {op}")));
            }
            if *oq != f(qty) {
                return Err(("event_amount_mismatch", format!("quantity: message says {qty}, event carries {oq}")));
            }
            if *os != side(*buy) {
                return Err(("event_side_mismatch", format!("side: message says {:?}, event carries {os:?}", side(*buy))));
            }
            if let Some(t) = exp.time_ns {
                if (time_ns - t).abs() > exp.time_tol_ns {
                    return Err(("event_time_mismatch", format!("liquidation time: message says {t} ns, event carries {time_ns} ns")));
                }
            }
            Ok(())
        }
        (ExpBody::L2 { sequence, bids, asks }, Body::L2 { snapshot, sequence: os, bids: ob, asks: oa }) => {
            if *snapshot {
                return Err(("event_kind_mismatch", "depth update was normalised into a snapshot".into()));
            }
            if os != sequence {
                return Err(("event_sequence_mismatch", format!("sequence: message says {sequence}, event carries {os}")));
            }
            let want_b = sorted(bids.iter().map(|(p, a)| (d(p), d(a))).collect());
            let want_a = sorted(asks.iter().map(|(p, a)| (d(p), d(a))).collect());
            if sorted(ob.clone()) != want_b || sorted(oa.clone()) != want_a {
                return Err(("event_price_mismatch", format!("levels: message says bids {want_b:?} asks {want_a:?}, event carries bids {ob:?} asks {oa:?}")));
            }
            Ok(())
        }
        (e, o) => Err(("event_kind_mismatch", format!("expected {e:?}, event body {o:?}"))),
    }
}

fn judge(def: &PairDef, probe: &Probe, outs: &[Out], stats: &mut ExecStats, kind_of_key: &BTreeMap<Key, &'static str>) -> Result<(), (&'static str, String)> {
    let events: Vec<&ObsEvent> = outs.iter().filter_map(|o| if let Out::Event(e) = o { Some(e) } else { None }).collect();
    let sign_encoded = matches!(def.venue, Venue::Bitfinex | Venue::GateioDeriv);
    match &probe.expect {
        Expect::Events { key, events: want } => {
            for o in outs {
                match o {
                    Out::Unidentifiable(id) => {
                        return Err(("subscribed_market_rejected", format!("message for the market subscribed under key {key} was rejected as unidentifiable (id {id:?})")));
                    }
                    Out::Parse(e) => return Err(("subscribed_market_not_parsed", format!("message for the market subscribed under key {key} failed to parse: {e}"))),
                    Out::OtherErr(e) => return Err(("subscribed_market_error", format!("message for the market subscribed under key {key} produced error {e}"))),
                    Out::Event(_) => {}
                }
            }
            if events.len() != want.len() {
                return Err(("event_count_mismatch", format!("message carries {} trade(s)/update(s) for key {key}, {} event(s) produced", want.len(), events.len())));
            }
            for e in &events {
                if e.key != *key {
                    return Err(("event_attributed_to_wrong_instrument", format!("market is subscribed under key {key}, event carries instrument key {}", e.key)));
                }
                if e.exchange != def.exchange {
                    return Err(("event_wrong_exchange_id", format!("expected exchange {:?}, event carries {:?}", def.exchange, e.exchange)));
                }
            }
            // multiset match (order of the events of one batch is not part of the statement)
            let mut unused: Vec<&ObsEvent> = events.clone();
            for (i, w) in want.iter().enumerate() {
                match unused.iter().position(|o| compare(w, o, sign_encoded).is_ok()) {
                    Some(p) => {
                        unused.remove(p);
                        if let ExpBody::L1 { bid, ask } = &w.body {
                            if d(&bid.0).is_zero() || d(&ask.0).is_zero() {
                                stats.one_sided_top_of_book += 1;
                            }
                        }
                    }
                    None => {
                        let (sig, detail) = compare(w, events[i.min(events.len() - 1)], sign_encoded).err().unwrap_or(("event_field_mismatch", "no produced event matches".into()));
                        return Err((sig, format!("trade/update #{i} of the message: {detail}")));
                    }
                }
            }
            stats.events_checked += events.len() as u64;
            if want.len() > 1 {
                stats.multi_trade_batches += 1;
            }
            if let Some(k) = kind_of_key.get(key) {
                stats.kinds_checked.push(k);
            }
            for e in &events {
                if let Body::Trade { amount, .. } = e.body {
                    if amount < 0.0 {
                        stats.negative_amount_events += 1;
                    }
                }
            }
            Ok(())
        }
        Expect::Unidentifiable => {
            if let Some(e) = events.first() {
                return Err((
                    "unsubscribed_market_produced_event",
                    format!("message for a market that is not subscribed produced an event for instrument key {} ({:?})", e.key, e.body),
                ));
            }
            if outs.is_empty() {
                return Err(("unsubscribed_market_silently_dropped", "message for a market that is not subscribed produced neither an event nor an error".into()));
            }
            for o in outs {
                match o {
                    Out::Unidentifiable(_) => {}
                    other => return Err(("unsubscribed_market_wrong_error", format!("expected an unidentifiable-subscription error, observed {other:?}"))),
                }
            }
            stats.rejections += 1;
            Ok(())
        }
        Expect::NotOk => {
            if let Some(e) = events.first() {
                return Err((
                    "foreign_channel_produced_event",
                    format!("message of another channel/kind produced an event for instrument key {} ({:?})", e.key, e.body),
                ));
            }
            stats.not_ok_checked += 1;
            Ok(())
        }
    }
}

pub fn exec_case(case: &Case, env: &Env) -> ExecResult {
    let mut res = ExecResult { fired: Vec::new(), harness_error: None, stats: ExecStats::default() };
    let def = pair_def(&case.pair);
    macro_rules! harness {
        ($e:expr) => {{
            res.harness_error = Some($e);
            return res;
        }};
    }
    if case.instruments.is_empty() {
        harness!("empty instrument set".into());
    }

    // 1. token of every instrument subscribed alone; the set must be free of duplicates
    let mut toks: Vec<ReqTok> = Vec::new();
    for ins in &case.instruments {
        match single_token(def, case.sub_type, ins) {
            Ok(t) => toks.push(t),
            Err(e) => harness!(e),
        }
    }
    // 1b. dated contracts: a market id derived from the instrument definition must carry the
    // contract's CALENDAR expiry date in the venue's documented format (Okx "YYMMDD", eg "230526" =
    // 26th of May 2023; Gateio "YYYYMMDD", eg "20241231" - both taken from the repo's own doc
    // comments). Otherwise the subscription addresses another contract of the venue and that
    // contract's messages get attributed to this instrument. Rendered here from year/month/day
    // accessors, independently of any strftime specifier.
    if case.sub_type == SubType::Keyed && matches!(def.venue, Venue::Okx | Venue::GateioDeriv) {
        use chrono::Datelike;
        for (ins, t) in case.instruments.iter().zip(&toks) {
            let expiry_ms = match &ins.kind {
                KindSpec::Future { expiry_ms } => *expiry_ms,
                KindSpec::Option { expiry_ms, .. } => *expiry_ms,
                _ => continue,
            };
            let date = chrono::DateTime::<chrono::Utc>::from_timestamp_millis(expiry_ms).expect("expiry").date_naive();
            let want = if def.venue == Venue::Okx {
                format!("{:02}{:02}{:02}", date.year() % 100, date.month(), date.day())
            } else {
                format!("{:04}{:02}{:02}", date.year(), date.month(), date.day())
            };
            res.stats.dated_contracts_checked += 1;
            if date.iso_week().year() != date.year() {
                res.stats.dated_contracts_near_year_boundary += 1;
            }
            if !t.token.contains(&want) {
                res.fired.push(Fired {
                    signature: "dated_contract_market_does_not_carry_its_expiry_date",
                    detail: format!(
                        "{}: instrument {}/{} {} expiring {date} is subscribed under venue market {:?}, which does not contain the calendar expiry {want} (a different contract of the venue)",
                        def.name,
                        ins.base,
                        ins.quote,
                        ins.kind.class(),
                        t.token
                    ),
                    probe: None,
                });
                return res;
            }
        }
    }
    // 1c. option contracts: the venue's market id of an option names the strike and the right
    // ("...-<strike>-C" / "...-<strike>-P" on both Okx and Gateio, as documented in the repo). The strike in
    // the subscribed market must be NUMERICALLY the contract's strike and the right must be the contract's,
    // otherwise the subscription addresses a neighbouring contract of the chain.
    if case.sub_type == SubType::Keyed && matches!(def.venue, Venue::Okx | Venue::GateioDeriv) {
        use std::str::FromStr;
        for (ins, t) in case.instruments.iter().zip(&toks) {
            let KindSpec::Option { call, strike, .. } = &ins.kind else { continue };
            let want = rust_decimal::Decimal::from_str(strike).expect("strike");
            let mut segs = t.token.rsplit('-');
            let right = segs.next().unwrap_or("");
            let got = segs.next().and_then(|x| rust_decimal::Decimal::from_str(x).ok());
            res.stats.option_contracts_checked += 1;
            if want.scale() > 2 {
                res.stats.option_strikes_with_3_or_more_decimals += 1;
            }
            if got != Some(want) || right != if *call { "C" } else { "P" } {
                res.fired.push(Fired {
                    signature: "option_market_does_not_carry_its_strike_and_right",
                    detail: format!("{}: {} option {}/{} strike {strike} is subscribed under venue market {:?} (strike segment {:?}, right {right:?})", def.name, if *call { "call" } else { "put" }, ins.base, ins.quote, t.token, got),
                    probe: None,
                });
                return res;
            }
        }
    }
    let echoed: Vec<String> = toks.iter().map(|t| venue::echo(def.venue, &t.token)).collect();
    if echoed.iter().collect::<HashSet<_>>().len() != echoed.len() {
        harness!(format!("ill-formed case: two instruments denote the same venue market {echoed:?}"));
    }
    if case.instruments.iter().map(|i| i.key).collect::<HashSet<_>>().len() != case.instruments.len() {
        harness!("ill-formed case: duplicate keys".into());
    }

    // 2. the real mapper on the whole set
    let mapped = match plumb::map_pair(def.name, case.sub_type, &case.instruments) {
        Ok(m) => m,
        Err(e) => harness!(e),
    };
    let mut batch: Vec<ReqTok> = Vec::new();
    for r in &mapped.requests {
        match venue::extract_tokens(def.venue, r) {
            Ok(t) => batch.extend(t),
            Err(e) => harness!(e),
        }
    }
    let mut a: Vec<&ReqTok> = batch.iter().collect();
    let mut b: Vec<&ReqTok> = toks.iter().collect();
    a.sort_by(|x, y| (&x.token, &x.channel).cmp(&(&y.token, &y.channel)));
    b.sort_by(|x, y| (&x.token, &x.channel).cmp(&(&y.token, &y.channel)));
    if a != b {
        res.fired.push(Fired {
            signature: "subscribe_request_tokens_inconsistent",
            detail: format!("tokens requested for the whole set {a:?} differ from the tokens requested per instrument {b:?}"),
            probe: None,
        });
        return res;
    }
    if mapped.map.0.len() != case.instruments.len() {
        res.fired.push(Fired {
            signature: "subscription_ids_collide",
            detail: format!("{} instruments with distinct venue markets {echoed:?} map to {} subscription ids {:?}", case.instruments.len(), mapped.map.0.len(), mapped.map.0),
            probe: None,
        });
        return res;
    }

    // 2b. TWIN: the same venue market subscribed under a SECOND key (two desks tracking one instrument), somewhere
    // before the end of the list. Whichever of the two keys that market is attributed to, every OTHER market
    // must keep the key it is subscribed under - the mapper works on the whole list.
    if case.instruments.len() >= 2 {
        let j = (case.instruments[0].key as usize) % (case.instruments.len() - 1);
        let mut twin_set = case.instruments.clone();
        let mut twin = twin_set[j].clone();
        twin.key = case.instruments.iter().map(|i| i.key).max().unwrap_or(0) + 1;
        let twin_keys = [twin_set[j].key, twin.key];
        twin_set.insert(j + 1, twin);
        match plumb::map_pair(def.name, case.sub_type, &twin_set) {
            Ok(m2) => {
                res.stats.twin_sets_mapped += 1;
                for (id, key) in mapped.map.0.iter() {
                    let got = m2.map.0.get(id);
                    let ok = if twin_keys.contains(key) { got.map(|k| twin_keys.contains(k)).unwrap_or(false) } else { got == Some(key) };
                    if !ok {
                        res.fired.push(Fired {
                            signature: "market_subscribed_under_two_keys_changes_the_attribution_of_other_markets",
                            detail: format!(
                                "instrument #{j} of {} subscribed a second time under key {}: subscription id {id:?} now resolves to {got:?}, it is subscribed under key {key} (twin keys {twin_keys:?})",
                                case.instruments.len(),
                                twin_keys[1]
                            ),
                            probe: None,
                        });
                        return res;
                    }
                }
                if m2.map.0.len() != mapped.map.0.len() {
                    res.fired.push(Fired {
                        signature: "market_subscribed_under_two_keys_changes_the_attribution_of_other_markets",
                        detail: format!("with instrument #{j} subscribed twice the map holds {} subscription ids, {} without", m2.map.0.len(), mapped.map.0.len()),
                        probe: None,
                    });
                    return res;
                }
            }
            Err(e) => harness!(format!("twin set: {e}")),
        }
    }

    // 3. Bitfinex: remap to channel ids through the real validator (loopback venue)
    let mut buffered = Vec::new();
    let map: Map<Key> = if def.venue == Venue::Bitfinex {
        let mut chan_of_symbol: BTreeMap<String, u32> = BTreeMap::new();
        let mut symbol_of_key: BTreeMap<Key, String> = BTreeMap::new();
        for (ins, t) in case.instruments.iter().zip(&toks) {
            let Some(c) = ins.chan_id else { harness!("bitfinex case without channel id".into()) };
            chan_of_symbol.insert(t.token.clone(), c);
            symbol_of_key.insert(ins.key, t.token.clone());
        }
        match (&env.socket, env.use_socket) {
            (Some(sock), true) => {
                let mut order: Vec<String> = case.bitfinex_order.iter().filter_map(|k| symbol_of_key.get(k).cloned()).collect();
                // a shrunk / hand-written history may lack entries: answer the rest in request order
                for sym in symbol_of_key.values() {
                    let have = order.iter().filter(|s| *s == sym).count();
                    for _ in have..2 {
                        order.push(sym.clone());
                    }
                }
                match plumb::bitfinex_validate(sock, mapped.map, &mapped.requests, &chan_of_symbol, &order) {
                    ValidateOutcome::Ok(map, buf) => {
                        res.stats.bitfinex_remapped_via_validator = true;
                        res.stats.bitfinex_buffered_snapshots = buf.len() as u64;
                        buffered = buf;
                        map
                    }
                    ValidateOutcome::Rejected(e) => {
                        res.fired.push(Fired {
                            signature: "bitfinex_subscription_validation_failed",
                            detail: format!("venue confirmed every subscription (order {order:?}) but the validator returned: {e}"),
                            probe: None,
                        });
                        return res;
                    }
                    ValidateOutcome::Harness(e) => harness!(e),
                }
            }
            _ => {
                // no socket (miri tier): emulate the remap by hand; only the message side is exercised
                case.instruments.iter().map(|i| (SubscriptionId::from(i.chan_id.unwrap_or(0).to_string()), i.key)).collect()
            }
        }
    } else {
        mapped.map
    };

    // 4. push every probe through the real ExchangeStream
    let snaps: Vec<(Key, u64)> = case.instruments.iter().filter_map(|i| i.l2_seq.map(|s| (i.key, s))).collect();
    let texts: Vec<String> = case.probes.iter().map(|p| p.text.clone()).collect();
    let run = match plumb::stream_pair(def.name, &env.errs, map, &snaps, buffered, &texts) {
        Ok(r) => r,
        Err(e) => harness!(e),
    };
    if let Some(e) = run.pre.iter().find_map(|o| if let Out::Event(e) = o { Some(e) } else { None }) {
        // Bitfinex snapshots buffered during validation are not trade messages ("te")
        res.fired.push(Fired { signature: "buffered_snapshot_produced_event", detail: format!("{e:?}"), probe: None });
    }
    // 5. subscription-validation window (venues that acknowledge every subscription separately): the same
    // payloads arrive BETWEEN the first and the last acknowledgement, are buffered by the real validator and
    // replayed by the init path; the replay must yield exactly what the live path yields for them.
    if let (Some(sock), true, true) = (&env.socket, env.use_socket, matches!(def.venue, Venue::Okx | Venue::KrakenTrade | Venue::KrakenSpread) && case.instruments.len() >= 2 && run.panic.is_none()) {
        let ack = |k: usize, tok: &str| -> String {
            match def.venue {
                Venue::Okx => serde_json::json!({"event": "subscribe", "arg": {"channel": "trades", "instId": tok}}).to_string(),
                _ => serde_json::json!({"channelID": 10_000 + k, "channelName": if def.venue == Venue::KrakenTrade { "trade" } else { "spread" }, "event": "subscriptionStatus", "pair": tok, "status": "subscribed", "subscription": {"name": if def.venue == Venue::KrakenTrade { "trade" } else { "spread" }}}).to_string(),
            }
        };
        // payloads that could be mistaken for a subscription response stay out of the window
        let usable: Vec<usize> = (0..texts.len()).filter(|i| !texts[*i].contains("\"event\"") && run.per_msg.get(*i).is_some()).collect();
        if !usable.is_empty() {
            let mut messages = vec![ack(0, &echoed[0])];
            messages.extend(usable.iter().map(|i| texts[*i].clone()));
            messages.extend(echoed.iter().enumerate().skip(1).map(|(k, t)| ack(k, t)));
            let remapped = match plumb::map_pair(def.name, case.sub_type, &case.instruments) {
                Ok(m) => m.map,
                Err(e) => harness!(e),
            };
            match plumb::window_validate(def.name, sock, remapped, &messages) {
                ValidateOutcome::Ok(map2, buf) => {
                    let n_buf = buf.len();
                    let replay = match plumb::stream_pair(def.name, &env.errs, map2, &snaps, buf, &[]) {
                        Ok(r) => r,
                        Err(e) => harness!(e),
                    };
                    // payloads that do not parse are reported as errors live and only logged on the replay path: the
                    // statement is about events and unidentifiable-market errors, so parse errors are set aside
                    let want: Vec<String> = usable.iter().flat_map(|i| run.per_msg[*i].iter().map(|o| format!("{o:?}"))).filter(|o| !o.starts_with("Parse(")).collect();
                    let got: Vec<String> = replay.pre.iter().map(|o| format!("{o:?}")).filter(|o| !o.starts_with("Parse(")).collect();
                    res.stats.window_messages += usable.len() as u64;
                    if n_buf != usable.len() {
                        res.fired.push(Fired { signature: "validator_did_not_buffer_every_message_of_the_window", detail: format!("[{}] {} payloads arrived between the first and the last subscription acknowledgement, {n_buf} were handed on", def.name, usable.len()), probe: None });
                        return res;
                    }
                    if got != want {
                        let first = got.iter().zip(want.iter()).position(|(a, b)| a != b).unwrap_or(got.len().min(want.len()));
                        res.fired.push(Fired {
                            signature: "messages_buffered_during_subscription_validation_replayed_differently",
                            detail: format!("[{} / {:?}] {} payloads arrived between the first and the last subscription acknowledgement; replayed through the init path they yield {} outputs, live they yield {}; first difference at output #{first}: replay {:?} vs live {:?}", def.name, case.sub_type, usable.len(), got.len(), want.len(), got.get(first), want.get(first)),
                            probe: None,
                        });
                        return res;
                    }
                }
                ValidateOutcome::Rejected(e) => {
                    res.fired.push(Fired { signature: "subscription_validation_failed_although_every_subscription_was_acknowledged", detail: format!("[{}] {e}", def.name), probe: None });
                    return res;
                }
                ValidateOutcome::Harness(e) => harness!(e),
            }
        }
    }
    let kind_of_key: BTreeMap<Key, &'static str> = case.instruments.iter().map(|i| (i.key, i.kind.class())).collect();
    for (idx, probe) in case.probes.iter().enumerate() {
        if let Some((pidx, msg)) = &run.panic {
            if *pidx == idx {
                res.fired.push(Fired { signature: "panic_in_market_data_path", detail: format!("panic while processing {}: {msg}", probe.text), probe: Some(idx) });
                break;
            }
        }
        let Some(outs) = run.per_msg.get(idx) else { break };
        res.stats.outputs += outs.len() as u64;
        res.stats.probes_judged += 1;
        if env.verbose {
            res.stats.per_probe.push(format!("{outs:?}"));
        }
        if let Err((signature, detail)) = judge(def, probe, outs, &mut res.stats, &kind_of_key) {
            res.fired.push(Fired { signature, detail: format!("[{} / {:?} / probe class {}] {detail}; payload {}", def.name, case.sub_type, probe.class, probe.text), probe: Some(idx) });
        }
    }
    res
}
