//! C16 — tear-sheet PnL, win rate and profit factor match the closed positions.
//!
//! Driver (i): closed-position records produced by the REAL `PositionManager` from generated fill
//! sequences (wins, losses, exact break-evens, tiny/huge sizes) feed a real `TearSheetGenerator`;
//! `generate` is called once at the end. Driver (ii): a real `Engine` over 2 exchanges x 4
//! instruments processes interleaved fills and balance snapshots; the `TradingSummary` from
//! `Engine::trading_summary_generator(..).generate(..)` must report, for every instrument and asset,
//! the sheet of exactly that instrument's / asset's own history.
//!
//! Oracle (independent, from the exit records observed at the boundary): pnl = Σ realised;
//! return_i = pnl_i / (entry_i * qmax_i) (documented); win rate = #(return >= 0)/n (None if n = 0);
//! profit factor = Σ winning returns / |Σ losing returns| with None (no wins and no losses),
//! Decimal::MAX (no losses), Decimal::MIN (no wins). Every case is also logged for the exact
//! rational re-check in oracles/c16_tearsheet.py.
//!
//! distinct non-trivial rule: >= 2 closed positions including at least one win and one loss;
//! distinct = hash of the exit list.

use barter::{
    EngineEvent,
    engine::{
        EngineOutput, Processor,
        audit::EngineAudit,
        state::{
            position::{PositionExited, PositionManager},
            trading::TradingState,
        },
    },
    statistic::{summary::instrument::{TearSheet, TearSheetGenerator}, time::Daily},
};
use barter_execution::{
    order::id::{OrderId, StrategyId},
    trade::{AssetFees, Trade, TradeId},
};
use barter_instrument::{Side, asset::QuoteAsset, exchange::ExchangeId, index::IndexedInstruments, instrument::InstrumentIndex};
use rust_decimal::Decimal;
use serde::{Deserialize, Serialize};
use serde_json::{Value, json};
use std::str::FromStr;
use vharness::{
    Args, Report, Rng, catch,
    fixtures::{self, t},
    fnv1a,
    report::LogSink,
    run_workers, shrink,
};

#[derive(Debug, Clone, Serialize, Deserialize, PartialEq)]
struct Fill {
    instr: usize,
    buy: bool,
    p: String,
    q: String,
    fee: String,
}

#[derive(Debug, Clone, Serialize, Deserialize, PartialEq)]
struct Exit {
    pnl: String,
    avg: String,
    qmax: String,
}

fn d(s: &str) -> Decimal {
    Decimal::from_str(s).unwrap()
}

fn mk_trade<K>(f: &Fill, idx: usize, instrument: K) -> Trade<QuoteAsset, K> {
    Trade {
        id: TradeId::new(format!("t{idx}")),
        order_id: OrderId::new(format!("o{idx}")),
        instrument,
        strategy: StrategyId::new("s"),
        time_exchange: t(1000 + idx as i64 * 60_000),
        side: if f.buy { Side::Buy } else { Side::Sell },
        price: d(&f.p),
        quantity: d(&f.q),
        fees: AssetFees::quote_fees(d(&f.fee)),
    }
}

fn exit_of<K>(e: &PositionExited<QuoteAsset, K>) -> Exit {
    Exit { pnl: e.pnl_realised.to_string(), avg: e.price_entry_average.to_string(), qmax: e.quantity_abs_max.to_string() }
}

#[derive(Debug, Clone, PartialEq)]
struct Expect {
    pnl: Decimal,
    n: usize,
    wins: usize,
    gross_win: Decimal,
    gross_loss: Decimal, // <= 0
    dont_care: bool,     // a return underflowed to zero: win/loss classification is not judged
}

fn expect(exits: &[Exit]) -> Expect {
    let mut e = Expect { pnl: Decimal::ZERO, n: exits.len(), wins: 0, gross_win: Decimal::ZERO, gross_loss: Decimal::ZERO, dont_care: false };
    for x in exits {
        let pnl = d(&x.pnl);
        e.pnl += pnl;
        let r = pnl / (d(&x.avg) * d(&x.qmax));
        if r.is_zero() && !pnl.is_zero() {
            e.dont_care = true;
        }
        if r < Decimal::ZERO {
            e.gross_loss += r;
        } else {
            e.wins += 1;
            e.gross_win += r;
        }
    }
    e
}

type V = (&'static str, String);

fn close(a: Decimal, b: Decimal, scale: Decimal) -> bool {
    (a - b).abs() <= Decimal::new(1, 20) * (Decimal::ONE + scale.abs())
}

fn judge_sheet(what: &str, sheet: &TearSheet<Daily>, exits: &[Exit]) -> Result<u64, V> {
    let e = expect(exits);
    let mut checks = 1;
    if !close(sheet.pnl, e.pnl, e.pnl) {
        return Err(("tear_sheet_pnl_differs_from_sum_of_realised_pnl", format!("{what}: sheet.pnl={} Σ realised={} over {} closed positions", sheet.pnl, e.pnl, e.n)));
    }
    if e.dont_care {
        return Ok(checks);
    }
    checks += 2;
    // win rate
    match (&sheet.win_rate, e.n) {
        (None, 0) => {}
        (Some(w), n) if n > 0 => {
            let want = Decimal::from(e.wins) / Decimal::from(n);
            if !close(w.value, want, Decimal::ONE) {
                return Err(("win_rate_is_not_fraction_of_non_negative_returns", format!("{what}: win_rate={} expected {}/{} = {want}", w.value, e.wins, n)));
            }
        }
        (w, n) => {
            return Err(("win_rate_convention_wrong", format!("{what}: win_rate={w:?} with {n} closed positions")));
        }
    }
    // profit factor
    let want_pf: Option<Decimal> = if e.gross_win.is_zero() && e.gross_loss.is_zero() {
        None
    } else if e.gross_loss.is_zero() {
        Some(Decimal::MAX)
    } else if e.gross_win.is_zero() {
        Some(Decimal::MIN)
    } else {
        Some(e.gross_win / e.gross_loss.abs())
    };
    match (&sheet.profit_factor, want_pf) {
        (None, None) => {}
        (Some(pf), Some(w)) => {
            let ok = if w == Decimal::MAX || w == Decimal::MIN { pf.value == w } else { (pf.value - w).abs() <= Decimal::new(1, 18) * (Decimal::ONE + w.abs()) };
            if !ok {
                return Err(("profit_factor_is_not_gross_wins_over_gross_losses", format!("{what}: profit_factor={} expected {w} (gross winning returns {} / gross losing returns {})", pf.value, e.gross_win, e.gross_loss)));
            }
        }
        (got, w) => {
            return Err(("profit_factor_convention_wrong", format!("{what}: profit_factor={got:?} expected {w:?} (gross wins {} losses {})", e.gross_win, e.gross_loss)));
        }
    }
    Ok(checks)
}

struct Outcome {
    exits_per_instr: Vec<Vec<Exit>>,
    sheets: Vec<Value>,
    steps: u64,
    checks: u64,
    /// unit driver: the generator was reset after a session with at least one loss and used again
    session_break_after_a_loss: bool,
    break_even_fed_as_negative_zero: bool,
}

const N_INSTR: usize = 4;

fn instruments() -> IndexedInstruments {
    // index order (exchange id order, then definition) deliberately differs from the alphabetical order of the
    // instrument / asset names: `ExchangeId::Mock` sorts BEFORE BinanceSpot while "mock-..." sorts after
    IndexedInstruments::new([
        fixtures::spot(ExchangeId::Mock, "btc", "usdt"),
        fixtures::spot(ExchangeId::BinanceSpot, "btc", "usdt"),
        fixtures::spot(ExchangeId::Mock, "eth", "usdt"),
        fixtures::spot(ExchangeId::BinanceSpot, "eth", "btc"),
    ])
}

fn sheet_json(s: &TearSheet<Daily>) -> Value {
    json!({"pnl": s.pnl.to_string(), "win_rate": s.win_rate.as_ref().map(|w| w.value.to_string()), "profit_factor": s.profit_factor.as_ref().map(|p| p.value.to_string())})
}

/// Driver (i): unit. All fills are for instrument 0.
fn run_unit(fills: &[Fill]) -> Result<Outcome, V> {
    let mut pm: PositionManager<u64> = PositionManager::default();
    let mut tear = TearSheetGenerator::init(fixtures::t0());
    let mut exits = vec![];
    let mut steps = 0;
    // every third history has a SESSION BREAK: after the 3rd closed position the generator is `reset` (public API:
    // a new session starts) and the tear sheet is that of the closed positions since
    let session_break = fills.len() % 3 == 1;
    let mut closed = 0usize;
    let mut lost_before_break = false;
    let mut neg_zero = false;
    for (idx, f) in fills.iter().enumerate() {
        let tr = mk_trade(f, idx, 0u64);
        let ex = catch(|| pm.update_from_trade(&tr)).map_err(|m| ("panic_in_position_update", m))?;
        steps += 1;
        if let Some(mut ex) = ex {
            // a break-even position's realised PnL is zero whatever its sign bit (`-(fee_enter + fee_exit)` on a
            // zero-fee venue is -0): every second one is fed as negative zero
            if ex.pnl_realised.is_zero() && idx % 2 == 0 {
                ex.pnl_realised = -ex.pnl_realised;
                neg_zero = true;
            }
            catch(|| tear.update_from_position(&ex)).map_err(|m| ("panic_in_tear_sheet_update", format!("exit {ex:?}: {m}")))?;
            exits.push(exit_of(&ex));
            closed += 1;
            if session_break && closed == 3 {
                // the report of the first session is judged, then the second session starts from scratch
                let sheet = catch(|| tear.generate(Decimal::ZERO, Daily)).map_err(|m| ("panic_in_tear_sheet_generate", m))?;
                judge_sheet("TearSheetGenerator (first session, before reset)", &sheet, &exits)?;
                lost_before_break = exits.iter().any(|x| d(&x.pnl).is_sign_negative() && !d(&x.pnl).is_zero());
                catch(|| tear.reset(ex.time_exit)).map_err(|m| ("panic_in_tear_sheet_update", format!("reset: {m}")))?;
                exits.clear();
                let empty = catch(|| tear.generate(Decimal::ZERO, Daily)).map_err(|m| ("panic_in_tear_sheet_generate", m))?;
                judge_sheet("TearSheetGenerator (right after reset: a session without closed positions)", &empty, &exits)?;
            }
            // the generator is persistable state: every 4th exit the run continues on a copy restored from JSON
            if exits.len() % 4 == 0 {
                let back: TearSheetGenerator = serde_json::to_string(&tear).ok().and_then(|t| serde_json::from_str(&t).ok()).ok_or(("tear_sheet_generator_changed_by_persisting_and_restoring", "serde_json round trip failed".to_string()))?;
                if back != tear {
                    return Err(("tear_sheet_generator_changed_by_persisting_and_restoring", format!("restored {back:?} vs persisted {tear:?}")));
                }
                tear = back;
            }
        }
    }
    let sheet = catch(|| tear.generate(Decimal::ZERO, Daily)).map_err(|m| ("panic_in_tear_sheet_generate", m))?;
    let checks = judge_sheet(if session_break && closed >= 3 { "TearSheetGenerator (second session, after reset)" } else { "TearSheetGenerator" }, &sheet, &exits)?;
    Ok(Outcome { exits_per_instr: vec![exits], sheets: vec![sheet_json(&sheet)], steps, checks, session_break_after_a_loss: lost_before_break, break_even_fed_as_negative_zero: neg_zero })
}

/// Driver (ii): engine, fills spread over 4 instruments on 2 exchanges, plus balance snapshots.
fn run_engine(fills: &[Fill]) -> Result<Outcome, V> {
    let ins = instruments();
    let (mut engine, _txs) = fixtures::engine_with_rec_txs(&ins, TradingState::Disabled);
    let exch_of: Vec<usize> = ins.instruments().iter().map(|i| i.value.exchange.key.index()).collect();
    let mut exits: Vec<Vec<Exit>> = vec![vec![]; N_INSTR];
    let mut last_balance: Vec<Option<(Decimal, Decimal)>> = vec![None; ins.assets().len()];
    let mut steps = 0;
    let (mut interim_checks, mut interim_reports) = (0u64, 0u64);
    // a second summary generator, created up front and maintained through the public
    // `update_from_position` / `update_from_balance` API (keyed by index), as an audit consumer would
    let mut shadow = engine.trading_summary_generator(Decimal::ZERO);
    for (idx, f) in fills.iter().enumerate() {
        // the two venues' clocks are skewed against each other: exit times of different instruments interleave
        // (exchange time of instrument k lags by k x 150 s), as they do with several account streams
        let mut trade = mk_trade(f, idx, InstrumentIndex(f.instr));
        trade.time_exchange = t(1_000_000 + idx as i64 * 60_000 - f.instr as i64 * 150_000);
        let ev: EngineEvent = fixtures::ev_account(exch_of[f.instr], barter_execution::AccountEventKind::Trade(trade));
        let audit = catch(|| engine.process(ev)).map_err(|m| ("panic_in_engine_trade_processing", m))?;
        steps += 1;
        if let EngineAudit::Process(pa) = audit {
            for o in pa.outputs.into_iter() {
                if let EngineOutput::PositionExit(e) = o {
                    exits[e.instrument.index()].push(exit_of(&e));
                    // the consumer keeps the summary's clock current (sometimes ahead of the exit's exchange time)
                    if idx % 3 == 0 {
                        shadow.update_time_now(t(1_000_000 + idx as i64 * 60_000 + 1_000));
                    }
                    catch(|| shadow.update_from_position(&e)).map_err(|m| ("panic_in_trading_summary_update", m))?;
                }
            }
        }
        // a balance snapshot for one asset of the same exchange (deterministic from the fill)
        let assets_of_exchange: Vec<usize> =
            ins.assets().iter().filter(|a| ins.find_exchange_index(a.value.exchange).unwrap().index() == exch_of[f.instr]).map(|a| a.key.index()).collect();
        let a = assets_of_exchange[idx % assets_of_exchange.len()];
        let total = d(&f.q) + Decimal::from(idx as u64 + 1);
        let free = total - Decimal::ONE;
        let ev = fixtures::ev_balance(exch_of[f.instr], a, 1500 + idx as i64 * 60_000, total, free);
        catch(|| engine.process(ev)).map_err(|m| ("panic_in_engine_balance_processing", m))?;
        {
            use barter_execution::balance::{AssetBalance, Balance};
            use barter_integration::snapshot::Snapshot;
            let bal = AssetBalance { asset: barter_instrument::asset::AssetIndex(a), balance: Balance::new(total, free), time_exchange: t(1500 + idx as i64 * 60_000) };
            catch(|| shadow.update_from_balance(Snapshot(&bal))).map_err(|m| ("panic_in_trading_summary_update", m))?;
        }
        last_balance[a] = Some((total, free));
        steps += 1;
        // interim reports: generating a summary must not disturb the generator (it keeps being updated)
        if idx % 11 == 10 {
            let interim = catch(|| shadow.generate(Daily)).map_err(|m| ("panic_in_trading_summary_generate", m))?;
            for (i, keyed) in ins.instruments().iter().enumerate() {
                let name = &keyed.value.name_internal;
                let Some(sheet) = interim.instruments.get(name) else {
                    return Err(("trading_summary_missing_instrument", format!("maintained generator, interim report after fill #{idx}: {name}")));
                };
                interim_checks += judge_sheet(&format!("maintained summary, interim report after fill #{idx} [{name}] (instrument {i})"), sheet, &exits[i]).map_err(|(_, dd)| ("maintained_trading_summary_entry_reflects_another_history", dd))?;
            }
            interim_reports += 1;
        }
    }
    let summary = catch(|| engine.trading_summary_generator(Decimal::ZERO).generate(Daily)).map_err(|m| ("panic_in_trading_summary_generate", m))?;
    let mut checks = interim_checks;
    let _ = interim_reports;
    if summary.instruments.len() != N_INSTR || summary.assets.len() != ins.assets().len() {
        return Err(("trading_summary_entry_count_wrong", format!("instruments {} assets {}", summary.instruments.len(), summary.assets.len())));
    }
    let mut sheets = vec![];
    for (i, keyed) in ins.instruments().iter().enumerate() {
        let name = &keyed.value.name_internal;
        let Some(sheet) = summary.instruments.get(name) else {
            return Err(("trading_summary_missing_instrument", format!("{name}")));
        };
        checks += judge_sheet(&format!("summary[{name}] (instrument {i})"), sheet, &exits[i]).map_err(|(s, dd)| {
            // tell "wrong history" apart from "wrong formula": would another instrument's history fit?
            let other = (0..N_INSTR).find(|j| *j != i && !exits[*j].is_empty() && exits[*j] != exits[i] && judge_sheet("", sheet, &exits[*j]).is_ok());
            match other {
                Some(j) => ("trading_summary_entry_reflects_another_instruments_history", format!("{dd}; it matches the history of instrument {j} instead")),
                None => (s, dd),
            }
        })?;
        sheets.push(sheet_json(sheet));
    }
    for (a, keyed) in ins.assets().iter().enumerate() {
        let key = barter_instrument::asset::ExchangeAsset::new(keyed.value.exchange, keyed.value.asset.name_internal.clone());
        let Some(sheet) = summary.assets.get(&key) else {
            return Err(("trading_summary_missing_asset", format!("{key:?}")));
        };
        checks += 1;
        let got = sheet.balance_end.map(|b| (b.total, b.free));
        if got != last_balance[a] {
            return Err(("trading_summary_asset_entry_reflects_another_assets_history", format!("asset {a} {key:?}: balance_end={got:?} expected {:?}", last_balance[a])));
        }
    }
    // the separately maintained generator must report the same per-instrument / per-asset sheets
    let shadow_summary = catch(|| shadow.generate(Daily)).map_err(|m| ("panic_in_trading_summary_generate", m))?;
    for (i, keyed) in ins.instruments().iter().enumerate() {
        let name = &keyed.value.name_internal;
        let Some(sheet) = shadow_summary.instruments.get(name) else {
            return Err(("trading_summary_missing_instrument", format!("maintained generator: {name}")));
        };
        checks += judge_sheet(&format!("maintained summary[{name}] (instrument {i})"), sheet, &exits[i]).map_err(|(_, dd)| ("maintained_trading_summary_entry_reflects_another_history", dd))?;
    }
    for (a, keyed) in ins.assets().iter().enumerate() {
        let key = barter_instrument::asset::ExchangeAsset::new(keyed.value.exchange, keyed.value.asset.name_internal.clone());
        checks += 1;
        let got = shadow_summary.assets.get(&key).and_then(|s| s.balance_end).map(|b| (b.total, b.free));
        if got != last_balance[a] {
            return Err(("maintained_trading_summary_entry_reflects_another_history", format!("asset {a} {key:?}: balance_end={got:?} expected {:?}", last_balance[a])));
        }
    }
    Ok(Outcome { exits_per_instr: exits, sheets, steps, checks, session_break_after_a_loss: false, break_even_fed_as_negative_zero: false })
}

fn gen_fills(rng: &mut Rng, n_instr: usize) -> Vec<Fill> {
    let n = rng.range_u(0, 120);
    let mut fills = Vec::with_capacity(n);
    // per instrument state for boosting closes
    let mut net: Vec<Decimal> = vec![Decimal::ZERO; n_instr];
    let mut entry: Vec<Decimal> = vec![Decimal::ONE; n_instr];
    let bases: Vec<Decimal> = (0..n_instr)
        .map(|_| {
            let e = rng.range(-3, 4);
            if e >= 0 { Decimal::from(10i64.pow(e as u32)) } else { Decimal::new(1, (-e) as u32) }
        })
        .collect();
    let size_class = rng.below(3);
    for _ in 0..n {
        let i = rng.usize_below(n_instr);
        let factor = Decimal::new(rng.range(50, 200), 2); // 0.50 .. 2.00 around the base
        let mut p = (bases[i] * factor).round_dp(8).max(Decimal::new(1, 8));
        let mut q = match size_class {
            0 => rng.decimal_log(4, 4, 8),
            1 => rng.decimal_log(5, 0, 3).max(Decimal::ONE),
            _ => rng.decimal_log(6, 1, 6),
        };
        if q.is_zero() {
            q = Decimal::new(1, 8);
        }
        let mut buy = rng.bool();
        let mut fee = if rng.chance(1, 3) { Decimal::ZERO } else { (p * q * Decimal::new(rng.range(1, 50), 4)).round_dp(12) };
        if !net[i].is_zero() {
            let r = rng.below(10);
            if r < 5 {
                // exact close (boosted so that many positions get closed)
                buy = net[i].is_sign_negative();
                q = net[i].abs();
                if r == 0 {
                    // exact break-even: close at the entry price with zero fee (only if entry is an
                    // 8dp number, i.e. the position was opened by a single fill without fees)
                    p = entry[i];
                    fee = Decimal::ZERO;
                }
            } else if r < 6 {
                buy = net[i].is_sign_negative();
                q = net[i].abs() + q;
            }
        }
        if net[i].is_zero() {
            entry[i] = p;
            if rng.chance(1, 4) {
                fee = Decimal::ZERO;
            }
        }
        net[i] += if buy { q } else { -q };
        fills.push(Fill { instr: i, buy, p: p.normalize().to_string(), q: q.normalize().to_string(), fee: fee.normalize().to_string() });
    }
    fills
}

fn execute(fills: &[Fill], engine: bool, report: &mut Report, log: &LogSink) {
    let run = |f: &[Fill]| if engine { run_engine(f) } else { run_unit(f) };
    match run(fills) {
        Ok(out) => {
            report.events_observed += out.steps;
            report.oracle_checks += out.checks;
            if out.break_even_fed_as_negative_zero {
                report.cover("break_even_position_fed_as_negative_zero");
            }
            if out.session_break_after_a_loss {
                report.cover("generator_reset_after_a_session_with_a_loss_and_used_again");
            }
            let all: Vec<&Exit> = out.exits_per_instr.iter().flatten().collect();
            let h = fnv1a(format!("{engine}{all:?}").as_bytes());
            let mut any_nontrivial = false;
            for (i, ex) in out.exits_per_instr.iter().enumerate() {
                let e = expect(ex);
                if e.n == 0 {
                    report.cover("no_closed_positions");
                } else if e.wins == e.n {
                    report.cover("only_wins");
                } else if e.wins == 0 {
                    report.cover("only_losses");
                } else {
                    report.cover("wins_and_losses");
                    any_nontrivial = true;
                }
                if ex.iter().any(|x| d(&x.pnl).is_zero()) {
                    report.cover("exact_break_even");
                }
                if e.dont_care {
                    report.info("return_underflow_not_judged", 1);
                }
                if log.enabled() {
                    log.write(&json!({"engine": engine, "instr": i, "exits": ex, "sheet": out.sheets[i]}));
                }
            }
            if engine {
                report.cover("engine_trading_summary");
                if out.exits_per_instr.iter().filter(|e| !e.is_empty()).count() >= 2 {
                    report.cover("several_instruments_with_history");
                }
            } else {
                report.cover("tear_sheet_generator_direct");
            }
            report.case(h, any_nontrivial);
            if any_nontrivial && all.len() <= 6 {
                report.sample(|| json!({"engine": engine, "exits": out.exits_per_instr, "sheets": out.sheets}));
            }
        }
        Err((sig, detail)) => {
            report.case(fnv1a(format!("{fills:?}").as_bytes()), true);
            let small = shrink(fills, |cand| matches!(run(cand), Err((s, _)) if s == sig));
            let detail = match run(&small) {
                Err((_, dd)) => dd,
                Ok(_) => detail,
            };
            report.violation(sig, detail, json!({"engine": engine, "fills": small}));
        }
    }
}

fn main() {
    let args = Args::parse();
    if let Some(path) = &args.replay {
        let v: Value = serde_json::from_str(&std::fs::read_to_string(path).expect("read replay")).expect("json");
        let mut report = Report::new("C16");
        if let Some(exits) = v["history"].get("exits") {
            // witness from the offline oracle: exit list + sheet; re-derive through a generator fed with synthetic exits
            println!("offline witness (exit records): {exits}");
        }
        if let Some(f) = v["history"].get("fills") {
            let fills: Vec<Fill> = serde_json::from_value(f.clone()).expect("fills");
            let engine = v["history"]["engine"].as_bool().unwrap_or(false);
            execute(&fills, engine, &mut report, &LogSink::open(None));
        }
        println!("{}", serde_json::to_string_pretty(&report.to_json()).unwrap());
        std::process::exit(if report.violation_count > 0 { 1 } else { 0 });
    }
    let n_cases = match args.tier.as_str() {
        "miri" => 6,
        "tsan" => 100,
        _ => args.size(6_000, 300_000),
    };
    let log = LogSink::open(args.log.as_deref());
    let log_every: u64 = if args.is_thorough() { 30 } else { 1 };
    let mut report = run_workers(&args, "C16", |w, n, rng, report| {
        let mine = Args::share(n_cases, w, n);
        for i in 0..mine {
            let engine = i % 3 == 2;
            let fills = gen_fills(rng, if engine { N_INSTR } else { 1 });
            let sink = if i % log_every == 0 { log.clone() } else { LogSink::open(None) };
            execute(&fills, engine, report, &sink);
        }
    });
    log.flush();
    if args.tier != "miri" {
        for c in ["no_closed_positions", "only_wins", "only_losses", "wins_and_losses", "exact_break_even", "engine_trading_summary", "several_instruments_with_history", "tear_sheet_generator_direct", "generator_reset_after_a_session_with_a_loss_and_used_again", "break_even_position_fed_as_negative_zero"] {
            report.require(c);
        }
    }
    std::process::exit(report.finish(args.out.as_deref()));
}
