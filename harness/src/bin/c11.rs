//! C11 — instrument / asset / exchange indices are dense, unique and consistently resolved.
//!
//! A case is a multiset of 1..=25 instrument definitions (`Instrument<ExchangeId, Asset>`: all four
//! kinds, settlement assets, `OrderQuantityUnits::Asset` specs, exact duplicates, asset internal
//! names shared between exchanges, assets used only for settlement / only as quantity unit) over
//! 1..=5 exchanges, plus 5 explicit insertion orders. Every order is built through the real
//! `IndexedInstruments::new(iter)` AND the real `IndexedInstruments::builder().add_instrument(..)
//! .build()`. (Sanitizer tiers `miri`/`tsan`: 30 collections of 1..=4 definitions over 1..=2
//! exchanges, 2 insertion orders, one thread, no coverage floor.) The oracle is pure set semantics
//! computed from the definitions alone (BTreeSet of exchanges, of (exchange, asset internal name),
//! of distinct definitions) — it never sorts and never predicts WHICH index an entity gets, only
//! that:
//!   * every distinct exchange / exchange-asset / instrument occupies exactly one slot, slot i
//!     carries key i (dense 0..n), counts equal the set sizes;
//!   * `find_*_index` / `find_*` are mutual inverses for every element and every index, and fail
//!     for unknown names (incl. a name known on ANOTHER exchange) and out-of-range indices;
//!   * every instrument, read back through its `exchange.key` and all its `AssetIndex` references
//!     (base, quote, settlement, quantity unit; each resolved with `find_asset`), is exactly the
//!     definition it was created from, on the exchange it was defined for;
//!   * all 10 builds of a case are `==`.
//! Then the derived tables are checked positionally against the (already judged) index:
//! `EngineState::builder(..).balances(..).build()` (instrument states by index and by name, asset
//! states by index and by (exchange, name), connectivity by index and by id incl. write-through-one
//! / read-through-the-other, seeded balances land on exactly their (exchange, asset) entries) and
//! `ExecutionBuilder::new(..).add_mock(..)*.build()` for a random subset of the spot-only exchanges
//! added in random order (table position i carries exchange i, `Some` exactly for the mocked
//! exchanges, `find(ExchangeIndex(i))` succeeds exactly for those, and the transmitter stored for
//! exchange E is wired to the request receiver created by E's own `add_mock`: dropping the k-th
//! registered (never polled) init future closes exactly the transmitter of the k-th added exchange).
//!
//! Assumptions (bound B of DESIGN.md C11): instrument internal names are unique across the whole
//! collection unless the definition is an exact duplicate (documented requirement of
//! `InstrumentNameInternal`); instrument exchange names likewise; an asset's exchange name is a
//! function of (exchange, internal name); base != quote; mocks only for exchanges whose instruments
//! are all spot and at most one mock per exchange (the builder rejects / panics otherwise by
//! design); `ExecutionBuildFutures::execution_init_futures[k]` is the future registered by the k-th
//! `add_mock` call.
//!
//! Evidence rules: a case is non-trivial when it has >= 3 definitions, >= 2 distinct instruments and
//! at least one of {>= 2 exchanges, an exact duplicate, a non-spot kind}. distinct = FNV-1a of the
//! debug rendering of (definitions, insertion orders). events_observed counts calls into the
//! library (builds, lookups, accessor reads); oracle_checks counts rule evaluations.

use barter::{
    engine::{
        execution_tx::ExecutionTxMap,
        state::{
            EngineState,
            connectivity::Health,
            global::DefaultGlobalData,
            instrument::data::DefaultInstrumentMarketData,
        },
    },
    execution::{
        builder::{ExecutionBuild, ExecutionBuildFutures, ExecutionBuilder},
        request::ExecutionRequest,
    },
};
use barter_execution::{AccountSnapshot, balance::Balance, client::mock::MockExecutionConfig};
use barter_instrument::{
    Keyed, Underlying,
    asset::{Asset, AssetIndex, ExchangeAsset, name::AssetNameInternal},
    exchange::{ExchangeId, ExchangeIndex},
    index::IndexedInstruments,
    instrument::{
        Instrument, InstrumentIndex,
        kind::{
            InstrumentKind,
            future::FutureContract,
            option::{OptionContract, OptionExercise, OptionKind},
            perpetual::PerpetualContract,
        },
        name::InstrumentNameInternal,
        quote::InstrumentQuoteAsset,
        spec::{
            InstrumentSpec, InstrumentSpecNotional, InstrumentSpecPrice, InstrumentSpecQuantity,
            OrderQuantityUnits,
        },
    },
};
use barter_integration::channel::Tx;
use rust_decimal::Decimal;
use serde::{Deserialize, Serialize};
use serde_json::json;
use std::collections::{BTreeMap, BTreeSet, VecDeque};
use vharness::{
    Args, Report, Rng, catch,
    fixtures::{self, TestClock},
    fnv1a, run_workers, shrink,
};

// ------------------------------------------------------------------------------------------------
// Case representation (self-contained, serialisable: this is the replay history)

const POOL: [ExchangeId; 8] = [
    ExchangeId::Okx,
    ExchangeId::BinanceSpot,
    ExchangeId::Kraken,
    ExchangeId::Coinbase,
    ExchangeId::BybitSpot,
    ExchangeId::Bitfinex,
    ExchangeId::GateioSpot,
    ExchangeId::Mock,
];

/// every exchange id the library knows (sibling venues of one operator sit next to each other)
const ALL_EXCHANGES: [ExchangeId; 44] = [
    ExchangeId::Other,
    ExchangeId::Simulated,
    ExchangeId::Mock,
    ExchangeId::BinanceFuturesCoin,
    ExchangeId::BinanceFuturesUsd,
    ExchangeId::BinanceOptions,
    ExchangeId::BinancePortfolioMargin,
    ExchangeId::BinanceSpot,
    ExchangeId::BinanceUs,
    ExchangeId::Bitazza,
    ExchangeId::Bitfinex,
    ExchangeId::Bitflyer,
    ExchangeId::Bitget,
    ExchangeId::Bitmart,
    ExchangeId::BitmartFuturesUsd,
    ExchangeId::Bitmex,
    ExchangeId::Bitso,
    ExchangeId::Bitstamp,
    ExchangeId::Bitvavo,
    ExchangeId::Bithumb,
    ExchangeId::BybitPerpetualsUsd,
    ExchangeId::BybitSpot,
    ExchangeId::Cexio,
    ExchangeId::Coinbase,
    ExchangeId::CoinbaseInternational,
    ExchangeId::Cryptocom,
    ExchangeId::Deribit,
    ExchangeId::GateioFuturesBtc,
    ExchangeId::GateioFuturesUsd,
    ExchangeId::GateioOptions,
    ExchangeId::GateioPerpetualsBtc,
    ExchangeId::GateioPerpetualsUsd,
    ExchangeId::GateioSpot,
    ExchangeId::Gemini,
    ExchangeId::Hitbtc,
    ExchangeId::Htx,
    ExchangeId::Kraken,
    ExchangeId::Kucoin,
    ExchangeId::Liquid,
    ExchangeId::Mexc,
    ExchangeId::Okx,
    ExchangeId::Poloniex,
    ExchangeId::BinanceSpot,
    ExchangeId::Okx,
];

const ASSETS: [&str; 12] =
    ["btc", "eth", "usdt", "usd", "sol", "usdc", "xrp", "1000shib", "eur", "btcb", "dai", "bnb"];

const DAY_MS: i64 = 86_400_000;

#[derive(Debug, Clone, PartialEq, Eq, PartialOrd, Ord, Hash, Serialize, Deserialize)]
enum KindDef {
    Spot,
    Perpetual { settle: String, size: i64 },
    Future { settle: String, size: i64, expiry_day: i64 },
    Option { settle: String, size: i64, call: bool, exercise: u8, expiry_day: i64, strike: i64 },
}

impl KindDef {
    fn settle(&self) -> Option<&str> {
        match self {
            KindDef::Spot => None,
            KindDef::Perpetual { settle, .. } | KindDef::Future { settle, .. } | KindDef::Option { settle, .. } => Some(settle),
        }
    }
    fn cell(&self) -> &'static str {
        match self {
            KindDef::Spot => "kind:spot",
            KindDef::Perpetual { .. } => "kind:perpetual",
            KindDef::Future { .. } => "kind:future",
            KindDef::Option { .. } => "kind:option",
        }
    }
}

#[derive(Debug, Clone, PartialEq, Eq, PartialOrd, Ord, Hash, Serialize, Deserialize)]
enum UnitDef {
    Asset(String),
    Contract,
    Quote,
}

/// all numbers are hundredths (`Decimal::new(v, 2)`)
#[derive(Debug, Clone, PartialEq, Eq, PartialOrd, Ord, Hash, Serialize, Deserialize)]
struct SpecDef {
    unit: UnitDef,
    price_min: i64,
    tick: i64,
    qty_min: i64,
    qty_inc: i64,
    notional_min: i64,
}

/// One instrument definition; assets are referred to by INTERNAL name, their exchange name is
/// `exch_asset_name(exchange, internal)`.
#[derive(Debug, Clone, PartialEq, Eq, PartialOrd, Ord, Hash, Serialize, Deserialize)]
struct Def {
    exchange: ExchangeId,
    name_internal: String,
    name_exchange: String,
    base: String,
    quote: String,
    quote_in_base: bool,
    kind: KindDef,
    spec: Option<SpecDef>,
    /// the internal name was produced by the library's documented default,
    /// `InstrumentNameInternal::new_from_exchange(exchange, venue symbol)` ("unique across exchanges"),
    /// and the venue symbol is the same on every exchange that lists the pair
    #[serde(default)]
    default_named: bool,
}

#[derive(Debug, Clone, Serialize, Deserialize)]
struct Case {
    defs: Vec<Def>,
    /// insertion orders: each a permutation of 0..defs.len()
    orders: Vec<Vec<usize>>,
    /// seeds of the derived choices (which balances are seeded; which exchanges get a mock, in
    /// which order) — derived deterministically from (seed, sets of the case)
    balance_seed: u64,
    exec_seed: u64,
    /// sanitizer tiers: probe only a few unknown names per exchange (every failing AND succeeding
    /// `find_*` call formats the whole table into its error message, which is slow under Miri)
    #[serde(default)]
    light: bool,
}

fn exch_asset_name(exchange: ExchangeId, internal: &str) -> String {
    let p = POOL.iter().position(|e| *e == exchange).unwrap_or(0);
    match p % 3 {
        0 => internal.to_uppercase(),
        1 => format!("X{}", internal.to_uppercase()),
        _ => format!("{internal}.s"),
    }
}

fn asset_of(exchange: ExchangeId, internal: &str) -> Asset {
    Asset::new(internal, exch_asset_name(exchange, internal))
}

fn hundredths(v: i64) -> Decimal {
    Decimal::new(v, 2)
}

fn to_hundredths(d: Decimal) -> i64 {
    i64::try_from(d * Decimal::ONE_HUNDRED).unwrap_or(i64::MIN)
}

fn exercise_of(x: u8) -> OptionExercise {
    match x % 3 {
        0 => OptionExercise::American,
        1 => OptionExercise::Bermudan,
        _ => OptionExercise::European,
    }
}

fn exercise_id(x: OptionExercise) -> u8 {
    match x {
        OptionExercise::American => 0,
        OptionExercise::Bermudan => 1,
        OptionExercise::European => 2,
    }
}

fn to_instrument(d: &Def) -> Instrument<ExchangeId, Asset> {
    let ex = d.exchange;
    let kind = match &d.kind {
        KindDef::Spot => InstrumentKind::Spot,
        KindDef::Perpetual { settle, size } => {
            InstrumentKind::Perpetual(PerpetualContract { contract_size: hundredths(*size), settlement_asset: asset_of(ex, settle) })
        }
        KindDef::Future { settle, size, expiry_day } => InstrumentKind::Future(FutureContract {
            contract_size: hundredths(*size),
            settlement_asset: asset_of(ex, settle),
            expiry: fixtures::t(expiry_day * DAY_MS),
        }),
        KindDef::Option { settle, size, call, exercise, expiry_day, strike } => InstrumentKind::Option(OptionContract {
            contract_size: hundredths(*size),
            settlement_asset: asset_of(ex, settle),
            kind: if *call { OptionKind::Call } else { OptionKind::Put },
            exercise: exercise_of(*exercise),
            expiry: fixtures::t(expiry_day * DAY_MS),
            strike: hundredths(*strike),
        }),
    };
    let spec = d.spec.as_ref().map(|s| InstrumentSpec {
        price: InstrumentSpecPrice { min: hundredths(s.price_min), tick_size: hundredths(s.tick) },
        quantity: InstrumentSpecQuantity {
            unit: match &s.unit {
                UnitDef::Asset(a) => OrderQuantityUnits::Asset(asset_of(ex, a)),
                UnitDef::Contract => OrderQuantityUnits::Contract,
                UnitDef::Quote => OrderQuantityUnits::Quote,
            },
            min: hundredths(s.qty_min),
            increment: hundredths(s.qty_inc),
        },
        notional: InstrumentSpecNotional { min: hundredths(s.notional_min) },
    });
    Instrument::new(
        ex,
        d.name_internal.as_str(),
        d.name_exchange.as_str(),
        Underlying::new(asset_of(ex, &d.base), asset_of(ex, &d.quote)),
        if d.quote_in_base { InstrumentQuoteAsset::UnderlyingBase } else { InstrumentQuoteAsset::UnderlyingQuote },
        kind,
        spec,
    )
}

// ------------------------------------------------------------------------------------------------
// Independent model: plain sets of what the definitions mention

struct Model {
    exchanges: BTreeSet<ExchangeId>,
    assets: BTreeSet<(ExchangeId, String)>,
    instruments: BTreeSet<Def>,
    by_name: BTreeMap<String, Def>,
    /// exchanges all of whose definitions are spot
    spot_only: BTreeSet<ExchangeId>,
}

impl Model {
    fn of(defs: &[Def]) -> Model {
        let mut m = Model {
            exchanges: BTreeSet::new(),
            assets: BTreeSet::new(),
            instruments: BTreeSet::new(),
            by_name: BTreeMap::new(),
            spot_only: BTreeSet::new(),
        };
        let mut non_spot = BTreeSet::new();
        for d in defs {
            m.exchanges.insert(d.exchange);
            m.assets.insert((d.exchange, d.base.clone()));
            m.assets.insert((d.exchange, d.quote.clone()));
            if let Some(s) = d.kind.settle() {
                m.assets.insert((d.exchange, s.to_string()));
                non_spot.insert(d.exchange);
            }
            if let Some(SpecDef { unit: UnitDef::Asset(a), .. }) = &d.spec {
                m.assets.insert((d.exchange, a.clone()));
            }
            m.instruments.insert(d.clone());
            m.by_name.insert(d.name_internal.clone(), d.clone());
        }
        m.spot_only = m.exchanges.iter().filter(|e| !non_spot.contains(e)).copied().collect();
        m
    }
}

/// Is the collection inside the documented domain? (guards replayed / shrunk input)
fn well_formed(defs: &[Def]) -> Result<(), String> {
    let mut by_int: BTreeMap<&str, &Def> = BTreeMap::new();
    // a venue symbol is unique on ITS exchange; sibling venues list the same symbols
    let mut by_exch: BTreeMap<(ExchangeId, &str), &Def> = BTreeMap::new();
    if defs.is_empty() {
        return Err("empty collection".into());
    }
    for d in defs {
        if d.base == d.quote {
            return Err(format!("base == quote in {}", d.name_internal));
        }
        if d.name_internal != d.name_internal.to_lowercase() {
            return Err(format!("internal name not lowercase: {}", d.name_internal));
        }
        for a in [Some(d.base.as_str()), Some(d.quote.as_str()), d.kind.settle()].into_iter().flatten() {
            if a != a.to_lowercase() {
                return Err(format!("asset internal name not lowercase: {a}"));
            }
        }
        if let Some(prev) = by_int.insert(&d.name_internal, d) {
            if prev != d {
                return Err(format!("internal name {} used by two different definitions", d.name_internal));
            }
        }
        if let Some(prev) = by_exch.insert((d.exchange, d.name_exchange.as_str()), d) {
            if prev != d {
                return Err(format!("exchange name {} used by two different definitions on {:?}", d.name_exchange, d.exchange));
            }
        }
    }
    Ok(())
}

type Fail = (&'static str, String);

#[derive(Default)]
struct Obs {
    cells: Vec<&'static str>,
    checks: u64,
    events: u64,
    link_checked: u64,
    link_skipped: u64,
}

type Indexed = Instrument<Keyed<ExchangeIndex, ExchangeId>, AssetIndex>;

/// Read an indexed instrument back into a definition, resolving every reference through the
/// public lookups of `ii`.
fn recover(ii: &IndexedInstruments, x: &Indexed, obs: &mut Obs) -> Result<Def, Fail> {
    let ex = x.exchange.value;
    obs.events += 1;
    match ii.find_exchange(x.exchange.key) {
        Ok(e) if e == ex => {}
        other => {
            return Err((
                "instrument_exchange_ref_wrong",
                format!("instrument {} carries exchange ({:?}, {ex}) but find_exchange({:?}) = {other:?}", x.name_internal, x.exchange.key, x.exchange.key),
            ));
        }
    }
    let mut lookups = 0u64;
    let mut asset_name = |role: &str, idx: AssetIndex| -> Result<String, Fail> {
        lookups += 1;
        match ii.find_asset(idx) {
            Ok(ea) => {
                if ea.exchange != ex {
                    return Err((
                        "instrument_asset_ref_wrong",
                        format!("instrument {} on {ex}: {role} {idx} resolves to an asset of exchange {} ({})", x.name_internal, ea.exchange, ea.asset.name_internal),
                    ));
                }
                Ok(ea.asset.name_internal.name().to_string())
            }
            Err(e) => Err(("instrument_asset_ref_unresolvable", format!("instrument {} on {ex}: {role} {idx} -> {e:?}", x.name_internal))),
        }
    };
    let base = asset_name("underlying.base", x.underlying.base)?;
    let quote = asset_name("underlying.quote", x.underlying.quote)?;
    let kind = match &x.kind {
        InstrumentKind::Spot => KindDef::Spot,
        InstrumentKind::Perpetual(c) => {
            KindDef::Perpetual { settle: asset_name("settlement", c.settlement_asset)?, size: to_hundredths(c.contract_size) }
        }
        InstrumentKind::Future(c) => KindDef::Future {
            settle: asset_name("settlement", c.settlement_asset)?,
            size: to_hundredths(c.contract_size),
            expiry_day: fixtures::ms_of(c.expiry) / DAY_MS,
        },
        InstrumentKind::Option(c) => KindDef::Option {
            settle: asset_name("settlement", c.settlement_asset)?,
            size: to_hundredths(c.contract_size),
            call: c.kind == OptionKind::Call,
            exercise: exercise_id(c.exercise),
            expiry_day: fixtures::ms_of(c.expiry) / DAY_MS,
            strike: to_hundredths(c.strike),
        },
    };
    let spec = match &x.spec {
        None => None,
        Some(s) => Some(SpecDef {
            unit: match s.quantity.unit {
                OrderQuantityUnits::Asset(idx) => UnitDef::Asset(asset_name("quantity unit", idx)?),
                OrderQuantityUnits::Contract => UnitDef::Contract,
                OrderQuantityUnits::Quote => UnitDef::Quote,
            },
            price_min: to_hundredths(s.price.min),
            tick: to_hundredths(s.price.tick_size),
            qty_min: to_hundredths(s.quantity.min),
            qty_inc: to_hundredths(s.quantity.increment),
            notional_min: to_hundredths(s.notional.min),
        }),
    };
    obs.events += lookups;
    Ok(Def {
        exchange: ex,
        name_internal: x.name_internal.name().to_string(),
        name_exchange: x.name_exchange.name().to_string(),
        base,
        quote,
        quote_in_base: x.quote == InstrumentQuoteAsset::UnderlyingBase,
        kind,
        spec,
        // not recoverable from the index; compared nowhere (see `same_definition`)
        default_named: false,
    })
}

/// Full judgement of one `IndexedInstruments` against the set model.
fn check_indexed(ii: &IndexedInstruments, m: &Model, light: bool, rng: &mut Rng, obs: &mut Obs) -> Result<(), Fail> {
    let (ne, na, ni) = (ii.exchanges().len(), ii.assets().len(), ii.instruments().len());
    obs.events += 3;

    // ---- counts
    obs.checks += 3;
    if ne != m.exchanges.len() {
        return Err(("exchange_count_mismatch", format!("{} distinct exchanges defined, {ne} indexed: {:?}", m.exchanges.len(), ii.exchanges())));
    }
    if na != m.assets.len() {
        return Err((
            "asset_count_mismatch",
            format!("{} distinct (exchange, asset) defined, {na} indexed: {:?}", m.assets.len(), ii.assets().iter().map(|a| (a.key.0, a.value.exchange, a.value.asset.name_internal.name().to_string())).collect::<Vec<_>>()),
        ));
    }
    if ni != m.instruments.len() {
        return Err((
            "instrument_count_mismatch",
            format!("{} distinct instruments defined, {ni} indexed: {:?}", m.instruments.len(), ii.instruments().iter().map(|i| (i.key.0, i.value.name_internal.name().to_string())).collect::<Vec<_>>()),
        ));
    }

    // ---- exchanges: key == position, set equality, inverse lookups
    let mut seen_e = BTreeSet::new();
    for (i, k) in ii.exchanges().iter().enumerate() {
        obs.checks += 4;
        obs.events += 3;
        if k.key != ExchangeIndex(i) {
            return Err(("index_not_position", format!("exchanges()[{i}] carries key {:?}", k.key)));
        }
        if !m.exchanges.contains(&k.value) {
            return Err(("exchange_set_mismatch", format!("exchanges()[{i}] = {} was never defined", k.value)));
        }
        if !seen_e.insert(k.value) {
            return Err(("entity_indexed_twice", format!("exchange {} occupies two slots: {:?}", k.value, ii.exchanges())));
        }
        match ii.find_exchange(ExchangeIndex(i)) {
            Ok(e) if e == k.value => {}
            other => return Err(("lookup_not_inverse", format!("find_exchange({i}) = {other:?}, slot holds {}", k.value))),
        }
        match ii.find_exchange_index(k.value) {
            Ok(ix) if ix == ExchangeIndex(i) => {}
            other => return Err(("lookup_not_inverse", format!("find_exchange_index({}) = {other:?}, expected index {i}", k.value))),
        }
    }
    for e in &m.exchanges {
        obs.checks += 1;
        obs.events += 1;
        match ii.find_exchange_index(*e) {
            Ok(ix) if ii.exchanges().get(ix.0).map(|k| k.value) == Some(*e) => {}
            other => return Err(("lookup_not_inverse", format!("defined exchange {e}: find_exchange_index = {other:?}"))),
        }
    }

    // ---- assets
    let mut seen_a = BTreeSet::new();
    for (i, k) in ii.assets().iter().enumerate() {
        obs.checks += 5;
        obs.events += 3;
        let key = (k.value.exchange, k.value.asset.name_internal.name().to_string());
        if k.key != AssetIndex(i) {
            return Err(("index_not_position", format!("assets()[{i}] carries key {:?}", k.key)));
        }
        if !m.assets.contains(&key) {
            return Err(("asset_set_mismatch", format!("assets()[{i}] = {key:?} was never defined")));
        }
        if k.value.asset.name_exchange.name().as_str() != exch_asset_name(key.0, &key.1) {
            return Err(("asset_exchange_name_wrong", format!("assets()[{i}] = {key:?} has exchange name {} (defined {})", k.value.asset.name_exchange, exch_asset_name(key.0, &key.1))));
        }
        if !seen_a.insert(key.clone()) {
            return Err(("entity_indexed_twice", format!("exchange-asset {key:?} occupies two slots")));
        }
        match ii.find_asset(AssetIndex(i)) {
            Ok(a) if *a == k.value => {}
            other => return Err(("lookup_not_inverse", format!("find_asset({i}) = {other:?}, slot holds {key:?}"))),
        }
        match ii.find_asset_index(key.0, &AssetNameInternal::new(key.1.as_str())) {
            Ok(ix) if ix == AssetIndex(i) => {}
            other => return Err(("lookup_not_inverse", format!("find_asset_index{key:?} = {other:?}, expected index {i}"))),
        }
    }
    for (e, n) in &m.assets {
        obs.checks += 1;
        obs.events += 1;
        match ii.find_asset_index(*e, &AssetNameInternal::new(n.as_str())) {
            Ok(ix)
                if ii.assets().get(ix.0).map(|k| (k.value.exchange, k.value.asset.name_internal.name().as_str() == n.as_str()))
                    == Some((*e, true)) => {}
            other => return Err(("lookup_not_inverse", format!("defined asset ({e}, {n}): find_asset_index = {other:?}"))),
        }
    }

    // ---- instruments: key == position, read-back equals the definition, inverse lookups
    let mut seen_i = BTreeSet::new();
    for (i, k) in ii.instruments().iter().enumerate() {
        obs.checks += 6;
        obs.events += 3;
        if k.key != InstrumentIndex(i) {
            return Err(("index_not_position", format!("instruments()[{i}] carries key {:?}", k.key)));
        }
        let got = recover(ii, &k.value, obs)?;
        let Some(want) = m.by_name.get(&got.name_internal) else {
            return Err(("instrument_set_mismatch", format!("instruments()[{i}] = {} was never defined", got.name_internal)));
        };
        if got.exchange != want.exchange {
            return Err(("instrument_exchange_ref_wrong", format!("instrument {} defined on {} but indexed with exchange {}", want.name_internal, want.exchange, got.exchange)));
        }
        let unit = |d: &Def| match &d.spec {
            Some(SpecDef { unit: UnitDef::Asset(a), .. }) => Some(a.clone()),
            _ => None,
        };
        if got.base != want.base || got.quote != want.quote || got.kind.settle() != want.kind.settle() || unit(&got) != unit(want) {
            return Err((
                "instrument_asset_ref_wrong",
                format!(
                    "instrument {} on {}: defined (base {}, quote {}, settle {:?}, unit {:?}) but indices resolve to (base {}, quote {}, settle {:?}, unit {:?})",
                    want.name_internal, want.exchange, want.base, want.quote, want.kind.settle(), unit(want), got.base, got.quote, got.kind.settle(), unit(&got)
                ),
            ));
        }
        let got = Def { default_named: want.default_named, ..got };
        if got != *want {
            return Err(("instrument_definition_changed", format!("defined {want:?} read back {got:?}")));
        }
        if !seen_i.insert(got.name_internal.clone()) {
            return Err(("entity_indexed_twice", format!("instrument {} occupies two slots", got.name_internal)));
        }
        match ii.find_instrument(InstrumentIndex(i)) {
            Ok(x) if *x == k.value => {}
            other => return Err(("lookup_not_inverse", format!("find_instrument({i}) = {other:?}, slot holds {}", got.name_internal))),
        }
        match ii.find_instrument_index(got.exchange, &InstrumentNameInternal::new(got.name_internal.as_str())) {
            Ok(ix) if ix == InstrumentIndex(i) => {}
            other => return Err(("lookup_not_inverse", format!("find_instrument_index({}, {}) = {other:?}, expected index {i}", got.exchange, got.name_internal))),
        }
    }
    // counts equal + no slot duplicates + every slot defined  =>  bijection with the model sets

    // ---- failing lookups
    obs.checks += 1;
    let unknown_exchange = POOL.iter().copied().chain([ExchangeId::Other, ExchangeId::Simulated]).find(|e| !m.exchanges.contains(e));
    if let Some(ue) = unknown_exchange {
        obs.events += 3;
        obs.cells.push("lookup:unknown_name");
        if let Ok(ix) = ii.find_exchange_index(ue) {
            return Err(("unknown_lookup_succeeded", format!("find_exchange_index({ue}) = {ix:?} but {ue} was never defined")));
        }
        let (_, n) = m.assets.iter().nth(rng.usize_below(m.assets.len())).expect("non-empty");
        if let Ok(ix) = ii.find_asset_index(ue, &AssetNameInternal::new(n.as_str())) {
            return Err(("unknown_lookup_succeeded", format!("find_asset_index({ue}, {n}) = {ix:?} but {ue} was never defined")));
        }
        let d = m.instruments.iter().nth(rng.usize_below(m.instruments.len())).expect("non-empty");
        if let Ok(ix) = ii.find_instrument_index(ue, &InstrumentNameInternal::new(d.name_internal.as_str())) {
            return Err(("unknown_lookup_succeeded", format!("find_instrument_index({ue}, {}) = {ix:?} but {ue} was never defined", d.name_internal)));
        }
    }
    for e in &m.exchanges {
        // asset names NOT defined on e (some are defined on other exchanges)
        let mut probed = 0;
        for n in ASSETS.iter().copied().chain(["zzz-never"]) {
            if m.assets.contains(&(*e, n.to_string())) || (light && probed >= 3) {
                continue;
            }
            probed += 1;
            obs.events += 1;
            obs.checks += 1;
            if m.assets.iter().any(|(_, x)| x == n) {
                obs.cells.push("lookup:asset_known_on_other_exchange");
            }
            obs.cells.push("lookup:unknown_name");
            if let Ok(ix) = ii.find_asset_index(*e, &AssetNameInternal::new(n)) {
                return Err(("unknown_lookup_succeeded", format!("find_asset_index({e}, {n}) = {ix:?} but ({e}, {n}) was never defined; slot holds {:?}", ii.assets().get(ix.0))));
            }
        }
        // instruments of other exchanges looked up under e
        for d in m.instruments.iter().filter(|d| d.exchange != *e).take(3) {
            obs.events += 1;
            obs.checks += 1;
            obs.cells.push("lookup:instrument_known_on_other_exchange");
            if let Ok(ix) = ii.find_instrument_index(*e, &InstrumentNameInternal::new(d.name_internal.as_str())) {
                return Err(("unknown_lookup_succeeded", format!("find_instrument_index({e}, {}) = {ix:?} but that instrument is defined on {}", d.name_internal, d.exchange)));
            }
        }
        obs.events += 1;
        if let Ok(ix) = ii.find_instrument_index(*e, &InstrumentNameInternal::new("never-defined")) {
            return Err(("unknown_lookup_succeeded", format!("find_instrument_index({e}, never-defined) = {ix:?}")));
        }
    }
    obs.checks += 1;
    obs.cells.push("lookup:index_out_of_range");
    for extra in [0usize, 1, rng.range_u(2, 1000), usize::MAX - ne.max(na).max(ni)] {
        obs.events += 3;
        if let Ok(x) = ii.find_exchange(ExchangeIndex(ne + extra)) {
            return Err(("out_of_range_lookup_succeeded", format!("find_exchange({}) = {x:?} with {ne} exchanges", ne + extra)));
        }
        if let Ok(x) = ii.find_asset(AssetIndex(na + extra)) {
            return Err(("out_of_range_lookup_succeeded", format!("find_asset({}) = {x:?} with {na} assets", na + extra)));
        }
        if let Ok(x) = ii.find_instrument(InstrumentIndex(ni + extra)) {
            return Err(("out_of_range_lookup_succeeded", format!("find_instrument({}) = {:?} with {ni} instruments", ni + extra, x.name_internal)));
        }
    }
    Ok(())
}

// ------------------------------------------------------------------------------------------------
// Derived tables: EngineState

fn check_engine(ii: &IndexedInstruments, m: &Model, balance_seed: u64, obs: &mut Obs) -> Result<(), Fail> {
    let mut rng = Rng::new(balance_seed);
    // seed balances on a random subset of the defined (exchange, asset) pairs, in random order
    let mut seeded: Vec<(ExchangeId, String, Balance)> = Vec::new();
    for (n, (e, a)) in m.assets.iter().enumerate() {
        if rng.chance(1, 3) {
            let total = Decimal::new(1000 + n as i64 * 7 + rng.range(0, 5), 1);
            seeded.push((*e, a.clone(), Balance::new(total, total - Decimal::ONE)));
        }
    }
    rng.shuffle(&mut seeded);
    if !seeded.is_empty() {
        obs.cells.push("engine:balances_seeded");
    }
    let want_balance: BTreeMap<(ExchangeId, String), Balance> = seeded.iter().map(|(e, a, b)| ((*e, a.clone()), *b)).collect();
    let t_start = fixtures::t(12_345);

    let mut state = EngineState::builder(ii, DefaultGlobalData, DefaultInstrumentMarketData::default)
        .time_engine_start(t_start)
        .balances(seeded.iter().map(|(e, a, b)| (*e, a.as_str(), *b)))
        .build();
    obs.events += 1;

    // ---- instruments
    obs.checks += 1;
    if state.instruments.0.len() != ii.instruments().len() {
        return Err(("engine_instrument_state_count_mismatch", format!("{} instrument states for {} indexed instruments", state.instruments.0.len(), ii.instruments().len())));
    }
    for (i, k) in ii.instruments().iter().enumerate() {
        obs.checks += 3;
        obs.events += 2;
        let st = state.instruments.instrument_index(&InstrumentIndex(i));
        let want = k.value.clone().map_exchange_key(k.value.exchange.key);
        if st.key != InstrumentIndex(i) || st.instrument != want {
            return Err((
                "engine_instrument_state_misaligned",
                format!(
                    "instrument_index({i}) holds key {:?} / instrument {} (exchange {:?}); index {i} is {} (exchange {:?})",
                    st.key, st.instrument.name_internal, st.instrument.exchange, k.value.name_internal, k.value.exchange.key
                ),
            ));
        }
        let by_name = state.instruments.instrument(&k.value.name_internal);
        if !std::ptr::eq(st, by_name) {
            return Err((
                "engine_instrument_name_and_index_disagree",
                format!("instrument({}) is the entry with key {:?}, instrument_index({i}) has key {:?}", k.value.name_internal, by_name.key, st.key),
            ));
        }
        match state.instruments.0.get_index(i) {
            Some((name, _)) if *name == k.value.name_internal => {}
            other => return Err(("engine_instrument_state_misaligned", format!("InstrumentStates slot {i} keyed {:?}, index {i} is {}", other.map(|(n, _)| n), k.value.name_internal))),
        }
    }

    // ---- assets (+ seeded balances)
    obs.checks += 1;
    if state.assets.0.len() != ii.assets().len() {
        return Err(("engine_asset_state_count_mismatch", format!("{} asset states for {} indexed assets", state.assets.0.len(), ii.assets().len())));
    }
    for (i, k) in ii.assets().iter().enumerate() {
        obs.checks += 4;
        obs.events += 2;
        let st = state.assets.asset_index(&AssetIndex(i));
        if st.asset != k.value.asset {
            return Err(("engine_asset_state_misaligned", format!("asset_index({i}) holds {:?}; index {i} is ({}, {:?})", st.asset, k.value.exchange, k.value.asset)));
        }
        let key = ExchangeAsset { exchange: k.value.exchange, asset: k.value.asset.name_internal.clone() };
        match state.assets.0.get_index(i) {
            Some((slot_key, _)) if *slot_key == key => {}
            other => return Err(("engine_asset_state_misaligned", format!("AssetStates slot {i} keyed {:?}, index {i} is {key:?}", other.map(|(k, _)| k)))),
        }
        let by_name = state.assets.asset(&key);
        if !std::ptr::eq(st, by_name) {
            return Err(("engine_asset_name_and_index_disagree", format!("asset({key:?}) = {:?} is not the entry at index {i} ({:?})", by_name.asset, st.asset)));
        }
        let want = want_balance.get(&(k.value.exchange, k.value.asset.name_internal.name().to_string()));
        let got = st.balance.as_ref().map(|b| (b.value, b.time));
        if got != want.map(|b| (*b, t_start)) {
            return Err((
                "engine_seeded_balance_on_wrong_asset",
                format!("asset index {i} ({}, {}): seeded {want:?}, state holds {got:?}", k.value.exchange, k.value.asset.name_internal),
            ));
        }
    }

    // ---- connectivity
    obs.checks += 1;
    if state.connectivity.exchanges.len() != ii.exchanges().len() {
        return Err(("engine_connectivity_count_mismatch", format!("{} connectivity states for {} exchanges", state.connectivity.exchanges.len(), ii.exchanges().len())));
    }
    for (i, k) in ii.exchanges().iter().enumerate() {
        obs.checks += 3;
        obs.events += 4;
        match state.connectivity.exchanges.get_index(i) {
            Some((id, _)) if *id == k.value => {}
            other => return Err(("engine_connectivity_misaligned", format!("connectivity slot {i} keyed {:?}, index {i} is {}", other.map(|(id, _)| id), k.value))),
        }
        if !std::ptr::eq(state.connectivity.connectivity_index(&ExchangeIndex(i)), state.connectivity.connectivity(&k.value)) {
            return Err(("engine_connectivity_id_and_index_disagree", format!("connectivity_index({i}) and connectivity({}) are different entries", k.value)));
        }
        // write through the index, read through the id (and the other way round)
        state.connectivity.connectivity_index_mut(&ExchangeIndex(i)).account = Health::Healthy;
        state.connectivity.connectivity_mut(&k.value).market_data = Health::Healthy;
        for (j, kj) in ii.exchanges().iter().enumerate() {
            let by_id = state.connectivity.connectivity(&kj.value).clone();
            let by_ix = state.connectivity.connectivity_index(&ExchangeIndex(j)).clone();
            let want = if i == j { Health::Healthy } else { Health::Reconnecting };
            if by_id.account != want || by_ix.market_data != want || by_id != by_ix {
                return Err((
                    "engine_connectivity_id_and_index_disagree",
                    format!("after marking exchange index {i} ({}) healthy via index(account)/id(market): exchange {j} ({}) by id {by_id:?}, by index {by_ix:?}", k.value, kj.value),
                ));
            }
        }
        state.connectivity.connectivity_index_mut(&ExchangeIndex(i)).market_data = Health::Reconnecting;
        state.connectivity.connectivity_mut(&k.value).account = Health::Reconnecting;
    }
    Ok(())
}

// ------------------------------------------------------------------------------------------------
// Derived tables: execution links

fn check_exec(ii: &IndexedInstruments, m: &Model, exec_seed: u64, obs: &mut Obs) -> Result<(), Fail> {
    let mut rng = Rng::new(exec_seed);
    let mut added: Vec<ExchangeId> = m.spot_only.iter().copied().filter(|_| rng.chance(3, 4)).collect();
    rng.shuffle(&mut added);
    let index_of = |e: ExchangeId| ii.exchanges().iter().position(|k| k.value == e);
    let add_positions: Vec<usize> = added.iter().filter_map(|e| index_of(*e)).collect();
    if add_positions.windows(2).any(|w| w[0] > w[1]) {
        obs.cells.push("exec:mocks_non_index_order");
    }

    let clock = TestClock::new(fixtures::t0());
    let mut builder = ExecutionBuilder::new(ii);
    for e in &added {
        obs.events += 1;
        let config = MockExecutionConfig {
            mocked_exchange: *e,
            initial_state: AccountSnapshot { exchange: *e, balances: vec![], instruments: vec![] },
            latency_ms: 0,
            fees_percent: Decimal::ZERO,
        };
        builder = match builder.add_mock(config, clock.clone()) {
            Ok(b) => b,
            Err(err) => return Err(("execution_add_mock_failed", format!("add_mock({e}) on a spot-only indexed exchange failed: {err:?}"))),
        };
    }
    let ExecutionBuild { execution_tx_map, account_channel: _account_channel, futures } = builder.build();
    obs.events += 1;
    let ExecutionBuildFutures { mock_exchange_run_futures: _mock_futures, execution_init_futures } = futures;

    // ---- the table
    let table: Vec<(ExchangeId, bool)> = (&execution_tx_map).into_iter().map(|(e, tx)| (*e, tx.is_some())).collect();
    obs.checks += 1;
    if table.len() != ii.exchanges().len() {
        return Err(("execution_table_size_mismatch", format!("{} table entries for {} exchanges: {table:?}", table.len(), ii.exchanges().len())));
    }
    for (i, k) in ii.exchanges().iter().enumerate() {
        obs.checks += 3;
        obs.events += 2;
        let (e, has_tx) = table[i];
        let want_tx = added.contains(&k.value);
        if e != k.value {
            return Err(("execution_table_misaligned", format!("table position {i} is for {e}, exchange index {i} is {}; mocks added in order {added:?}; table {table:?}", k.value)));
        }
        if has_tx != want_tx {
            return Err(("execution_table_link_presence_wrong", format!("exchange index {i} ({e}): transmitter present = {has_tx}, mock added = {want_tx}; added {added:?}; table {table:?}")));
        }
        obs.cells.push(if has_tx { "exec:some_entry" } else { "exec:none_entry" });
        let found = execution_tx_map.find(&ExchangeIndex(i));
        if found.is_ok() != want_tx {
            return Err(("execution_find_presence_wrong", format!("find(ExchangeIndex({i})) ok = {}, mock added for {e} = {want_tx}", found.is_ok())));
        }
        if let (Ok(f), Some((_, Some(t)))) = (found, (&execution_tx_map).into_iter().nth(i)) {
            if !std::ptr::eq(f, t) {
                return Err(("execution_find_presence_wrong", format!("find(ExchangeIndex({i})) returned another transmitter than table position {i}")));
            }
        }
    }
    obs.checks += 2;
    obs.events += 2;
    if execution_tx_map.find(&ExchangeIndex(table.len())).is_ok() {
        return Err(("out_of_range_lookup_succeeded", format!("ExecutionTxMap::find(ExchangeIndex({})) succeeded with {} exchanges", table.len(), table.len())));
    }
    if ExecutionTxMap::iter(&execution_tx_map).count() != added.len() {
        return Err(("execution_table_link_presence_wrong", format!("ExecutionTxMap::iter yields {} transmitters, {} mocks added", ExecutionTxMap::iter(&execution_tx_map).count(), added.len())));
    }

    // ---- the per-exchange translation table every execution link is built around holds, under each of the
    // exchange's OWN engine indices, the entity with that index (and nothing under foreign indices)
    for k in ii.exchanges().iter() {
        let Ok(map) = barter_execution::map::generate_execution_instrument_map(ii, k.value) else {
            obs.link_skipped += 1;
            continue;
        };
        for inst in ii.instruments().iter() {
            obs.checks += 1;
            obs.events += 1;
            let own = inst.value.exchange.value == k.value;
            let by_index = map.find_instrument_name_exchange(inst.key);
            if own {
                if by_index.ok() != Some(&inst.value.name_exchange) || map.find_instrument_index(&inst.value.name_exchange).ok() != Some(inst.key) {
                    return Err(("execution_instrument_map_misaligned", format!("link table of {}: instrument {} ({}) resolves by index to {:?} and by name to {:?}", k.value, inst.key, inst.value.name_exchange, map.find_instrument_name_exchange(inst.key).ok(), map.find_instrument_index(&inst.value.name_exchange).ok())));
                }
            } else if let Ok(name) = by_index {
                return Err(("execution_instrument_map_misaligned", format!("link table of {}: foreign instrument {} (of {}) resolves to {name}", k.value, inst.key, inst.value.exchange.value)));
            }
        }
        for a in ii.assets().iter() {
            obs.checks += 1;
            obs.events += 1;
            let own = a.value.exchange == k.value;
            let by_index = map.find_asset_name_exchange(a.key);
            if own {
                if by_index.ok() != Some(&a.value.asset.name_exchange) || map.find_asset_index(&a.value.asset.name_exchange).ok() != Some(a.key) {
                    return Err(("execution_instrument_map_misaligned", format!("link table of {}: asset {} ({}) resolves by index to {:?} and by name to {:?}", k.value, a.key, a.value.asset.name_exchange, map.find_asset_name_exchange(a.key).ok(), map.find_asset_index(&a.value.asset.name_exchange).ok())));
                }
            } else if let Ok(name) = by_index {
                return Err(("execution_instrument_map_misaligned", format!("link table of {}: foreign asset {} (of {}) resolves to {name}", k.value, a.key, a.value.exchange)));
            }
        }
        obs.cells.push("exec:instrument_map_of_each_exchange");
    }

    // ---- every transmitter is wired to the receiver created by its own exchange's add_mock.
    // The receiver lives inside the (never polled) init future registered by that add_mock call;
    // dropping the k-th future must close exactly the transmitter of the k-th added exchange.
    if execution_init_futures.len() != added.len() {
        obs.link_skipped += 1;
        return Ok(());
    }
    let mut futs: VecDeque<_> = execution_init_futures.into();
    let mut dropped: BTreeSet<ExchangeId> = BTreeSet::new();
    for step in 0..=added.len() {
        if step > 0 {
            drop(futs.pop_front());
            dropped.insert(added[step - 1]);
        }
        for (i, (e, tx)) in (&execution_tx_map).into_iter().enumerate() {
            let Some(tx) = tx else { continue };
            obs.checks += 1;
            obs.events += 1;
            let closed = tx.send(ExecutionRequest::Shutdown).is_err();
            let want = dropped.contains(e);
            if closed != want {
                return Err((
                    "execution_tx_linked_to_other_exchange",
                    format!(
                        "mocks added in order {added:?}; after dropping the links of {dropped:?} the transmitter at index {i} ({e}) is {} (expected {})",
                        if closed { "closed" } else { "open" },
                        if want { "closed" } else { "open" }
                    ),
                ));
            }
        }
    }
    if !added.is_empty() {
        obs.link_checked += 1;
        obs.cells.push("exec:link_drop_check");
    }
    Ok(())
}

// ------------------------------------------------------------------------------------------------
// One case under the monitor

/// Every second definition (by position in the insertion order) is not built in code but LOADED: the same
/// definition as JSON (as a configuration file would carry it) with every internal name spelled in upper
/// case - internal names are documented to be lower-cased on construction, so it is the same definition.
fn to_instrument_at(d: &Def, pos: usize) -> Instrument<ExchangeId, Asset> {
    let ins = to_instrument(d);
    if pos % 2 == 0 {
        return ins;
    }
    fn upper(v: &mut serde_json::Value) {
        match v {
            serde_json::Value::Object(m) => {
                for (k, x) in m.iter_mut() {
                    if k == "name_internal" {
                        if let serde_json::Value::String(s) = x {
                            *s = s.to_uppercase();
                        }
                    } else {
                        upper(x);
                    }
                }
            }
            serde_json::Value::Array(a) => a.iter_mut().for_each(upper),
            _ => {}
        }
    }
    let mut v = serde_json::to_value(&ins).unwrap_or_else(|e| panic!("instrument definition does not serialise: {e}"));
    upper(&mut v);
    serde_json::from_value(v).unwrap_or_else(|e| panic!("instrument definition does not load from its own JSON: {e}"))
}

fn build_new(defs: &[Def], order: &[usize]) -> Result<IndexedInstruments, String> {
    catch(|| IndexedInstruments::new(order.iter().enumerate().map(|(pos, &i)| to_instrument_at(&defs[i], pos))))
}

fn build_builder(defs: &[Def], order: &[usize]) -> Result<IndexedInstruments, String> {
    catch(|| order.iter().enumerate().fold(IndexedInstruments::builder(), |b, (pos, &i)| b.add_instrument(to_instrument_at(&defs[i], pos))).build())
}

fn case_cells(case: &Case, m: &Model, obs: &mut Obs) {
    if m.exchanges.len() >= 2 {
        obs.cells.push("exchanges>=2");
    }
    let mut names: BTreeMap<&str, usize> = BTreeMap::new();
    for (_, n) in &m.assets {
        *names.entry(n.as_str()).or_default() += 1;
    }
    if names.values().any(|c| *c >= 2) {
        obs.cells.push("shared_asset_name_across_exchanges");
    }
    if m.instruments.len() < case.defs.len() {
        obs.cells.push("exact_duplicate_definition");
    }
    let mut underlying: BTreeSet<(ExchangeId, &str)> = BTreeSet::new();
    let mut settle: BTreeSet<(ExchangeId, &str)> = BTreeSet::new();
    let mut unit: BTreeSet<(ExchangeId, &str)> = BTreeSet::new();
    for d in &case.defs {
        obs.cells.push(d.kind.cell());
        underlying.insert((d.exchange, &d.base));
        underlying.insert((d.exchange, &d.quote));
        if let Some(s) = d.kind.settle() {
            settle.insert((d.exchange, s));
        }
        if let Some(SpecDef { unit: UnitDef::Asset(a), .. }) = &d.spec {
            unit.insert((d.exchange, a));
            obs.cells.push("quantity_unit_asset");
        }
    }
    if settle.iter().any(|k| !underlying.contains(k) && !unit.contains(k)) {
        obs.cells.push("settlement_only_asset");
    }
    if unit.iter().any(|k| !underlying.contains(k) && !settle.contains(k)) {
        obs.cells.push("quantity_unit_only_asset");
    }
    if !m.spot_only.is_empty() {
        obs.cells.push("spot_only_exchange");
    }
}

/// CONFIG route: the same definitions given as `InstrumentConfig`s (how `SystemConfig` and files supply them; the
/// internal name is then derived by the library from exchange + underlying) and indexed with
/// `IndexedInstruments::new(configs)`. Judged structurally: one index per distinct config, index == position, and
/// for every instrument whose (exchange, base, quote) is unique in the collection, name -> index is the inverse
/// of index -> name.
fn config_route(case: &Case, obs: &mut Obs) -> Result<(), Fail> {
    use barter::system::config::InstrumentConfig;
    use barter_instrument::{Underlying, asset::name::AssetNameExchange, instrument::{kind::InstrumentKind, name::InstrumentNameExchange, quote::InstrumentQuoteAsset}};
    let configs: Vec<InstrumentConfig> = case
        .defs
        .iter()
        .map(|d| InstrumentConfig {
            exchange: d.exchange,
            name_exchange: InstrumentNameExchange::from(d.name_exchange.as_str()),
            underlying: Underlying { base: AssetNameExchange::from(d.base.as_str()), quote: AssetNameExchange::from(d.quote.as_str()) },
            quote: InstrumentQuoteAsset::UnderlyingQuote,
            kind: InstrumentKind::Spot,
            spec: None,
        })
        .collect();
    let distinct: BTreeSet<&InstrumentConfig> = configs.iter().collect();
    let key = |c: &InstrumentConfig| (c.exchange, c.underlying.base.name().to_lowercase(), c.underlying.quote.name().to_lowercase());
    let mut per_key: BTreeMap<(ExchangeId, String, String), usize> = BTreeMap::new();
    for c in &distinct {
        *per_key.entry(key(c)).or_default() += 1;
    }
    obs.checks += 1;
    obs.events += 1;
    let built = catch(|| IndexedInstruments::new(configs.clone())).map_err(|p| ("panic_in_index_build", format!("IndexedInstruments::new(InstrumentConfig..) panicked: {p}")))?;
    if built.instruments().len() != distinct.len() {
        return Err(("instrument_count_mismatch", format!("config route: {} distinct instrument configs, {} indexed", distinct.len(), built.instruments().len())));
    }
    for (pos, k) in built.instruments().iter().enumerate() {
        obs.checks += 1;
        if k.key.index() != pos {
            return Err(("instrument_index_not_position", format!("config route: position {pos} holds {:?}", k.key)));
        }
        let ins = &k.value;
        let asset_name = |a: AssetIndex| built.assets().get(a.index()).map(|x| x.value.asset.name_exchange.name().to_lowercase());
        let cfg_key = match (asset_name(ins.underlying.base), asset_name(ins.underlying.quote)) {
            (Some(b), Some(q)) => Some((ins.exchange.value, b, q)),
            _ => None,
        };
        if let Some(kk) = cfg_key {
            if per_key.get(&kk).copied().unwrap_or(0) == 1 {
                let back = built.find_instrument_index(ins.exchange.value, &ins.name_internal);
                if back.as_ref().ok() != Some(&k.key) {
                    return Err((
                        "instrument_name_lookup_not_inverse_of_index",
                        format!("config route: {:?} = {} on {} (the only instrument of that exchange on {:?}): find_instrument_index(name) = {back:?}", k.key, ins.name_internal, ins.exchange.value, kk),
                    ));
                }
                obs.cells.push("route:instrument_configs");
            }
        }
    }
    Ok(())
}

fn run_case(case: &Case, obs: &mut Obs) -> Result<(), Fail> {
    obs.checks += 1;
    if case.defs.iter().any(|d| d.default_named) {
        obs.cells.push("naming:library_default_internal_names");
    }
    let m = Model::of(&case.defs);
    case_cells(case, &m, obs);
    config_route(case, obs)?;
    let mut rng = Rng::new(case.balance_seed ^ 0x5151);

    let mut first: Option<(IndexedInstruments, String)> = None;
    for (o, order) in case.orders.iter().enumerate() {
        for route in ["new", "builder"] {
            obs.events += 1;
            let built = if route == "new" { build_new(&case.defs, order) } else { build_builder(&case.defs, order) };
            obs.cells.push(if route == "new" { "route:new" } else { "route:builder" });
            let ii = match built {
                Ok(ii) => ii,
                Err(msg) => return Err(("panic_in_index_build", format!("IndexedInstruments ({route}) panicked for insertion order {order:?}: {msg}"))),
            };
            match &first {
                None => {
                    match catch(|| check_indexed(&ii, &m, case.light, &mut rng, obs)) {
                        Ok(r) => r?,
                        Err(msg) => return Err(("panic_in_index_lookup", format!("panic while reading the index built from order {order:?}: {msg}"))),
                    }
                    first = Some((ii, format!("order#{o} {order:?} via {route}")));
                }
                Some((reference, label)) => {
                    obs.checks += 1;
                    if ii != *reference {
                        let what = if ii.exchanges() != reference.exchanges() {
                            format!("exchanges {:?} vs {:?}", reference.exchanges(), ii.exchanges())
                        } else if ii.assets() != reference.assets() {
                            "assets differ".to_string()
                        } else {
                            format!(
                                "instruments {:?} vs {:?}",
                                reference.instruments().iter().map(|i| i.value.name_internal.name().to_string()).collect::<Vec<_>>(),
                                ii.instruments().iter().map(|i| i.value.name_internal.name().to_string()).collect::<Vec<_>>()
                            )
                        };
                        // a different-but-valid result is an order dependence; an invalid one gets
                        // its own (more specific) signature first
                        match catch(|| check_indexed(&ii, &m, case.light, &mut rng, obs)) {
                            Ok(r) => r?,
                            Err(msg) => return Err(("panic_in_index_lookup", format!("panic while reading the index built from order {order:?}: {msg}"))),
                        }
                        return Err(("result_depends_on_insertion_order", format!("{label} and order#{o} {order:?} via {route} give different results: {what}")));
                    }
                }
            }
        }
    }
    let Some((ii, _)) = first else {
        return Ok(());
    };

    // LIFE CYCLE: the collection is `Serialize + Deserialize` (it is configuration and part of persisted state): a copy
    // restored from its own JSON must equal it and resolve every name and index exactly as the original does; so must a
    // clone
    obs.events += 1;
    obs.cells.push("route:restored_from_own_json");
    let text = serde_json::to_string(&ii).map_err(|e| ("collection_changed_by_persisting_and_restoring", format!("does not serialise: {e}")))?;
    let copy: IndexedInstruments = serde_json::from_str(&text).map_err(|e| ("collection_changed_by_persisting_and_restoring", format!("does not load from its own JSON: {e}")))?;
    obs.checks += 1;
    if copy != ii {
        return Err(("collection_changed_by_persisting_and_restoring", "the copy restored from the collection's own JSON differs from it (==)".to_string()));
    }
    for (what, other) in [("the copy restored from its own JSON", &copy), ("a clone", &ii.clone())] {
        match catch(|| check_indexed(other, &m, true, &mut rng, obs)) {
            Ok(r) => r.map_err(|(sig, d)| (sig, format!("on {what}: {d}")))?,
            Err(msg) => return Err(("panic_in_index_lookup", format!("panic while reading {what}: {msg}"))),
        }
    }

    match catch(|| check_engine(&ii, &m, case.balance_seed, obs)) {
        Ok(r) => r?,
        Err(msg) => return Err(("panic_in_engine_state", format!("panic while building / reading EngineState: {msg}"))),
    }
    match catch(|| check_exec(&ii, &m, case.exec_seed, obs)) {
        Ok(r) => r?,
        Err(msg) => return Err(("panic_in_execution_builder", format!("panic while building / reading the execution table: {msg}"))),
    }
    Ok(())
}

/// Keep only the definitions at `kept` (ascending original positions), remapping the orders.
fn project(case: &Case, kept: &[usize]) -> Case {
    let new_pos: BTreeMap<usize, usize> = kept.iter().enumerate().map(|(n, &o)| (o, n)).collect();
    Case {
        defs: kept.iter().map(|&i| case.defs[i].clone()).collect(),
        orders: case.orders.iter().map(|ord| ord.iter().filter_map(|i| new_pos.get(i).copied()).collect()).collect(),
        balance_seed: case.balance_seed,
        exec_seed: case.exec_seed,
        light: case.light,
    }
}

/// default-named instruments of DIFFERENT exchanges are different instruments: their default internal names
/// ("unique across exchanges") must differ, otherwise every table keyed by the internal name merges them
fn default_name_collision(defs: &[Def]) -> Option<String> {
    for (a, da) in defs.iter().enumerate() {
        for db in defs.iter().skip(a + 1) {
            if da.default_named && db.default_named && da.exchange != db.exchange && da.name_internal == db.name_internal {
                return Some(format!("{} on {:?} and {} on {:?} both get the default internal name {:?}", da.name_exchange, da.exchange, db.name_exchange, db.exchange, da.name_internal));
            }
        }
    }
    None
}

fn execute(case: &Case, report: &mut Report, label: &str) {
    if let Some(detail) = default_name_collision(&case.defs) {
        report.case(fnv1a(format!("{:?}", case.defs).as_bytes()), true);
        let small: Vec<Def> = shrink(&case.defs, |cand| default_name_collision(cand).is_some());
        report.violation("distinct_instruments_collapse_under_default_internal_names", default_name_collision(&small).unwrap_or(detail), json!({"source": label, "case": {"defs": small, "orders": [], "balance_seed": 0, "exec_seed": 0}}));
        return;
    }
    if let Err(why) = well_formed(&case.defs) {
        report.harness_errors.push(format!("{label}: case outside the documented domain, not judged: {why}"));
        return;
    }
    let n = case.defs.len();
    if case.orders.iter().any(|o| {
        let mut s = o.clone();
        s.sort_unstable();
        s != (0..n).collect::<Vec<_>>()
    }) {
        report.harness_errors.push(format!("{label}: an insertion order is not a permutation of 0..{n}"));
        return;
    }
    let mut obs = Obs::default();
    let res = run_case(case, &mut obs);
    report.events_observed += obs.events;
    report.oracle_checks += obs.checks;
    for c in &obs.cells {
        report.cover(c);
    }
    report.info("execution_link_checks", obs.link_checked);
    report.info("execution_link_checks_skipped_future_count", obs.link_skipped);

    let m = Model::of(&case.defs);
    let nontrivial = n >= 3
        && m.instruments.len() >= 2
        && (m.exchanges.len() >= 2 || m.instruments.len() < n || case.defs.iter().any(|d| d.kind != KindDef::Spot));
    report.case(fnv1a(format!("{:?}{:?}", case.defs, case.orders).as_bytes()), nontrivial);
    if nontrivial && n >= 5 && n <= 9 {
        report.sample(|| json!({"source": label, "case": case, "exchanges": m.exchanges.len(), "exchange_assets": m.assets.len(), "distinct_instruments": m.instruments.len()}));
    }

    if let Err((sig, detail)) = res {
        let all: Vec<usize> = (0..n).collect();
        let kept = shrink(&all, |cand| {
            if cand.is_empty() {
                return false;
            }
            let mut o = Obs::default();
            matches!(run_case(&project(case, cand), &mut o), Err((s, _)) if s == sig)
        });
        let small = project(case, &kept);
        let mut o = Obs::default();
        let detail_small = match run_case(&small, &mut o) {
            Err((s, d)) if s == sig => d,
            _ => detail,
        };
        report.violation(sig, detail_small, serde_json::to_value(&small).expect("case to json"));
    }
}

// ------------------------------------------------------------------------------------------------
// Generator

fn letters(rng: &mut Rng, n: usize) -> String {
    (0..n).map(|_| (b'a' + rng.below(26) as u8) as char).collect()
}

fn gen_case(rng: &mut Rng, small: bool) -> Case {
    let n_exch = if small { rng.range_u(1, 2) } else { *rng.pick(&[1, 2, 2, 3, 3, 4, 5]) };
    // a third of the cases: venue symbols + the library's default internal names, over a run of NEIGHBOURING
    // exchange ids out of all the library knows (sibling venues of one operator list the same symbols)
    let default_named = rng.chance(1, 3);
    let exchanges: Vec<ExchangeId> = if default_named {
        let start = rng.usize_below(ALL_EXCHANGES.len() - 5);
        let mut run: Vec<ExchangeId> = ALL_EXCHANGES[start..start + 5].to_vec();
        run.dedup();
        rng.shuffle(&mut run);
        run.truncate(n_exch.max(2).min(run.len()));
        run
    } else {
        let mut pool = POOL.to_vec();
        rng.shuffle(&mut pool);
        pool[..n_exch].to_vec()
    };
    let n_exch = exchanges.len();
    let spot_only: Vec<bool> = exchanges.iter().map(|_| rng.chance(1, 2)).collect();

    let mut names: Vec<&str> = ASSETS.to_vec();
    rng.shuffle(&mut names);
    names.truncate(rng.range_u(3, ASSETS.len()));

    let n_defs = if small { rng.range_u(1, 4) } else { rng.range_u(1, 25) };
    let n_dups = if n_defs >= 2 && rng.chance(1, 2) { rng.range_u(1, 3.min(n_defs - 1)) } else { 0 };
    let n_base = n_defs - n_dups;

    let mut defs: Vec<Def> = Vec::with_capacity(n_defs);
    for uid in 0..n_base {
        let e = rng.usize_below(n_exch);
        let ex = exchanges[e];
        let base = *rng.pick(&names);
        let quote = loop {
            let q = *rng.pick(&names);
            if q != base {
                break q;
            }
        };
        // settlement / unit assets come from the wider alphabet so that some are used for nothing else
        let any_asset = |rng: &mut Rng| -> String {
            if rng.chance(1, 2) { (*rng.pick(&ASSETS)).to_string() } else { (*rng.pick(&names)).to_string() }
        };
        let kind = if spot_only[e] || rng.chance(2, 5) {
            KindDef::Spot
        } else {
            let settle = if rng.chance(1, 3) { quote.to_string() } else { any_asset(rng) };
            let size = rng.range(1, 5000);
            match rng.below(3) {
                0 => KindDef::Perpetual { settle, size },
                1 => KindDef::Future { settle, size, expiry_day: rng.range(1, 400) },
                _ => KindDef::Option {
                    settle,
                    size,
                    call: rng.bool(),
                    exercise: rng.below(3) as u8,
                    expiry_day: rng.range(1, 400),
                    strike: rng.range(1, 10_000_000),
                },
            }
        };
        let spec = if rng.chance(1, 2) {
            let unit = match rng.below(6) {
                0 => UnitDef::Contract,
                1 => UnitDef::Quote,
                2 => UnitDef::Asset(base.to_string()),
                3 => UnitDef::Asset(quote.to_string()),
                _ => UnitDef::Asset(any_asset(rng)),
            };
            Some(SpecDef {
                unit,
                price_min: rng.range(1, 1000),
                tick: rng.range(1, 100),
                qty_min: rng.range(1, 1000),
                qty_inc: rng.range(1, 100),
                notional_min: rng.range(100, 10_000),
            })
        } else {
            None
        };
        if default_named {
            let kind_tag = match &kind {
                KindDef::Spot => "",
                KindDef::Perpetual { .. } => "-PERP",
                KindDef::Future { .. } => "-FUT",
                KindDef::Option { .. } => "-OPT",
            };
            let symbol = format!("{}_{}{kind_tag}", base.to_uppercase(), quote.to_uppercase());
            if defs.iter().any(|d: &Def| d.exchange == ex && d.name_exchange == symbol) {
                continue; // one exchange lists a symbol once
            }
            let name_internal = barter_instrument::instrument::name::InstrumentNameInternal::new_from_exchange(ex, symbol.as_str()).name().to_string();
            defs.push(Def { exchange: ex, name_internal, name_exchange: symbol, base: base.to_string(), quote: quote.to_string(), quote_in_base: rng.chance(1, 5), kind, spec, default_named: true });
            continue;
        }
        defs.push(Def {
            exchange: ex,
            default_named: false,
            // random leading letters decouple the name orders from the generation order; the uid
            // keeps both names unique across the whole collection
            name_internal: format!("{}{}_{}", letters(rng, 2), uid, ex.as_str()),
            name_exchange: format!("{}{}", letters(rng, 2).to_uppercase(), uid),
            base: base.to_string(),
            quote: quote.to_string(),
            quote_in_base: rng.chance(1, 5),
            kind,
            spec,
        });
    }
    if defs.is_empty() {
        let ex = exchanges[0];
        let name_internal = barter_instrument::instrument::name::InstrumentNameInternal::new_from_exchange(ex, "BTC_USDT").name().to_string();
        defs.push(Def { exchange: ex, name_internal, name_exchange: "BTC_USDT".into(), base: "btc".into(), quote: "usdt".into(), quote_in_base: false, kind: KindDef::Spot, spec: None, default_named: true });
    }
    for _ in 0..n_dups {
        let d = defs[rng.usize_below(defs.len())].clone();
        defs.push(d);
    }
    rng.shuffle(&mut defs);

    let orders = (0..if small { 2 } else { 5 })
        .map(|_| {
            let mut o: Vec<usize> = (0..defs.len()).collect();
            rng.shuffle(&mut o);
            o
        })
        .collect();
    Case { defs, orders, balance_seed: rng.next_u64(), exec_seed: rng.next_u64(), light: small }
}

const FLOOR: [&str; 17] = [
    "route:instrument_configs",
    "route:restored_from_own_json",
    "exchanges>=2",
    "shared_asset_name_across_exchanges",
    "exact_duplicate_definition",
    "kind:spot",
    "kind:perpetual",
    "kind:future",
    "kind:option",
    "quantity_unit_asset",
    "settlement_only_asset",
    "lookup:unknown_name",
    "lookup:index_out_of_range",
    "exec:none_entry",
    "exec:some_entry",
    "exec:mocks_non_index_order",
    "exec:link_drop_check",
];

fn main() {
    let mut args = Args::parse();

    if let Some(path) = &args.replay {
        let v: serde_json::Value = serde_json::from_str(&std::fs::read_to_string(path).expect("read replay")).expect("json");
        let case: Case = serde_json::from_value(v["history"].clone()).expect("history");
        let mut report = Report::new("C11");
        execute(&case, &mut report, "replay");
        println!("{}", serde_json::to_string_pretty(&report.to_json()).unwrap());
        std::process::exit(if report.violation_count > 0 { 1 } else { 0 });
    }

    let small = args.tier == "miri" || args.tier == "tsan";
    if small {
        args.threads = 1;
    }
    let n_cases = if small { ((30.0 * args.scale).ceil() as u64).max(1) } else { args.size(3_000, 300_000) };

    let mut report = run_workers(&args, "C11", |w, n, rng, report| {
        let mine = Args::share(n_cases, w, n);
        for _ in 0..mine {
            let case = gen_case(rng, small);
            execute(&case, report, "random");
        }
    });

    if !small {
        for c in FLOOR {
            report.require(c);
        }
    }
    std::process::exit(report.finish(args.out.as_deref()));
}
