//! C19 — cancel-orders / close-positions commands act on exactly the filtered scope.
//!
//! A real `Engine` with barter's own `DefaultStrategy` / `DefaultRiskManager` (trading disabled, so
//! only commands send) over 3 exchanges x 2-3 underlyings (btc/usdt, eth/usdt, eth/btc; the same
//! underlying listed on several exchanges; spot, perpetual and inverse perpetual of one
//! underlying) with one recording execution link (`RecTx`) per exchange. Every engine state is
//! BUILT BY REAL EVENTS through `Engine::process` (send-open / send-cancel commands, order
//! snapshots, cancel responses, fills, public trades, top-of-book) - never by writing fields.
//!
//! For each state and each probe (filter x {CancelOrders, ClosePositions}) a fresh engine over a
//! clone of the built state processes the command TWICE. Before each command the monitor keeps the
//! state; after it, it drains every link and judges, with plain predicates on
//! (exchange index, instrument index, underlying asset indices) computed from the universe
//! description through `IndexedInstruments::find_*`:
//!   * CancelOrders: delivered == exactly one `Cancel` per tracked OpenInFlight / Open order of the
//!     matching instruments (never for CancelInFlight ones), on the link of the instrument's
//!     exchange, with the tracked order's key, `id: Some(exchange id)` for Open and `None` for
//!     OpenInFlight; audit `sent` == delivered; those orders are CancelInFlight afterwards; nothing
//!     else changed; the immediate repeat delivers nothing and changes nothing.
//!   * ClosePositions: delivered == exactly one `Open` per matching instrument with a position AND
//!     a price (`data.price()` before the command): opposite side, equal quantity, Market,
//!     ImmediateOrCancel, that price, on the instrument's link; no cancels; audit == delivered;
//!     afterwards an OpenInFlight order with that (random) cid exists there; nothing else changed.
//!     The repeat is judged by the same rule against the state it ran on.
//!   * instruments outside the filter (and assets / connectivity / trading state) compare equal
//!     before/after.
//!   * the public filtered accessors (`instruments`, `instruments_mut`, `orders`, `positions`,
//!     `instrument_datas`, `instrument_datas_mut`, `tear_sheets`) yield exactly the matching set.
//!
//! distinct non-trivial rule: a probe is *discriminating* when it delivered >= 1 request while an
//! instrument OUTSIDE its filter held something the same command would have acted on; a case
//! (universe + set-up events) is non-trivial when it has >= 5 set-up events, >= 1 discriminating
//! cancel probe and >= 1 discriminating close probe; distinct = FNV-1a of (universe, set-up).

use barter::{
    EngineEvent,
    engine::{
        Engine, EngineOutput, Processor,
        action::{ActionOutput, cancel_orders::CancelOrders, close_positions::ClosePositions},
        audit::EngineAudit,
        command::Command,
        execution_tx::MultiExchangeTxMap,
        state::{
            instrument::{InstrumentState, data::{DefaultInstrumentMarketData, InstrumentDataState}, filter::InstrumentFilter},
            trading::TradingState,
        },
    },
    execution::request::ExecutionRequest,
    risk::DefaultRiskManager,
    strategy::DefaultStrategy,
};
use barter_execution::order::{
    Order, OrderKind, TimeInForce,
    id::{ClientOrderId, OrderId},
    request::{OrderRequestCancel, OrderRequestOpen},
    state::{ActiveOrderState, Cancelled, Open, OrderState},
};
use barter_instrument::{
    Side, Underlying,
    asset::{Asset, AssetIndex, name::AssetNameInternal},
    exchange::{ExchangeId, ExchangeIndex},
    index::IndexedInstruments,
    instrument::{
        Instrument, InstrumentIndex,
        kind::{InstrumentKind, perpetual::PerpetualContract},
        quote::InstrumentQuoteAsset,
    },
};
use barter_integration::collection::one_or_many::OneOrMany;
use rust_decimal::Decimal;
use serde::{Deserialize, Serialize};
use serde_json::{Value, json};
use std::{
    collections::{BTreeMap, BTreeSet},
    str::FromStr,
};
use vharness::{
    Args, Report, Rng, catch,
    fixtures::{self, RecTx, TestClock, TxMode},
    fnv1a, run_workers, shrink,
};

type St = fixtures::DefState;
type Eng = Engine<TestClock, St, MultiExchangeTxMap<RecTx>, DefaultStrategy<St>, DefaultRiskManager<St>>;
type IState = InstrumentState<DefaultInstrumentMarketData>;
type V = (&'static str, String);

const UL: [(&str, &str); 3] = [("btc", "usdt"), ("eth", "usdt"), ("eth", "btc")];

// ---- universe ----------------------------------------------------------------------------------

#[derive(Debug, Clone, Copy, Serialize, Deserialize, PartialEq, Eq, PartialOrd, Ord)]
struct InstSpec {
    /// exchange slot 0..3 (NOT the engine's exchange index)
    ex: usize,
    /// underlying: index into UL
    ul: usize,
    /// 0 spot, 1 perpetual settled in quote, 2 perpetual settled in base
    kind: usize,
}

#[derive(Debug, Clone, Serialize, Deserialize, PartialEq)]
struct Universe {
    /// three distinct indices into `fixtures::EXCHANGES`
    exchanges: [usize; 3],
    instruments: Vec<InstSpec>,
    /// exchange slot (0..3) that is tracked for market data only: it has no execution link (`None` entry of the
    /// link table) and, consequently, never any order or position of the engine's
    #[serde(default)]
    data_only: Option<usize>,
}

fn make_instrument(exchange: ExchangeId, spec: &InstSpec) -> Instrument<ExchangeId, Asset> {
    let (base, quote) = UL[spec.ul];
    // the venue's trading rules of the derivatives (quantities in CONTRACTS, whole contracts / tenths of a contract
    // at a time): a position that is not a multiple of the increment is still closed by an order of EQUAL quantity
    use barter_instrument::instrument::spec::{InstrumentSpec, InstrumentSpecNotional, InstrumentSpecPrice, InstrumentSpecQuantity, OrderQuantityUnits};
    let rules = |increment: Decimal| InstrumentSpec {
        price: InstrumentSpecPrice { min: Decimal::new(1, 2), tick_size: Decimal::new(1, 2) },
        quantity: InstrumentSpecQuantity { unit: OrderQuantityUnits::Contract, min: increment, increment },
        notional: InstrumentSpecNotional { min: Decimal::ONE },
    };
    match spec.kind {
        0 => fixtures::spot(exchange, base, quote),
        1 => {
            let mut p = fixtures::perp(exchange, base, quote, quote);
            p.spec = Some(rules(Decimal::ONE));
            p
        }
        _ => Instrument::new(
            exchange,
            format!("{}-{}_{}_iperp", exchange.as_str(), base, quote),
            format!("{}{}-IPERP", base.to_uppercase(), quote.to_uppercase()),
            Underlying::new(Asset::new(base, base.to_uppercase()), Asset::new(quote, quote.to_uppercase())),
            InstrumentQuoteAsset::UnderlyingQuote,
            InstrumentKind::Perpetual(PerpetualContract { contract_size: Decimal::from(10), settlement_asset: Asset::new(base, base.to_uppercase()) }),
            Some(rules(Decimal::new(1, 1))),
        ),
    }
}

/// What the oracle knows about the instrument universe, in the engine's index space; derived from
/// the universe description by name look-ups (not from the engine's instrument states).
struct Table {
    ins: IndexedInstruments,
    n: usize,
    n_ex: usize,
    n_assets: usize,
    /// per instrument index
    ex_of: Vec<usize>,
    ex_id: Vec<ExchangeId>,
    ul_of: Vec<(usize, usize)>,
    spec_of: Vec<InstSpec>,
    /// engine exchange index of the market-data-only exchange, if any
    data_only_ex: Option<usize>,
}

fn table(u: &Universe) -> Result<Table, String> {
    let mut specs = u.instruments.clone();
    specs.sort();
    specs.dedup();
    if specs.is_empty() {
        return Err("empty universe".into());
    }
    let exid = |s: &InstSpec| fixtures::EXCHANGES[u.exchanges[s.ex % 3] % fixtures::EXCHANGES.len()];
    let made: Vec<(InstSpec, Instrument<ExchangeId, Asset>)> = specs.iter().map(|s| (*s, make_instrument(exid(s), s))).collect();
    let ins = IndexedInstruments::new(made.iter().map(|(_, i)| i.clone()));
    let n = ins.instruments().len();
    if n != made.len() {
        return Err(format!("universe of {} specs indexed to {n} instruments", made.len()));
    }
    let mut ex_of = vec![usize::MAX; n];
    let mut ex_id = vec![ExchangeId::Other; n];
    let mut ul_of = vec![(usize::MAX, usize::MAX); n];
    let mut spec_of = vec![specs[0]; n];
    for (s, inst) in &made {
        let e = exid(s);
        let i = ins.find_instrument_index(e, &inst.name_internal).map_err(|x| format!("{x:?}"))?.index();
        let (base, quote) = UL[s.ul];
        ex_of[i] = ins.find_exchange_index(e).map_err(|x| format!("{x:?}"))?.index();
        ex_id[i] = e;
        ul_of[i] = (
            ins.find_asset_index(e, &AssetNameInternal::from(base)).map_err(|x| format!("{x:?}"))?.index(),
            ins.find_asset_index(e, &AssetNameInternal::from(quote)).map_err(|x| format!("{x:?}"))?.index(),
        );
        spec_of[i] = *s;
    }
    if ex_of.iter().any(|e| *e == usize::MAX) {
        return Err("instrument index not covered by the universe".into());
    }
    let data_only_ex = u.data_only.and_then(|slot| (0..n).find(|i| spec_of[*i].ex % 3 == slot % 3).map(|i| ex_of[i]));
    Ok(Table { n, n_ex: ins.exchanges().len(), n_assets: ins.assets().len(), ins, ex_of, ex_id, ul_of, spec_of, data_only_ex })
}

// ---- set-up events -----------------------------------------------------------------------------

#[derive(Debug, Clone, Serialize, Deserialize, PartialEq)]
enum Ev {
    /// Command::SendOpenRequests (one limit order)
    Open { i: usize, cid: String, buy: bool, p: String, q: String },
    /// account OrderSnapshot: the exchange reports `cid` open with `filled`
    Confirm { i: usize, cid: String, buy: bool, p: String, q: String, filled: String, t: i64 },
    /// Command::SendCancelRequests for `cid`
    Cancel { i: usize, cid: String, with_id: bool },
    /// account OrderCancelled Ok
    CancelAck { i: usize, cid: String, t: i64 },
    /// account Trade (changes the position)
    Fill { i: usize, buy: bool, p: String, q: String, t: i64 },
    /// public trade
    Mkt { i: usize, p: f64, t: i64 },
    /// top of book (both sides)
    L1 { i: usize, bid: (String, String), ask: (String, String), t: i64 },
}

impl Ev {
    fn instr(&self) -> usize {
        match self {
            Ev::Open { i, .. } | Ev::Confirm { i, .. } | Ev::Cancel { i, .. } | Ev::CancelAck { i, .. } | Ev::Fill { i, .. } | Ev::Mkt { i, .. } | Ev::L1 { i, .. } => *i,
        }
    }
    fn set_t(&mut self, now: i64) {
        match self {
            Ev::Confirm { t, .. } | Ev::CancelAck { t, .. } | Ev::Fill { t, .. } | Ev::Mkt { t, .. } | Ev::L1 { t, .. } => *t = now,
            Ev::Open { .. } | Ev::Cancel { .. } => {}
        }
    }
}

fn d(s: &str) -> Decimal {
    Decimal::from_str(s).unwrap_or(Decimal::ONE)
}
fn side(buy: bool) -> Side {
    if buy { Side::Buy } else { Side::Sell }
}
fn xid(cid: &str) -> String {
    format!("x-{cid}")
}

#[derive(Debug, Clone, Serialize, Deserialize, PartialEq)]
enum FilterSpec {
    None,
    /// exchange indices (engine index space)
    Exchanges(Vec<usize>),
    /// instrument indices
    Instruments(Vec<usize>),
    /// (base asset index, quote asset index)
    Underlyings(Vec<(usize, usize)>),
}

#[derive(Debug, Clone, Serialize, Deserialize, PartialEq)]
struct Probe {
    filter: FilterSpec,
    /// false: CancelOrders, true: ClosePositions
    close: bool,
    /// wrap a single member as `OneOrMany::Many(vec![x])` instead of `One(x)`
    force_many: bool,
}

#[derive(Debug, Clone, Serialize, Deserialize, PartialEq)]
struct Case {
    universe: Universe,
    setup: Vec<Ev>,
}

fn one_or_many<T>(xs: Vec<T>, force_many: bool) -> OneOrMany<T> {
    if force_many { OneOrMany::Many(xs) } else { OneOrMany::from_iter(xs) }
}

fn engine_filter(p: &Probe) -> InstrumentFilter {
    match &p.filter {
        FilterSpec::None => InstrumentFilter::None,
        FilterSpec::Exchanges(xs) => InstrumentFilter::Exchanges(one_or_many(xs.iter().map(|e| ExchangeIndex(*e)).collect(), p.force_many)),
        FilterSpec::Instruments(xs) => InstrumentFilter::Instruments(one_or_many(xs.iter().map(|i| InstrumentIndex(*i)).collect(), p.force_many)),
        FilterSpec::Underlyings(xs) => InstrumentFilter::Underlyings(one_or_many(xs.iter().map(|(b, q)| Underlying { base: AssetIndex(*b), quote: AssetIndex(*q) }).collect(), p.force_many)),
    }
}

/// The oracle's scope predicate.
fn matching(tb: &Table, f: &FilterSpec) -> Vec<bool> {
    (0..tb.n)
        .map(|i| match f {
            FilterSpec::None => true,
            FilterSpec::Exchanges(xs) => xs.iter().any(|e| *e == tb.ex_of[i]),
            FilterSpec::Instruments(xs) => xs.iter().any(|k| *k == i),
            FilterSpec::Underlyings(xs) => xs.iter().any(|(b, q)| (*b, *q) == tb.ul_of[i]),
        })
        .collect()
}

// ---- driving the engine ------------------------------------------------------------------------

fn new_links(tb: &Table) -> Vec<RecTx> {
    (0..tb.n_ex).map(|_| RecTx::new(TxMode::Healthy)).collect()
}

fn engine_over(tb: &Table, state: St, links: &[RecTx]) -> Eng {
    Engine::new(
        TestClock::new(fixtures::t0()),
        state,
        MultiExchangeTxMap::from_iter(tb.ins.exchanges().iter().zip(links.iter()).map(|(e, tx)| (e.value, if Some(e.key.index()) == tb.data_only_ex { None } else { Some(tx.clone()) }))),
        DefaultStrategy::default(),
        DefaultRiskManager::default(),
    )
}

fn to_engine_event(tb: &Table, idx: usize, ev: &Ev) -> EngineEvent {
    let i = ev.instr();
    let e = tb.ex_of[i];
    match ev {
        Ev::Open { cid, buy, p, q, .. } => {
            // the order's kind / time in force follow from its id (a tracked order is a tracked order whatever
            // its terms: resting limit, post-only, good for the day, immediate-or-cancel, fill-or-kill, market)
            let mut req = fixtures::req_open(e, i, cid, side(*buy), d(p), d(q));
            let h = cid.bytes().fold(i as u32, |a, b| a.wrapping_mul(31).wrapping_add(b as u32));
            (req.state.kind, req.state.time_in_force) = match h % 6 {
                0 | 1 => (OrderKind::Limit, TimeInForce::GoodUntilCancelled { post_only: false }),
                2 => (OrderKind::Limit, TimeInForce::GoodUntilCancelled { post_only: true }),
                3 => (OrderKind::Limit, TimeInForce::GoodUntilEndOfDay),
                4 => (OrderKind::Limit, TimeInForce::FillOrKill),
                _ => (OrderKind::Market, TimeInForce::ImmediateOrCancel),
            };
            EngineEvent::Command(Command::SendOpenRequests(OneOrMany::One(req)))
        }
        Ev::Confirm { cid, buy, p, q, filled, t, .. } => fixtures::ev_order_snapshot(
            e,
            i,
            cid,
            side(*buy),
            d(p),
            d(q),
            OrderState::active(Open { id: OrderId::new(xid(cid)), time_exchange: fixtures::t(*t), filled_quantity: d(filled) }),
        ),
        Ev::Cancel { cid, with_id, .. } => {
            let id = xid(cid);
            EngineEvent::Command(Command::SendCancelRequests(OneOrMany::One(fixtures::req_cancel(e, i, cid, if *with_id { Some(id.as_str()) } else { None }))))
        }
        Ev::CancelAck { cid, t, .. } => fixtures::ev_cancel_response(e, i, cid, Ok(Cancelled { id: OrderId::new(xid(cid)), time_exchange: fixtures::t(*t) })),
        Ev::Fill { buy, p, q, t, .. } => fixtures::ev_trade(e, i, &format!("f{idx}"), *t, side(*buy), d(p), d(q), Decimal::ZERO),
        Ev::Mkt { p, t, .. } => fixtures::ev_market_trade(tb.ex_id[i], i, *t, *p),
        Ev::L1 { bid, ask, t, .. } => fixtures::ev_market_l1(tb.ex_id[i], i, *t, Some((d(&bid.0), d(&bid.1))), Some((d(&ask.0), d(&ask.1)))),
    }
}

/// Build the engine state by processing the set-up events; returns the state and the number of
/// events processed.
fn build_state(tb: &Table, setup: &[Ev]) -> Result<(St, u64), V> {
    let links = new_links(tb);
    let mut engine = engine_over(tb, fixtures::default_state(&tb.ins, TradingState::Disabled), &links);
    let mut steps = 0u64;
    for (idx, ev) in setup.iter().enumerate() {
        if ev.instr() >= tb.n {
            continue; // (only reachable through a hand-edited replay file)
        }
        let ee = to_engine_event(tb, idx, ev);
        catch(|| engine.process(ee)).map_err(|m| ("panic_in_engine_process", format!("set-up event #{idx} {ev:?}: {m}")))?;
        steps += 1;
    }
    for l in &links {
        l.drain();
    }
    Ok((engine.state, steps))
}

// ---- observations ------------------------------------------------------------------------------

#[derive(Debug, Clone, PartialEq, Eq, PartialOrd, Ord)]
struct CancelSeen {
    link: usize,
    ex: usize,
    instr: usize,
    strategy: String,
    cid: String,
    id: Option<String>,
}

#[derive(Debug, Clone, PartialEq, Eq, PartialOrd, Ord)]
struct OpenSeen {
    link: usize,
    ex: usize,
    instr: usize,
    strategy: String,
    cid: String,
    side: Side,
    price: Decimal,
    qty: Decimal,
    kind: OrderKind,
    tif: TimeInForce,
}

fn seen_cancel(link: usize, r: &OrderRequestCancel) -> CancelSeen {
    CancelSeen { link, ex: r.key.exchange.index(), instr: r.key.instrument.index(), strategy: r.key.strategy.0.to_string(), cid: r.key.cid.0.to_string(), id: r.state.id.as_ref().map(|x| x.0.to_string()) }
}
fn seen_open(link: usize, r: &OrderRequestOpen) -> OpenSeen {
    OpenSeen {
        link,
        ex: r.key.exchange.index(),
        instr: r.key.instrument.index(),
        strategy: r.key.strategy.0.to_string(),
        cid: r.key.cid.0.to_string(),
        side: r.state.side,
        price: r.state.price,
        qty: r.state.quantity,
        kind: r.state.kind,
        tif: r.state.time_in_force,
    }
}

fn istate(st: &St, i: usize) -> &IState {
    st.instruments.instrument_index(&InstrumentIndex(i))
}

fn order_of<'a>(s: &'a IState, cid: &str) -> Option<&'a Order<ExchangeIndex, InstrumentIndex, ActiveOrderState>> {
    s.orders.0.get(&ClientOrderId::new(cid))
}

fn cancellable(s: &IState) -> usize {
    s.orders.0.values().filter(|o| !matches!(o.state, ActiveOrderState::CancelInFlight(_))).count()
}
fn closable(s: &IState) -> bool {
    s.position.current.is_some() && s.data.price().is_some()
}

#[derive(Default)]
struct ProbeOut {
    checks: u64,
    delivered: u64,
    cells: BTreeSet<&'static str>,
    discriminating: bool,
}

struct Delivered {
    cancels: Vec<CancelSeen>,
    opens: Vec<OpenSeen>,
    shutdowns: usize,
}

fn drain(links: &[RecTx]) -> Delivered {
    let mut dl = Delivered { cancels: vec![], opens: vec![], shutdowns: 0 };
    for (l, tx) in links.iter().enumerate() {
        for r in tx.drain() {
            match r {
                ExecutionRequest::Cancel(c) => dl.cancels.push(seen_cancel(l, &c)),
                ExecutionRequest::Open(o) => dl.opens.push(seen_open(l, &o)),
                ExecutionRequest::Shutdown => dl.shutdowns += 1,
            }
        }
    }
    dl.cancels.sort();
    dl.opens.sort();
    dl
}

struct Claimed {
    cancels: Vec<CancelSeen>,
    opens: Vec<OpenSeen>,
    errors: usize,
    kind: &'static str,
}

fn claimed(audit: &EngineAudit<EngineEvent, EngineOutput<(), ()>>) -> Result<Claimed, V> {
    let EngineAudit::Process(pa) = audit else {
        return Err(("unexpected_feed_ended_audit", "command produced FeedEnded".into()));
    };
    let mut c = Claimed { cancels: vec![], opens: vec![], errors: pa.errors.iter().count(), kind: "none" };
    let mut outputs = 0;
    for o in pa.outputs.iter() {
        outputs += 1;
        match o {
            EngineOutput::Commanded(ActionOutput::CancelOrders(s)) => {
                c.kind = "CancelOrders";
                c.cancels.extend(s.sent.iter().map(|r| seen_cancel(r.key.exchange.index(), r)));
                c.errors += s.errors.iter().count();
            }
            EngineOutput::Commanded(ActionOutput::ClosePositions(s)) => {
                c.kind = "ClosePositions";
                c.cancels.extend(s.cancels.sent.iter().map(|r| seen_cancel(r.key.exchange.index(), r)));
                c.opens.extend(s.opens.sent.iter().map(|r| seen_open(r.key.exchange.index(), r)));
                c.errors += s.cancels.errors.iter().count() + s.opens.errors.iter().count();
            }
            _ => c.kind = "other",
        }
    }
    if outputs != 1 {
        return Err(("command_audit_does_not_hold_exactly_one_output", format!("{outputs} outputs")));
    }
    c.cancels.sort();
    c.opens.sort();
    Ok(c)
}

/// Everything of an order except its lifecycle state.
fn same_but_state(a: &Order<ExchangeIndex, InstrumentIndex, ActiveOrderState>, b: &Order<ExchangeIndex, InstrumentIndex, ActiveOrderState>) -> bool {
    a.key == b.key && a.side == b.side && a.price == b.price && a.quantity == b.quantity && a.kind == b.kind && a.time_in_force == b.time_in_force
}

fn globals_equal(a: &St, b: &St) -> bool {
    a.trading == b.trading && a.assets == b.assets && a.connectivity == b.connectivity
}

/// Judge one processed CancelOrders command. `repeat`: this is the immediate second issue.
fn judge_cancel(tb: &Table, m: &[bool], before: &St, after: &St, dl: &Delivered, cl: &Claimed, repeat: bool, out: &mut ProbeOut) -> Result<(), V> {
    out.checks += 1;
    if !dl.opens.is_empty() || dl.shutdowns > 0 {
        return Err(("cancel_command_delivered_something_other_than_cancels", format!("opens {:?}, shutdowns {}", dl.opens, dl.shutdowns)));
    }
    if repeat && !dl.cancels.is_empty() {
        return Err(("repeated_cancel_command_sent_requests", format!("the identical second command delivered {:?}", dl.cancels)));
    }
    // expected set, from the state before the command
    let mut expected: Vec<CancelSeen> = vec![];
    if !repeat {
        for i in 0..tb.n {
            if !m[i] {
                continue;
            }
            for o in istate(before, i).orders.0.values() {
                let id = match &o.state {
                    ActiveOrderState::OpenInFlight(_) => None,
                    ActiveOrderState::Open(open) => Some(open.id.0.to_string()),
                    ActiveOrderState::CancelInFlight(_) => continue,
                };
                expected.push(CancelSeen { link: tb.ex_of[i], ex: tb.ex_of[i], instr: i, strategy: o.key.strategy.0.to_string(), cid: o.key.cid.0.to_string(), id });
            }
        }
        expected.sort();
    }
    // classify every delivered request
    for (k, c) in dl.cancels.iter().enumerate() {
        out.checks += 1;
        if c.instr >= tb.n {
            return Err(("cancel_sent_for_unknown_instrument", format!("{c:?}")));
        }
        if c.link != c.ex || c.link != tb.ex_of[c.instr] {
            return Err(("request_delivered_to_wrong_link", format!("{c:?}: instrument {} trades on exchange {}", c.instr, tb.ex_of[c.instr])));
        }
        if !m[c.instr] {
            return Err(("cancel_sent_for_instrument_outside_filter", format!("{c:?}")));
        }
        let Some(o) = order_of(istate(before, c.instr), &c.cid) else {
            return Err(("cancel_sent_for_untracked_order", format!("{c:?}")));
        };
        match &o.state {
            ActiveOrderState::CancelInFlight(_) => return Err(("cancel_sent_for_order_already_cancel_in_flight", format!("{c:?}"))),
            ActiveOrderState::Open(open) => {
                out.cells.insert("cancel:open_order_with_exchange_id");
                if c.id.is_none() {
                    return Err(("cancel_lacks_exchange_order_id_of_open_order", format!("{c:?}: tracked exchange id {}", open.id.0)));
                }
                if c.id.as_deref() != Some(open.id.0.as_str()) {
                    return Err(("cancel_carries_wrong_exchange_order_id", format!("{c:?}: tracked exchange id {}", open.id.0)));
                }
                if !open.filled_quantity.is_zero() {
                    out.cells.insert("cancel:partially_filled_open_order");
                }
            }
            ActiveOrderState::OpenInFlight(_) => {
                out.cells.insert("cancel:in_flight_order_without_exchange_id");
                if c.id.is_some() {
                    return Err(("cancel_invents_exchange_order_id_for_in_flight_order", format!("{c:?}")));
                }
            }
        }
        if c.strategy != o.key.strategy.0.as_str() || c.ex != o.key.exchange.index() {
            return Err(("cancel_key_differs_from_tracked_order", format!("{c:?} vs {:?}", o.key)));
        }
        if k > 0 && dl.cancels[k - 1] == *c {
            return Err(("cancel_sent_more_than_once", format!("{c:?}")));
        }
    }
    out.checks += 1;
    if let Some(miss) = expected.iter().find(|e| !dl.cancels.contains(e)) {
        return Err(("cancel_not_sent_for_tracked_order_in_filter", format!("expected {miss:?}; delivered {:?}", dl.cancels)));
    }
    if expected != dl.cancels {
        return Err(("cancel_set_differs_from_expected", format!("expected {expected:?}; delivered {:?}", dl.cancels)));
    }
    // audit
    out.checks += 1;
    if cl.kind != "CancelOrders" {
        return Err(("command_audit_output_of_wrong_kind", format!("CancelOrders command produced output {}", cl.kind)));
    }
    if cl.errors > 0 {
        return Err(("command_reported_errors_on_healthy_links", format!("{} errors", cl.errors)));
    }
    if cl.cancels != dl.cancels || !cl.opens.is_empty() {
        return Err(("audit_sent_differs_from_delivered", format!("audit sent {:?}; delivered {:?}", cl.cancels, dl.cancels)));
    }
    // state afterwards
    out.checks += 1;
    if !globals_equal(before, after) {
        return Err(("command_changed_state_outside_instruments", "trading / assets / connectivity differ".into()));
    }
    for i in 0..tb.n {
        let (b, a) = (istate(before, i), istate(after, i));
        if !m[i] {
            if a != b {
                return Err(("instrument_outside_filter_changed", format!("instrument {i}: orders {:?} -> {:?}", b.orders, a.orders)));
            }
            continue;
        }
        if a.position != b.position || a.data != b.data || a.tear_sheet != b.tear_sheet || a.key != b.key || a.instrument != b.instrument {
            return Err(("cancel_command_changed_position_or_data", format!("instrument {i}")));
        }
        if a.orders.0.len() != b.orders.0.len() {
            return Err(("cancel_command_changed_tracked_order_set", format!("instrument {i}: {:?} -> {:?}", b.orders.0.keys().collect::<Vec<_>>(), a.orders.0.keys().collect::<Vec<_>>())));
        }
        for (cid, ob) in b.orders.0.iter() {
            let Some(oa) = a.orders.0.get(cid) else {
                return Err(("cancel_command_changed_tracked_order_set", format!("instrument {i}: {cid:?} vanished")));
            };
            let was_expected = expected.iter().any(|e| e.instr == i && e.cid == cid.0.as_str());
            if was_expected {
                if !same_but_state(oa, ob) {
                    return Err(("cancelled_order_fields_changed", format!("instrument {i} {cid:?}: {ob:?} -> {oa:?}")));
                }
                match &oa.state {
                    ActiveOrderState::CancelInFlight(cx) => {
                        // if the entry still carries open-order data it must be the data it had
                        if let Some(kept) = &cx.order {
                            if Some(kept) != ob.state.open_meta() {
                                return Err(("cancelled_order_open_data_changed", format!("instrument {i} {cid:?}: {:?} -> {kept:?}", ob.state.open_meta())));
                            }
                        }
                    }
                    other => return Err(("cancelled_order_not_marked_cancel_in_flight", format!("instrument {i} {cid:?}: was {:?}, cancel delivered, now {other:?}", ob.state))),
                }
            } else if oa != ob {
                return Err(("cancel_command_changed_order_it_did_not_cancel", format!("instrument {i} {cid:?}: {ob:?} -> {oa:?}")));
            }
        }
    }
    out.delivered += dl.cancels.len() as u64;
    Ok(())
}

/// Judge one processed ClosePositions command (first or repeated: same rule, own `before`).
fn judge_close(tb: &Table, m: &[bool], before: &St, after: &St, dl: &Delivered, cl: &Claimed, strategy: &str, out: &mut ProbeOut) -> Result<(), V> {
    out.checks += 1;
    if !dl.cancels.is_empty() || dl.shutdowns > 0 {
        return Err(("close_command_delivered_something_other_than_opens", format!("cancels {:?}, shutdowns {}", dl.cancels, dl.shutdowns)));
    }
    let mut by_instr: BTreeMap<usize, &OpenSeen> = BTreeMap::new();
    for o in &dl.opens {
        out.checks += 1;
        if o.instr >= tb.n {
            return Err(("close_order_for_unknown_instrument", format!("{o:?}")));
        }
        if o.link != o.ex || o.link != tb.ex_of[o.instr] {
            return Err(("request_delivered_to_wrong_link", format!("{o:?}: instrument {} trades on exchange {}", o.instr, tb.ex_of[o.instr])));
        }
        if !m[o.instr] {
            return Err(("close_order_for_instrument_outside_filter", format!("{o:?}")));
        }
        let s = istate(before, o.instr);
        let Some(pos) = &s.position.current else {
            return Err(("close_order_for_instrument_without_position", format!("{o:?}")));
        };
        let Some(price) = s.data.price() else {
            return Err(("close_order_for_instrument_without_price", format!("{o:?}")));
        };
        if by_instr.insert(o.instr, o).is_some() {
            return Err(("more_than_one_close_order_for_an_instrument", format!("instrument {}: {:?}", o.instr, dl.opens)));
        }
        if o.side == pos.side {
            return Err(("close_order_side_not_opposite_to_position", format!("{o:?}: position {:?} {}", pos.side, pos.quantity_abs)));
        }
        if o.qty != pos.quantity_abs {
            return Err(("close_order_quantity_differs_from_position", format!("{o:?}: position {:?} {}", pos.side, pos.quantity_abs)));
        }
        if o.kind != OrderKind::Market || o.tif != TimeInForce::ImmediateOrCancel {
            return Err(("close_order_not_immediate_or_cancel_market", format!("{o:?}")));
        }
        if o.price != price {
            return Err(("close_order_price_differs_from_market_price", format!("{o:?}: price() before the command = {price}")));
        }
        if o.strategy != strategy {
            return Err(("close_order_strategy_id_not_the_strategys", format!("{o:?}: strategy id {strategy}")));
        }
        if order_of(s, &o.cid).is_some() {
            return Err(("close_order_reuses_tracked_client_order_id", format!("{o:?}")));
        }
        out.cells.insert(if pos.side == Side::Buy { "close:long_position" } else { "close:short_position" });
    }
    out.checks += 1;
    let cids: BTreeSet<&str> = dl.opens.iter().map(|o| o.cid.as_str()).collect();
    if cids.len() != dl.opens.len() {
        return Err(("close_orders_share_a_client_order_id", format!("{:?}", dl.opens)));
    }
    for i in 0..tb.n {
        let s = istate(before, i);
        if m[i] && closable(s) && !by_instr.contains_key(&i) {
            let pos = s.position.current.as_ref().unwrap();
            return Err(("close_order_missing_for_position_in_filter", format!("instrument {i} on exchange {}: position {:?} {} price {:?}; delivered {:?}", tb.ex_of[i], pos.side, pos.quantity_abs, s.data.price(), dl.opens)));
        }
        if m[i] && s.position.current.is_some() && s.data.price().is_none() {
            out.cells.insert("position_without_price_not_closed");
        }
        if m[i] && s.position.current.is_none() && s.data.price().is_some() {
            out.cells.insert("price_without_position");
        }
    }
    // audit
    out.checks += 1;
    if cl.kind != "ClosePositions" {
        return Err(("command_audit_output_of_wrong_kind", format!("ClosePositions command produced output {}", cl.kind)));
    }
    if cl.errors > 0 {
        return Err(("command_reported_errors_on_healthy_links", format!("{} errors", cl.errors)));
    }
    if cl.opens != dl.opens || !cl.cancels.is_empty() {
        return Err(("audit_sent_differs_from_delivered", format!("audit opens {:?} cancels {:?}; delivered {:?}", cl.opens, cl.cancels, dl.opens)));
    }
    // state afterwards
    out.checks += 1;
    if !globals_equal(before, after) {
        return Err(("command_changed_state_outside_instruments", "trading / assets / connectivity differ".into()));
    }
    for i in 0..tb.n {
        let (b, a) = (istate(before, i), istate(after, i));
        let Some(o) = by_instr.get(&i) else {
            if a != b {
                let sig = if m[i] { "close_command_changed_instrument_it_sent_nothing_for" } else { "instrument_outside_filter_changed" };
                return Err((sig, format!("instrument {i}: orders {:?} -> {:?}", b.orders, a.orders)));
            }
            continue;
        };
        if a.position != b.position || a.data != b.data || a.tear_sheet != b.tear_sheet || a.key != b.key || a.instrument != b.instrument {
            return Err(("close_command_changed_position_or_data", format!("instrument {i}")));
        }
        if a.orders.0.len() != b.orders.0.len() + 1 {
            return Err(("close_order_not_tracked_as_single_new_order", format!("instrument {i}: {:?} -> {:?}", b.orders.0.keys().collect::<Vec<_>>(), a.orders.0.keys().collect::<Vec<_>>())));
        }
        for (cid, ob) in b.orders.0.iter() {
            if a.orders.0.get(cid) != Some(ob) {
                return Err(("close_command_changed_existing_order", format!("instrument {i} {cid:?}: {ob:?} -> {:?}", a.orders.0.get(cid))));
            }
        }
        match order_of(a, &o.cid) {
            Some(n) if matches!(n.state, ActiveOrderState::OpenInFlight(_)) => {
                if n.side != o.side || n.price != o.price || n.quantity != o.qty || n.kind != o.kind || n.time_in_force != o.tif || n.key.exchange.index() != o.ex || n.key.instrument.index() != i {
                    return Err(("tracked_close_order_differs_from_request", format!("instrument {i}: request {o:?}, tracked {n:?}")));
                }
            }
            other => return Err(("sent_close_order_not_shown_in_flight", format!("instrument {i}: request {o:?}, tracked {other:?}"))),
        }
    }
    out.delivered += dl.opens.len() as u64;
    Ok(())
}

/// The public filtered accessors must yield exactly the oracle's matching set.
fn judge_accessors(tb: &Table, m: &[bool], filter: &InstrumentFilter, st: &mut St, out: &mut ProbeOut) -> Result<(), V> {
    out.checks += 1;
    let want: Vec<usize> = (0..tb.n).filter(|i| m[*i]).collect();
    let shared: Vec<usize> = st.instruments.instruments(filter).map(|s| s.key.index()).collect();
    let exclusive: Vec<usize> = st.instruments.instruments_mut(filter).map(|s| s.key.index()).collect();
    let counts = [
        ("orders", st.instruments.orders(filter).count()),
        ("positions", st.instruments.positions(filter).count()),
        ("instrument_datas", st.instruments.instrument_datas(filter).count()),
        ("instrument_datas_mut", st.instruments.instrument_datas_mut(filter).count()),
        ("tear_sheets", st.instruments.tear_sheets(filter).count()),
    ];
    if shared != want {
        return Err(("filtered_accessor_yields_wrong_instruments", format!("instruments(filter) yields {shared:?}, expected {want:?}")));
    }
    if exclusive != want {
        return Err(("filtered_accessor_yields_wrong_instruments", format!("instruments_mut(filter) yields {exclusive:?}, expected {want:?}")));
    }
    for (name, c) in counts {
        if c != want.len() {
            return Err(("filtered_accessor_yields_wrong_instruments", format!("{name}(filter) yields {c} items, expected {}", want.len())));
        }
    }
    Ok(())
}

/// Was an order with this id tracked on instrument `i` BEFORE the command (ie/ it is not a fresh close order)?
fn cmd_known_cid(base: &St, i: usize, cid: &str) -> bool {
    istate(base, i).orders.0.values().any(|o| o.key.cid.0.as_str() == cid)
}

fn run_probe(tb: &Table, base: &St, probe: &Probe) -> Result<ProbeOut, V> {
    let mut out = ProbeOut::default();
    let links = new_links(tb);
    let mut engine = engine_over(tb, base.clone(), &links);
    let strategy = engine.strategy.id.0.to_string();
    let filter = engine_filter(probe);
    let m = matching(tb, &probe.filter);
    let n_match = m.iter().filter(|x| **x).count();

    // cells describing the probe
    out.cells.insert(match &probe.filter {
        FilterSpec::None => "filter:None",
        FilterSpec::Exchanges(x) if x.len() == 1 => "filter:Exchanges:one",
        FilterSpec::Exchanges(_) => "filter:Exchanges:many",
        FilterSpec::Instruments(x) if x.len() == 1 => "filter:Instruments:one",
        FilterSpec::Instruments(_) => "filter:Instruments:many",
        FilterSpec::Underlyings(x) if x.len() == 1 => "filter:Underlyings:one",
        FilterSpec::Underlyings(_) => "filter:Underlyings:many",
    });
    if matches!(&probe.filter, FilterSpec::Exchanges(x) if x.is_empty()) || matches!(&probe.filter, FilterSpec::Instruments(x) if x.is_empty()) || matches!(&probe.filter, FilterSpec::Underlyings(x) if x.is_empty()) {
        out.cells.insert("filter:empty_subset");
    }
    if n_match == 0 {
        out.cells.insert(if probe.close { "filter_matches_nothing:close" } else { "filter_matches_nothing:cancel" });
    }
    if probe.force_many {
        out.cells.insert("filter:single_member_given_as_many");
    }

    let mut first_delivered = 0u64;
    let mut first_round: Option<(Delivered, St)> = None;
    for round in 0..2 {
        let before = engine.state.clone();
        let command = if probe.close { Command::ClosePositions(filter.clone()) } else { Command::CancelOrders(filter.clone()) };
        let audit = catch(|| engine.process(EngineEvent::Command(command))).map_err(|msg| ("panic_in_engine_process", format!("round {round}: {msg}")))?;
        let dl = drain(&links);
        let cl = claimed(&audit).map_err(|(s, dd)| (s, format!("round {round}: {dd}")))?;
        let d0 = out.delivered;
        let res = if probe.close {
            judge_close(tb, &m, &before, &engine.state, &dl, &cl, &strategy, &mut out)
        } else {
            judge_cancel(tb, &m, &before, &engine.state, &dl, &cl, round == 1, &mut out)
        };
        res.map_err(|(s, dd)| (s, format!("{} command #{} : {dd}", if probe.close { "ClosePositions" } else { "CancelOrders" }, round + 1)))?;
        let sent = out.delivered - d0;
        if round == 0 {
            first_delivered = sent;
            first_round = Some((dl, engine.state.clone()));
            // cells about the state the first command ran on
            let outside_actionable = (0..tb.n).any(|i| !m[i] && if probe.close { closable(istate(&before, i)) } else { cancellable(istate(&before, i)) > 0 });
            if sent > 0 && outside_actionable {
                out.discriminating = true;
                out.cells.insert(if probe.close { "actionable_outside_filter_left_untouched:close" } else { "actionable_outside_filter_left_untouched:cancel" });
            }
            for i in (0..tb.n).filter(|i| m[*i]) {
                let s = istate(&before, i);
                if !probe.close {
                    let (mut inflight, mut open0, mut partial, mut cx) = (false, false, false, false);
                    for o in s.orders.0.values() {
                        match &o.state {
                            ActiveOrderState::OpenInFlight(_) => inflight = true,
                            ActiveOrderState::Open(op) if op.filled_quantity.is_zero() => open0 = true,
                            ActiveOrderState::Open(_) => partial = true,
                            ActiveOrderState::CancelInFlight(_) => cx = true,
                        }
                    }
                    if cx {
                        out.cells.insert("cancel_in_flight_order_skipped");
                    }
                    if inflight && open0 && partial && cx {
                        out.cells.insert("instrument_with_all_four_order_states");
                    }
                }
                // same underlying (by name) listed on another exchange that is NOT selected
                if !matches!(probe.filter, FilterSpec::None | FilterSpec::Instruments(_)) {
                    let acted = if probe.close { closable(s) } else { cancellable(s) > 0 };
                    let twin = (0..tb.n).any(|j| {
                        !m[j] && tb.spec_of[j].ul == tb.spec_of[i].ul && tb.ex_of[j] != tb.ex_of[i] && if probe.close { closable(istate(&before, j)) } else { cancellable(istate(&before, j)) > 0 }
                    });
                    if acted && twin {
                        out.cells.insert(if probe.close { "same_underlying_other_exchange_not_selected:close" } else { "same_underlying_other_exchange_not_selected:cancel" });
                    }
                }
            }
            if let FilterSpec::Underlyings(_) = probe.filter {
                let kinds: BTreeSet<(usize, usize, usize)> = (0..tb.n).filter(|i| m[*i]).map(|i| (tb.ex_of[i], tb.spec_of[i].ul, tb.spec_of[i].kind)).collect();
                if kinds.iter().any(|(e, u, k)| kinds.iter().any(|(e2, u2, k2)| e == e2 && u == u2 && k != k2)) {
                    out.cells.insert("underlying_filter_selects_spot_and_perpetual");
                }
            }
        } else if probe.close {
            if sent > 0 && sent == first_delivered {
                out.cells.insert("repeated_close_judged_by_same_rule");
            }
        } else if first_delivered > 0 {
            out.cells.insert("repeated_cancel_sends_nothing");
        }
    }
    judge_accessors(tb, &m, &filter, &mut engine.state, &mut out)?;

    // ---- direct-method round: the engine's public `CancelOrders::cancel_orders` / `ClosePositions::close_positions`
    // (what an on-disconnect / on-trading-disabled hook holding `&mut Engine` calls) on the same state must do
    // exactly what the command did: the same requests on the same links, the same orders marked in flight.
    if let Some((cmd_dl, cmd_after)) = &first_round {
        let links = new_links(tb);
        let mut engine = engine_over(tb, base.clone(), &links);
        catch(|| {
            if probe.close {
                let _ = engine.close_positions(&filter);
            } else {
                let _ = engine.cancel_orders(&filter);
            }
        })
        .map_err(|msg| ("panic_in_engine_process", format!("direct method call: {msg}")))?;
        let dl = drain(&links);
        out.checks += 2;
        let what = if probe.close { "close_positions(filter)" } else { "cancel_orders(filter)" };
        // close orders carry fresh random ids: compare everything but the id
        let blank = |v: &[OpenSeen]| -> Vec<OpenSeen> {
            let mut v: Vec<OpenSeen> = v.iter().map(|o| OpenSeen { cid: String::new(), ..o.clone() }).collect();
            v.sort();
            v
        };
        if dl.cancels != cmd_dl.cancels || blank(&dl.opens) != blank(&cmd_dl.opens) {
            return Err((
                "direct_method_call_delivers_other_requests_than_the_command",
                format!("{what}: delivered cancels {:?} opens {:?}; the command delivered cancels {:?} opens {:?}", dl.cancels, blank(&dl.opens), cmd_dl.cancels, blank(&cmd_dl.opens)),
            ));
        }
        let orders_of = |st: &St, i: usize| -> Vec<String> {
            let mut v: Vec<String> = istate(st, i)
                .orders
                .0
                .values()
                .map(|o| {
                    let cid = if probe.close && matches!(o.state, ActiveOrderState::OpenInFlight(_)) && !cmd_known_cid(base, i, &o.key.cid.0) { String::new() } else { o.key.cid.0.to_string() };
                    format!("{cid} {:?} {:?}", o.side, o.state)
                })
                .collect();
            v.sort();
            v
        };
        for i in 0..tb.n {
            let (a, b) = (orders_of(&engine.state, i), orders_of(cmd_after, i));
            if a != b {
                return Err((
                    "direct_method_call_leaves_other_order_state_than_the_command",
                    format!("{what}: instrument {i} tracks {a:?} afterwards; after the command it tracked {b:?}"),
                ));
            }
        }
        out.cells.insert(if probe.close { "direct_method_round:close" } else { "direct_method_round:cancel" });
    }

    // ---- snapshot interlude: cancel command, then a FULL account snapshot of every exchange that still lists the
    // tracked orders as open (the venue has not processed the cancels yet), then the command again. The first is
    // still in flight - no cancel has been answered - so the repeat requests nothing new.
    if !probe.close {
        use barter_execution::{AccountEventKind, AccountSnapshot, InstrumentAccountSnapshot};
        let links = new_links(tb);
        let mut engine = engine_over(tb, base.clone(), &links);
        let command = Command::CancelOrders(filter.clone());
        catch(|| engine.process(EngineEvent::Command(command.clone()))).map_err(|msg| ("panic_in_engine_process", format!("snapshot interlude: {msg}")))?;
        let first = drain(&links);
        for e in 0..tb.n_ex {
            let instruments: Vec<InstrumentAccountSnapshot<ExchangeIndex, AssetIndex, InstrumentIndex>> = (0..tb.n)
                .filter(|i| tb.ex_of[*i] == e)
                .map(|i| InstrumentAccountSnapshot {
                    instrument: InstrumentIndex(i),
                    orders: istate(&engine.state, i)
                        .orders
                        .0
                        .values()
                        .map(|o| {
                            let held = match &o.state {
                                ActiveOrderState::Open(open) => Some(open.clone()),
                                ActiveOrderState::CancelInFlight(c) => c.order.clone(),
                                ActiveOrderState::OpenInFlight(_) => None,
                            };
                            let open = Open {
                                id: held.as_ref().map(|h| h.id.clone()).unwrap_or_else(|| OrderId::new(xid(o.key.cid.0.as_str()))),
                                time_exchange: fixtures::t(4_000_000_000),
                                filled_quantity: held.map(|h| h.filled_quantity).unwrap_or(Decimal::ZERO),
                            };
                            Order { key: o.key.clone(), side: o.side, price: o.price, quantity: o.quantity, kind: o.kind, time_in_force: o.time_in_force, state: OrderState::active(open) }
                        })
                        .collect(),
                })
                .collect();
            let ev = fixtures::ev_account(e, AccountEventKind::Snapshot(AccountSnapshot { exchange: ExchangeIndex(e), balances: vec![], instruments }));
            catch(|| engine.process(ev)).map_err(|msg| ("panic_in_engine_process", format!("snapshot interlude: {msg}")))?;
        }
        let between = drain(&links);
        catch(|| engine.process(EngineEvent::Command(command))).map_err(|msg| ("panic_in_engine_process", format!("snapshot interlude: {msg}")))?;
        let second = drain(&links);
        out.checks += 1;
        if !between.cancels.is_empty() || !between.opens.is_empty() {
            return Err(("HARNESS_snapshot_triggered_requests", format!("{:?} {:?}", between.cancels, between.opens)));
        }
        if !second.cancels.is_empty() || !second.opens.is_empty() {
            return Err((
                "repeated_cancel_command_sent_requests",
                format!(
                    "CancelOrders, then a full account snapshot per exchange that still lists the tracked orders open (no cancel answered yet), then the identical command: the first delivered {} cancels, the repeat delivered {:?}",
                    first.cancels.len(),
                    second.cancels
                ),
            ));
        }
        if !first.cancels.is_empty() {
            out.cells.insert("repeated_cancel_after_account_snapshot_sends_nothing");
        }
    }

    // ---- dead-link round: the same command on the same state while ONE exchange's execution link is gone.
    // What cannot be delivered is reported as failed; everything on the healthy exchanges is requested exactly as
    // before ("exactly the tracked orders of the matching instruments" does not shrink because a sibling venue
    // is unreachable).
    if tb.n_ex >= 2 {
        let dead_ex = (0..tb.n_ex).map(|k| (n_match + k) % tb.n_ex).find(|e| Some(*e) != tb.data_only_ex).unwrap_or(0);
        let links = new_links(tb);
        links[dead_ex].set_mode(TxMode::Closed);
        let mut engine = engine_over(tb, base.clone(), &links);
        let command = if probe.close { Command::ClosePositions(filter.clone()) } else { Command::CancelOrders(filter.clone()) };
        let audit = catch(|| engine.process(EngineEvent::Command(command))).map_err(|msg| ("panic_in_engine_process", format!("dead-link round: {msg}")))?;
        let dl = drain(&links);
        out.checks += 2;
        let what = if probe.close { "ClosePositions" } else { "CancelOrders" };
        let (mut want_healthy, mut want_dead): (Vec<(usize, String)>, usize) = (vec![], 0);
        for i in (0..tb.n).filter(|i| m[*i]) {
            let st = istate(base, i);
            let items: Vec<(usize, String)> = if probe.close {
                if closable(st) { vec![(i, String::new())] } else { vec![] }
            } else {
                st.orders.0.values().filter(|o| !matches!(o.state, ActiveOrderState::CancelInFlight(_))).map(|o| (i, o.key.cid.0.to_string())).collect()
            };
            if tb.ex_of[i] == dead_ex {
                want_dead += items.len();
            } else {
                want_healthy.extend(items);
            }
        }
        want_healthy.sort();
        let mut got: Vec<(usize, String)> = if probe.close { dl.opens.iter().map(|o| (o.instr, String::new())).collect() } else { dl.cancels.iter().map(|c| (c.instr, c.cid.clone())).collect() };
        got.sort();
        if got != want_healthy {
            return Err(("requests_for_healthy_exchanges_withheld_or_changed_by_a_dead_link", format!("{what} while the link of exchange {dead_ex} is gone: delivered (instrument, id) {got:?}, expected on the healthy exchanges {want_healthy:?}")));
        }
        if dl.cancels.iter().any(|c| c.link != tb.ex_of[c.instr]) || dl.opens.iter().any(|o| o.link != tb.ex_of[o.instr]) {
            return Err(("request_delivered_to_wrong_link", format!("{what} while the link of exchange {dead_ex} is gone")));
        }
        if want_dead > 0 {
            out.cells.insert(if probe.close { "dead_link_round:close" } else { "dead_link_round:cancel" });
            let cl = claimed(&audit).map_err(|(s2, dd)| (s2, format!("dead-link round: {dd}")))?;
            if cl.errors == 0 {
                return Err(("undeliverable_request_not_reported_failed", format!("{what}: {want_dead} requests for exchange {dead_ex} (link gone) could not be delivered, the audit reports no error")));
            }
            if want_healthy.iter().any(|(i, _)| tb.ex_of[*i] > dead_ex) {
                out.cells.insert("dead_link_round:healthy_exchange_after_the_dead_one");
            }
        }
    }
    Ok(out)
}

// ---- generators --------------------------------------------------------------------------------

#[derive(Clone, Copy, PartialEq)]
enum Class {
    Tiny,
    Small,
    Large,
}

fn gen_universe(rng: &mut Rng, class: Class) -> Universe {
    let mut pool: Vec<usize> = (0..fixtures::EXCHANGES.len()).collect();
    rng.shuffle(&mut pool);
    let exchanges = [pool[0], pool[1], pool[2]];
    let mut instruments = vec![];
    for ex in 0..3 {
        let mut uls = vec![0usize, 1, 2];
        rng.shuffle(&mut uls);
        let n_ul = if class == Class::Large && rng.bool() { 3 } else { 2 };
        for ul in uls.into_iter().take(n_ul) {
            let mut kinds = vec![0usize, 1, 2];
            rng.shuffle(&mut kinds);
            let n_k = if class == Class::Large { rng.range_u(1, 3) } else { 1 };
            for kind in kinds.into_iter().take(n_k) {
                instruments.push(InstSpec { ex, ul, kind });
            }
        }
    }
    if class == Class::Small {
        // up to two further listings of an underlying already present (spot + perpetual of one underlying)
        for _ in 0..rng.range_u(0, 2) {
            let s = *rng.pick(&instruments);
            let extra = InstSpec { kind: (s.kind + 1 + rng.usize_below(2)) % 3, ..s };
            if !instruments.contains(&extra) {
                instruments.push(extra);
            }
        }
    }
    Universe { exchanges, instruments, data_only: if rng.chance(1, 3) { Some(rng.usize_below(3)) } else { None } }
}

fn qty(rng: &mut Rng) -> Decimal {
    Decimal::new(rng.range(1, 50_000), rng.range(0, 4) as u32).normalize()
}

fn px(rng: &mut Rng) -> Decimal {
    Decimal::new(rng.range(100, 9_000_000), 2).normalize()
}

fn gen_setup(rng: &mut Rng, tb: &Table) -> Vec<Ev> {
    let mut tracks: Vec<Vec<Ev>> = vec![];
    let mut next = 0u32;
    // client order ids only have to be unique per instrument (orders are tracked per instrument): in a third
    // of the cases a strategy names its orders the same way on every instrument ("q1", "q2", ...)
    let shared_ids = rng.chance(1, 3);
    for i in 0..tb.n {
        if rng.chance(1, 12) {
            continue; // untouched instrument
        }
        if Some(tb.ex_of[i]) == tb.data_only_ex {
            continue; // market-data-only exchange: no link, so no orders and no positions of ours
        }
        let mut ord = 0u32;
        // ---- orders
        // kinds: 0 in flight, 1 open, 2 partially filled, 3 open via snapshot only, 4 cancel of open (with id),
        // 5 cancel of open (request without id), 6 cancel of in-flight, 7 cancel of in-flight then confirmed,
        // 8 fully filled (gone), 9 cancelled (gone)
        let mut kinds: Vec<u64> = if rng.chance(1, 4) {
            let mut k = vec![0, if rng.bool() { 1 } else { 3 }, 2, *rng.pick(&[4, 5, 6, 7])];
            for _ in 0..rng.range_u(0, 2) {
                k.push(rng.below(10));
            }
            k
        } else {
            (0..rng.range_u(0, 4)).map(|_| rng.below(10)).collect()
        };
        rng.shuffle(&mut kinds);
        for k in kinds {
            next += 1;
            ord += 1;
            let cid = if shared_ids { format!("q{ord}") } else { format!("c{next}") };
            let buy = rng.bool();
            let (p, q) = (px(rng), qty(rng));
            let (ps, qs) = (p.to_string(), q.to_string());
            let part = {
                // strictly between 0 and q
                let f = (q * Decimal::new(rng.range(1, 9), 1)).normalize();
                if f.is_zero() || f >= q { q / Decimal::TWO } else { f }
            };
            let open = Ev::Open { i, cid: cid.clone(), buy, p: ps.clone(), q: qs.clone() };
            let confirm = |filled: Decimal| Ev::Confirm { i, cid: cid.clone(), buy, p: ps.clone(), q: qs.clone(), filled: filled.to_string(), t: 0 };
            let some_fill = |rng: &mut Rng| if rng.bool() { Decimal::ZERO } else { part };
            let track = match k {
                0 => vec![open],
                1 => vec![open, confirm(Decimal::ZERO)],
                2 => vec![open, confirm(part)],
                3 => vec![confirm(some_fill(rng))],
                4 => vec![open, confirm(some_fill(rng)), Ev::Cancel { i, cid: cid.clone(), with_id: true }],
                5 => vec![open, confirm(some_fill(rng)), Ev::Cancel { i, cid: cid.clone(), with_id: false }],
                6 => vec![open, Ev::Cancel { i, cid: cid.clone(), with_id: false }],
                7 => vec![open, Ev::Cancel { i, cid: cid.clone(), with_id: false }, confirm(some_fill(rng))],
                8 => vec![open, confirm(q)],
                _ => vec![open, confirm(some_fill(rng)), Ev::Cancel { i, cid: cid.clone(), with_id: true }, Ev::CancelAck { i, cid: cid.clone(), t: 0 }],
            };
            tracks.push(track);
        }
        // ---- position
        let fill = |rng: &mut Rng, buy: bool, q: Decimal| Ev::Fill { i, buy, p: px(rng).to_string(), q: q.to_string(), t: 0 };
        let q = qty(rng);
        match rng.below(20) {
            0..=5 => {}
            6..=10 => tracks.push(vec![fill(rng, true, q)]),
            11..=15 => tracks.push(vec![fill(rng, false, q)]),
            16 => {
                let b = rng.bool();
                tracks.push(vec![fill(rng, b, q), fill(rng, !b, q)]); // flat again
            }
            17 => {
                let b = rng.bool();
                tracks.push(vec![fill(rng, b, q + q), fill(rng, !b, q)]); // reduced
            }
            _ => {
                let b = rng.bool();
                tracks.push(vec![fill(rng, b, q), fill(rng, !b, q + q)]); // flipped
            }
        }
        // ---- price
        let mkt = |rng: &mut Rng| Ev::Mkt { i, p: rng.range(100, 9_000_000) as f64 / 100.0, t: 0 };
        let l1 = |rng: &mut Rng| {
            let mid = px(rng) + Decimal::ONE;
            let spread = Decimal::new(rng.range(1, 99), 2);
            Ev::L1 { i, bid: ((mid - spread).to_string(), qty(rng).to_string()), ask: ((mid + spread).to_string(), qty(rng).to_string()), t: 0 }
        };
        match rng.below(10) {
            0..=2 => {}
            3..=5 => tracks.push(vec![mkt(rng)]),
            6..=7 => tracks.push(vec![l1(rng)]),
            8 => tracks.push(vec![mkt(rng), l1(rng)]),
            _ => tracks.push(vec![l1(rng), mkt(rng), mkt(rng)]),
        }
    }
    // random merge preserving the order inside each track; timestamps strictly increase
    let mut evs = vec![];
    let mut heads = vec![0usize; tracks.len()];
    let mut live: Vec<usize> = (0..tracks.len()).filter(|k| !tracks[*k].is_empty()).collect();
    let mut clock = 1_000i64;
    while !live.is_empty() {
        let pick = rng.usize_below(live.len());
        let k = live[pick];
        clock += rng.range(1, 400);
        let mut ev = tracks[k][heads[k]].clone();
        ev.set_t(clock);
        evs.push(ev);
        heads[k] += 1;
        if heads[k] == tracks[k].len() {
            live.swap_remove(pick);
        }
    }
    evs
}

fn subsets_up_to(n: usize, max: usize) -> Vec<Vec<usize>> {
    let mut out = vec![];
    for a in 0..n {
        out.push(vec![a]);
        if max >= 2 {
            for b in a + 1..n {
                out.push(vec![a, b]);
                if max >= 3 {
                    for c in b + 1..n {
                        out.push(vec![a, b, c]);
                    }
                }
            }
        }
    }
    out
}

fn nonempty_subsets<T: Clone>(xs: &[T]) -> Vec<Vec<T>> {
    (1u32..(1u32 << xs.len())).map(|mask| xs.iter().enumerate().filter(|(k, _)| mask & (1 << k) != 0).map(|(_, x)| x.clone()).collect()).collect()
}

fn random_subset<T: Clone>(rng: &mut Rng, xs: &[T], max: usize) -> Vec<T> {
    let mut v: Vec<T> = xs.to_vec();
    rng.shuffle(&mut v);
    let k = rng.range_u(1, max.min(v.len()).max(1));
    v.truncate(k);
    v
}

/// Filters for one state. `exhaustive`: every subset family of the statement is enumerated
/// completely (small universes); otherwise `sample` members of each family are drawn.
fn gen_filters(rng: &mut Rng, tb: &Table, exhaustive: bool, sample: usize) -> Vec<FilterSpec> {
    let mut fs = vec![FilterSpec::None];
    let exchanges: Vec<usize> = (0..tb.n_ex).collect();
    let instruments: Vec<usize> = (0..tb.n).collect();
    let mut uls: Vec<(usize, usize)> = tb.ul_of.clone();
    uls.sort();
    uls.dedup();
    if exhaustive {
        fs.extend(nonempty_subsets(&exchanges).into_iter().map(FilterSpec::Exchanges));
        fs.extend(subsets_up_to(tb.n, 3).into_iter().map(FilterSpec::Instruments));
        fs.extend(nonempty_subsets(&uls).into_iter().map(FilterSpec::Underlyings));
    } else {
        let ex_sets = nonempty_subsets(&exchanges);
        for _ in 0..sample.min(ex_sets.len()) {
            fs.push(FilterSpec::Exchanges(rng.pick(&ex_sets).clone()));
        }
        for _ in 0..sample {
            let mut s = random_subset(rng, &instruments, 3);
            s.sort();
            fs.push(FilterSpec::Instruments(s));
        }
        for _ in 0..sample {
            let max = if rng.bool() { 2 } else { uls.len() };
            let mut s = random_subset(rng, &uls, max);
            s.sort();
            fs.push(FilterSpec::Underlyings(s));
        }
    }
    // underlyings no instrument has: reversed pair, base and quote from different exchanges, base == quote;
    // alone (matches nothing) and mixed with a listed one
    for _ in 0..if exhaustive { 4 } else { 2 } {
        let (b, q) = *rng.pick(&uls);
        let (b2, q2) = *rng.pick(&uls);
        let phantom = match rng.below(4) {
            0 => (q, b),
            1 => (b, q2),
            2 => (b, b),
            _ => (rng.usize_below(tb.n_assets), rng.usize_below(tb.n_assets)),
        };
        if uls.contains(&phantom) {
            continue;
        }
        fs.push(FilterSpec::Underlyings(if rng.bool() { vec![phantom] } else { vec![phantom, (b2, q2)] }));
    }
    // keys the engine does not track (match nothing), alone and mixed with tracked ones
    if rng.bool() {
        fs.push(FilterSpec::Exchanges(if rng.bool() { vec![tb.n_ex + rng.usize_below(3)] } else { vec![tb.n_ex + 1, rng.usize_below(tb.n_ex)] }));
    }
    if rng.bool() {
        fs.push(FilterSpec::Instruments(if rng.bool() { vec![tb.n + rng.usize_below(5)] } else { vec![rng.usize_below(tb.n), tb.n + 2] }));
    }
    // the EMPTY subset of exchanges / instruments / underlyings selects nothing (it is not "no filter")
    fs.push(FilterSpec::Exchanges(vec![]));
    fs.push(FilterSpec::Instruments(vec![]));
    fs.push(FilterSpec::Underlyings(vec![]));
    // a filter is a plain list: naming a member twice selects it once (a subset is a set)
    {
        let i = rng.usize_below(tb.n);
        let j = rng.usize_below(tb.n);
        fs.push(FilterSpec::Instruments(vec![i, j, i]));
        let e = rng.usize_below(tb.n_ex);
        fs.push(FilterSpec::Exchanges(vec![e, e]));
        let u = *rng.pick(&uls);
        fs.push(FilterSpec::Underlyings(vec![u, *rng.pick(&uls), u]));
    }
    fs
}

fn gen_probes(rng: &mut Rng, tb: &Table, exhaustive: bool, sample: usize) -> Vec<Probe> {
    let mut probes = vec![];
    for f in gen_filters(rng, tb, exhaustive, sample) {
        let single = match &f {
            FilterSpec::None => false,
            FilterSpec::Exchanges(x) => x.len() == 1,
            FilterSpec::Instruments(x) => x.len() == 1,
            FilterSpec::Underlyings(x) => x.len() == 1,
        };
        let force_many = single && rng.chance(1, 4);
        for close in [false, true] {
            probes.push(Probe { filter: f.clone(), close, force_many });
        }
    }
    probes
}

// ---- execution ---------------------------------------------------------------------------------

fn history(case: &Case, probe: &Probe) -> Value {
    json!({"universe": case.universe, "setup": case.setup, "filter": probe.filter, "command": if probe.close { "ClosePositions" } else { "CancelOrders" }, "force_many": probe.force_many})
}

/// Run one (set-up, probe) from scratch; used by shrinking and replay.
fn run_single(universe: &Universe, setup: &[Ev], probe: &Probe) -> Result<ProbeOut, V> {
    let tb = table(universe).map_err(|e| ("harness_universe", e))?;
    let (base, _) = build_state(&tb, setup)?;
    run_probe(&tb, &base, probe)
}

fn with_members(f: &FilterSpec, keep: &[usize]) -> FilterSpec {
    match f {
        FilterSpec::None => FilterSpec::None,
        FilterSpec::Exchanges(x) => FilterSpec::Exchanges(keep.iter().map(|k| x[*k]).collect()),
        FilterSpec::Instruments(x) => FilterSpec::Instruments(keep.iter().map(|k| x[*k]).collect()),
        FilterSpec::Underlyings(x) => FilterSpec::Underlyings(keep.iter().map(|k| x[*k]).collect()),
    }
}

fn members(f: &FilterSpec) -> usize {
    match f {
        FilterSpec::None => 0,
        FilterSpec::Exchanges(x) => x.len(),
        FilterSpec::Instruments(x) => x.len(),
        FilterSpec::Underlyings(x) => x.len(),
    }
}

fn report_violation(case: &Case, probe: &Probe, sig: &'static str, detail: String, report: &mut Report) {
    let fails = |setup: &[Ev], p: &Probe| matches!(run_single(&case.universe, setup, p), Err((s, _)) if s == sig);
    let small = shrink(&case.setup, |cand| fails(cand, probe));
    let idx: Vec<usize> = (0..members(&probe.filter)).collect();
    let kept = if idx.len() > 1 {
        shrink(&idx, |cand| !cand.is_empty() && fails(&small, &Probe { filter: with_members(&probe.filter, cand), ..probe.clone() }))
    } else {
        idx
    };
    let p = Probe { filter: with_members(&probe.filter, &kept), ..probe.clone() };
    let c = Case { universe: case.universe.clone(), setup: small };
    let detail = match run_single(&c.universe, &c.setup, &p) {
        Err((_, dd)) => dd,
        Ok(_) => detail,
    };
    report.violation(sig, detail, history(&c, &p));
}

// ---- builder stage: CancelOrders(None) over links assembled by the library's own ExecutionBuilder ------------

use vharness::builder_stage::{self, BuilderCase};

fn judge_builder(case: &BuilderCase) -> Result<(u64, u64, Vec<&'static str>), V> {
    let obs = builder_stage::run_builder_case(case).map_err(|e| if e.starts_with("PANIC") { ("panic_in_engine_process", e) } else { ("HARNESS_builder_stage", e) })?;
    let mut cells = vec![];
    let mut checks = 0u64;
    let ins = builder_stage::indexed(case);
    let name_of = |i: usize| ins.instruments()[i].value.name_exchange.clone();
    let mut want = 0usize;
    for (i, cid, _id, cancelling, slot, linked) in &obs.tracked_before_cancel_all {
        checks += 2;
        let hits: Vec<&(usize, fixtures::ClientCall)> = obs.cancel_all_calls.iter().filter(|(_, c)| !c.is_open && c.cid.0.as_str() == cid && c.instrument == name_of(*i)).collect();
        if *cancelling || !*linked {
            if !hits.is_empty() {
                return Err((if *cancelling { "cancel_sent_for_order_already_cancel_in_flight" } else { "request_delivered_to_wrong_link" }, format!("builder stage: order {cid} on instrument {i}: {hits:?}")));
            }
            continue;
        }
        want += 1;
        if hits.is_empty() {
            return Err(("cancel_not_sent_for_tracked_order_in_filter", format!("builder stage (links from ExecutionBuilder, {} of {} exchanges linked): CancelOrders(None) requested no cancel for tracked order {cid} on instrument {i} ({}) of {:?}; the clients received {:?}; audit (sent, errors) = {:?}", obs.n_linked, obs.n_exchanges, name_of(*i), builder_stage::LIVE[*slot], obs.cancel_all_calls.iter().map(|(x, c)| (builder_stage::LIVE[*x], c.instrument.to_string(), c.cid.0.to_string())).collect::<Vec<_>>(), obs.cancel_all_claim)));
        }
        if hits.len() > 1 {
            return Err(("cancel_sent_more_than_once", format!("builder stage: order {cid} on instrument {i}: {hits:?}")));
        }
        if hits[0].0 != *slot || hits[0].1.exchange != builder_stage::LIVE[*slot] {
            return Err(("request_delivered_to_wrong_link", format!("builder stage: the cancel of {cid} on instrument {i} ({:?}) arrived at the client of {:?} addressed to {:?}", builder_stage::LIVE[*slot], builder_stage::LIVE[hits[0].0], hits[0].1.exchange)));
        }
    }
    checks += 2;
    if obs.cancel_all_calls.len() != want {
        return Err(("cancel_set_differs_from_expected", format!("builder stage: {want} tracked orders to cancel, the clients received {:?}", obs.cancel_all_calls)));
    }
    if obs.cancel_all_claim != (want, 0) {
        return Err(("audit_sent_differs_from_delivered", format!("builder stage: audit reports (sent, errors) = {:?}, {want} cancels were due and delivered", obs.cancel_all_claim)));
    }
    if want > 0 {
        cells.push("builder:cancel_all_over_builder_links");
        if obs.gap_before_linked {
            cells.push("builder:cancel_all_with_unlinked_exchange_before_a_linked_one");
        }
    }
    Ok((obs.cancel_all_calls.len() as u64 + obs.tracked_before_cancel_all.len() as u64, checks, cells))
}

fn execute_builder(case: &BuilderCase, report: &mut Report) {
    let h = fnv1a(format!("builder{case:?}").as_bytes());
    match judge_builder(case) {
        Ok((events, checks, cells)) => {
            report.events_observed += events;
            report.oracle_checks += checks;
            let nontrivial = cells.contains(&"builder:cancel_all_with_unlinked_exchange_before_a_linked_one");
            for c in &cells {
                report.cover(c);
            }
            report.case(h, nontrivial);
        }
        Err((sig, detail)) if sig.starts_with("HARNESS_") => report.harness_errors.push(format!("{sig}: {detail}")),
        Err((sig, detail)) => {
            report.case(h, true);
            report.violation(sig, detail, json!({"builder_case": case}));
        }
    }
}

fn execute(case: &Case, probes: &[Probe], report: &mut Report) {
    let h = fnv1a(format!("{:?}{:?}", case.universe, case.setup).as_bytes());
    let tb = match table(&case.universe) {
        Ok(t) => t,
        Err(e) => {
            report.harness_errors.push(format!("universe: {e}"));
            return;
        }
    };
    let (base, steps) = match build_state(&tb, &case.setup) {
        Ok(x) => x,
        Err((sig, detail)) => {
            report.case(h, true);
            let small = shrink(&case.setup, |cand| matches!(build_state(&tb, cand), Err((s, _)) if s == sig));
            report.violation(sig, detail, json!({"universe": case.universe, "setup": small, "filter": FilterSpec::None, "command": "CancelOrders", "force_many": false}));
            return;
        }
    };
    // harness sanity: instrument states are in index order
    if (0..tb.n).any(|i| istate(&base, i).key.index() != i) {
        report.harness_errors.push("instrument state order differs from instrument index order".into());
        return;
    }
    report.events_observed += steps;
    let (mut disc_cancel, mut disc_close) = (false, false);
    for probe in probes {
        match run_probe(&tb, &base, probe) {
            Ok(out) => {
                report.events_observed += 2 + out.delivered;
                report.oracle_checks += out.checks;
                for c in &out.cells {
                    report.cover(c);
                }
                if out.discriminating {
                    if probe.close { disc_close = true } else { disc_cancel = true }
                }
            }
            Err((sig, detail)) => {
                report.case(h, true);
                report_violation(case, probe, sig, detail, report);
                return;
            }
        }
    }
    let nontrivial = case.setup.len() >= 5 && disc_cancel && disc_close;
    report.case(h, nontrivial);
    if nontrivial && case.setup.len() <= 45 {
        if let Some(p) = probes.iter().find(|p| !matches!(p.filter, FilterSpec::None)) {
            report.sample(|| history(case, p));
        }
    }
}

fn main() {
    let args = Args::parse();
    if let Some(path) = &args.replay {
        let v: Value = serde_json::from_str(&std::fs::read_to_string(path).expect("read replay")).expect("json");
        let hst = &v["history"];
        if !hst["builder_case"].is_null() {
            let case: BuilderCase = serde_json::from_value(hst["builder_case"].clone()).expect("builder case");
            let mut report = Report::new("C19");
            execute_builder(&case, &mut report);
            println!("{}", serde_json::to_string_pretty(&report.to_json()).unwrap());
            std::process::exit(if report.violation_count > 0 { 1 } else { 0 });
        }
        let case = Case { universe: serde_json::from_value(hst["universe"].clone()).expect("universe"), setup: serde_json::from_value(hst["setup"].clone()).expect("setup") };
        let probe = Probe {
            filter: serde_json::from_value(hst["filter"].clone()).expect("filter"),
            close: hst["command"].as_str() == Some("ClosePositions"),
            force_many: hst["force_many"].as_bool().unwrap_or(false),
        };
        let mut report = Report::new("C19");
        match run_single(&case.universe, &case.setup, &probe) {
            Ok(out) => {
                report.case(0, true);
                report.oracle_checks += out.checks;
                report.events_observed += case.setup.len() as u64 + 2 + out.delivered;
                for c in &out.cells {
                    report.cover(c);
                }
            }
            Err(("harness_universe", e)) => report.harness_errors.push(e),
            Err((sig, detail)) => {
                report.case(0, true);
                report.violation(sig, detail, history(&case, &probe));
            }
        }
        println!("{}", serde_json::to_string_pretty(&report.to_json()).unwrap());
        std::process::exit(if report.violation_count > 0 { 1 } else { 0 });
    }

    let miri = args.tier == "miri";
    let n_cases = match args.tier.as_str() {
        "miri" => 3,
        "tsan" => 40,
        _ => args.size(3_000, 500_000),
    };
    let n_builder = match args.tier.as_str() {
        "miri" => 1,
        "tsan" => 8,
        _ => args.size(300, 20_000),
    };
    let mut report = run_workers(&args, "C19", |w, n, rng, report| {
        for k in 0..Args::share(n_cases, w, n) {
            // half of the states are small (<= 8 instruments) and get EVERY filter; the others are
            // larger (up to 27 instruments) and get a sample
            let class = if miri { Class::Tiny } else if (k + w as u64) % 2 == 0 { Class::Small } else { Class::Large };
            let universe = gen_universe(rng, class);
            let tb = match table(&universe) {
                Ok(t) => t,
                Err(e) => {
                    report.harness_errors.push(format!("universe: {e}"));
                    continue;
                }
            };
            let setup = gen_setup(rng, &tb);
            let probes = match class {
                Class::Tiny => gen_probes(rng, &tb, false, 2),
                Class::Small => gen_probes(rng, &tb, true, 0),
                Class::Large => gen_probes(rng, &tb, false, 14),
            };
            report.info(if class == Class::Large { "probes_on_large_states" } else { "probes_on_small_states" }, probes.len() as u64);
            execute(&Case { universe, setup }, &probes, report);
        }
        for _ in 0..Args::share(n_builder, w, n) {
            let mut case = builder_stage::gen_builder_case(rng, miri);
            // keep the opens (no explicit cancels): the final cancel-all is what is judged here
            case.requests.retain(|r| r.open);
            execute_builder(&case, report);
        }
    });
    if !miri {
        report.exhaustive_blocks.push(
            "for every small state (3 exchanges x 2 underlyings, 6-8 instruments): filter None, all 7 non-empty exchange subsets, all instrument subsets of size 1-3, all non-empty subsets of the listed (exchange-specific) underlyings, each x {CancelOrders, ClosePositions} x issued twice; states themselves are random"
                .into(),
        );
        for c in [
            "filter:None",
            "filter:Exchanges:one",
            "filter:Exchanges:many",
            "filter:Instruments:one",
            "filter:Instruments:many",
            "filter:Underlyings:one",
            "filter:Underlyings:many",
            "filter:single_member_given_as_many",
            "filter_matches_nothing:cancel",
            "filter_matches_nothing:close",
            "instrument_with_all_four_order_states",
            "cancel:partially_filled_open_order",
            "cancel:open_order_with_exchange_id",
            "cancel:in_flight_order_without_exchange_id",
            "cancel_in_flight_order_skipped",
            "close:long_position",
            "close:short_position",
            "position_without_price_not_closed",
            "price_without_position",
            "same_underlying_other_exchange_not_selected:cancel",
            "same_underlying_other_exchange_not_selected:close",
            "underlying_filter_selects_spot_and_perpetual",
            "actionable_outside_filter_left_untouched:cancel",
            "actionable_outside_filter_left_untouched:close",
            "repeated_cancel_sends_nothing",
            "repeated_close_judged_by_same_rule",
            "dead_link_round:cancel",
            "direct_method_round:cancel",
            "filter:empty_subset",
            "repeated_cancel_after_account_snapshot_sends_nothing",
            "direct_method_round:close",
            "dead_link_round:close",
            "dead_link_round:healthy_exchange_after_the_dead_one",
            "builder:cancel_all_over_builder_links",
            "builder:cancel_all_with_unlinked_exchange_before_a_linked_one",
        ] {
            report.require(c);
        }
    }
    std::process::exit(report.finish(args.out.as_deref()));
}
