//! C07 — every execution request is answered exactly once (response or timeout).
//!
//! A real `ExecutionManager::new(..).run()` sits between a request channel and a response channel
//! on a current-thread tokio runtime with the clock PAUSED. Behind it a scripted `ExecutionClient`
//! answers every request after a scripted virtual delay d in {0, < T, T-1ms, T (don't care),
//! T+1ms, >> T, never} with ok / rejected / fully-filled (or, for a few marked requests, with an
//! instrument the manager does not know — those are filtered by design and not judged). Batches of
//! 1-300 opens and cancels over several instruments are submitted at scripted virtual instants so
//! that up to 300 are outstanding and completion order is a permutation of submission order.
//!
//! Oracle over the stamped response log: exactly one account event per accepted (kind, client order
//! id); it is the client's own response if d < T and the timeout failure if d > T (or never);
//! attributed to the right exchange, instrument, order id and kind; it arrives at virtual instant
//! accept + min(d, T) exactly; nothing further arrives later (a late client response after the
//! timeout must not produce a second event). A second, smaller stage repeats the exactly-once and
//! attribution checks on a 4-worker runtime with real (ms) delays.
//!
//! distinct non-trivial rule: >= 3 requests with at least one answered by the client and one by
//! the timeout; distinct = hash of the batch.

use barter::execution::{AccountStreamEvent, manager::ExecutionManager, request::ExecutionRequest};
use barter_execution::{
    AccountEvent, AccountEventKind,
    error::{ConnectivityError, OrderError},
    indexer::AccountEventIndexer,
    map::generate_execution_instrument_map,
    order::{
        OrderKey, OrderKind, TimeInForce,
        id::{ClientOrderId, StrategyId},
        request::{OrderRequestCancel, OrderRequestOpen, RequestCancel, RequestOpen},
        state::{ActiveOrderState, InactiveOrderState, OrderState},
    },
};
use barter_instrument::{
    Side,
    exchange::ExchangeId,
    index::IndexedInstruments,
    instrument::InstrumentIndex,
};
use barter_integration::channel::mpsc_unbounded;
use futures::StreamExt;
use rust_decimal::Decimal;
use serde::{Deserialize, Serialize};
use serde_json::{Value, json};
use std::{
    collections::{BTreeMap, HashMap},
    sync::Arc,
    time::Duration,
};
use vharness::{
    Args, Report, Rng,
    fixtures::{self, ClientCall, Reply, ReplyKind, ScriptClient},
    fnv1a, run_workers, shrink,
};

#[derive(Debug, Clone, Copy, Serialize, Deserialize, PartialEq, Eq, Hash)]
enum Out {
    Ok,
    Filled,
    Err,
    Alien,
    /// the venue rejects with `AssetInvalid` naming an asset outside the manager's configuration (key echoed)
    ErrAsset,
    /// the client reports the venue offline (`ConnectivityError::ExchangeOffline` naming the client's own id)
    ErrOffline,
}

#[derive(Debug, Clone, Serialize, Deserialize, PartialEq)]
struct Req {
    open: bool,
    instr: usize, // 0..3 within the managed exchange
    send_ms: u64,
    /// None = the client never answers
    delay_ms: Option<u64>,
    out: Out,
}

#[derive(Debug, Clone, Serialize, Deserialize, PartialEq)]
struct Case {
    timeout_ms: u64,
    reqs: Vec<Req>,
    multi_thread: bool,
    /// second round: after every first-round request has been resolved (and a long quiet period),
    /// the SAME (kind, client order id) is requested again, e.g. a cancel re-issued after its first
    /// attempt timed out
    #[serde(default)]
    reissue: Vec<Reissue>,
}

#[derive(Debug, Clone, Serialize, Deserialize, PartialEq)]
struct Reissue {
    of: usize,
    delay_ms: Option<u64>,
    out: Out,
}

fn instruments() -> IndexedInstruments {
    // the managed exchange (Okx) sorts AFTER BinanceSpot and BEFORE Poloniex: its indices are not 0..n and it is
    // neither the first nor the last venue listing these (shared) instrument names
    IndexedInstruments::new([
        fixtures::spot(ExchangeId::BinanceSpot, "btc", "usdt"),
        fixtures::spot(ExchangeId::Okx, "btc", "usdt"),
        fixtures::spot(ExchangeId::Poloniex, "sol", "usdt"),
        fixtures::spot(ExchangeId::BinanceSpot, "eth", "usdt"),
        fixtures::spot(ExchangeId::Okx, "eth", "usdt"),
        fixtures::spot(ExchangeId::Poloniex, "btc", "usdt"),
        fixtures::spot(ExchangeId::Okx, "sol", "usdt"),
        fixtures::spot(ExchangeId::Poloniex, "eth", "usdt"),
    ])
}

#[derive(Debug, Clone, PartialEq)]
struct Seen {
    open: bool,
    cid: String,
    exchange: usize,
    instr: usize,
    class: &'static str, // ok | filled | err | timeout | other
    at_ms: u128,
}

fn classify(ev: AccountStreamEvent, at_ms: u128) -> Option<Seen> {
    let AccountStreamEvent::Item(AccountEvent { exchange, kind }) = ev else { return None };
    match kind {
        AccountEventKind::OrderSnapshot(s) => {
            let o = s.0;
            let class = match &o.state {
                OrderState::Active(ActiveOrderState::Open(_)) => "ok",
                OrderState::Inactive(InactiveOrderState::FullyFilled) => "filled",
                OrderState::Inactive(InactiveOrderState::OpenFailed(OrderError::Connectivity(ConnectivityError::Timeout))) => "timeout",
                OrderState::Inactive(InactiveOrderState::OpenFailed(OrderError::Rejected(_))) => "err",
                OrderState::Inactive(InactiveOrderState::OpenFailed(OrderError::Connectivity(_))) => "err",
                _ => "other",
            };
            Some(Seen { open: true, cid: o.key.cid.0.to_string(), exchange: exchange.index().max(o.key.exchange.index()), instr: o.key.instrument.index(), class, at_ms })
        }
        AccountEventKind::OrderCancelled(r) => {
            let class = match &r.state {
                Ok(_) => "ok",
                Err(OrderError::Connectivity(ConnectivityError::Timeout)) => "timeout",
                Err(OrderError::Rejected(_)) => "err",
                Err(OrderError::Connectivity(_)) => "err",
            };
            Some(Seen { open: false, cid: r.key.cid.0.to_string(), exchange: exchange.index().max(r.key.exchange.index()), instr: r.key.instrument.index(), class, at_ms })
        }
        _ => Some(Seen { open: false, cid: String::new(), exchange: exchange.index(), instr: usize::MAX, class: "other", at_ms }),
    }
}

type V = (&'static str, String);

struct Outcome {
    events: u64,
    checks: u64,
    cells: Vec<&'static str>,
    by_client: u64,
    by_timeout: u64,
}

fn run(case: &Case) -> Result<Outcome, V> {
    let ins = instruments();
    let ex_id = ExchangeId::Okx;
    let ex_idx = ins.find_exchange_index(ex_id).unwrap();
    let own: Vec<InstrumentIndex> = ins.instruments().iter().filter(|i| i.value.exchange.value == ex_id).map(|i| i.key).collect();
    let map = generate_execution_instrument_map(&ins, ex_id).map_err(|e| ("execution_map_generation_failed", e.to_string()))?;
    let indexer = AccountEventIndexer::new(Arc::new(map));
    // timeout_ms == u64::MAX: the manager is configured never to give up on the client (Duration::MAX)
    let unbounded = case.timeout_ms == u64::MAX;
    let t = if unbounded { Duration::MAX } else { Duration::from_millis(case.timeout_ms) };
    let t_wait = if unbounded { Duration::ZERO } else { t };

    let cid_of = |n: usize| format!("{}{n}", if case.reqs[n].open { "o" } else { "c" });
    let mut script: HashMap<String, std::collections::VecDeque<(Option<u64>, Out)>> = HashMap::new();
    for (n, r) in case.reqs.iter().enumerate() {
        script.entry(cid_of(n)).or_default().push_back((r.delay_ms, r.out));
    }
    for r in &case.reissue {
        script.entry(cid_of(r.of)).or_default().push_back((r.delay_ms, r.out));
    }
    let script = std::sync::Mutex::new(script);
    let client = ScriptClient::new(move |call: &ClientCall| match script.lock().unwrap().get_mut(call.cid.0.as_str()).and_then(|q| q.pop_front()) {
        Some((Some(d), out)) => Reply::After(
            Duration::from_millis(d),
            match out {
                Out::Ok => ReplyKind::Ok,
                Out::Filled => ReplyKind::OkFullyFilled,
                Out::Err => ReplyKind::Err,
                Out::Alien => ReplyKind::OkUnknownInstrument,
                Out::ErrAsset => ReplyKind::ErrUnconfiguredAsset,
                Out::ErrOffline => ReplyKind::ErrExchangeOffline,
            },
        ),
        _ => Reply::Never,
    });

    let rt = if case.multi_thread {
        tokio::runtime::Builder::new_multi_thread().worker_threads(4).enable_time().build().expect("runtime")
    } else {
        tokio::runtime::Builder::new_current_thread().enable_time().start_paused(true).build().expect("runtime")
    };
    let reqs = case.reqs.clone();
    let reissue = case.reissue.clone();
    let multi = case.multi_thread;
    let (seen, calls, start, r2_start_ms): (Vec<Seen>, Vec<ClientCall>, tokio::time::Instant, u128) = rt.block_on(async {
        let (req_tx, req_rx) = mpsc_unbounded::<ExecutionRequest>();
        let (resp_tx, mut resp_rx) = mpsc_unbounded::<AccountStreamEvent>();
        let manager = ExecutionManager::new(req_rx.into_stream(), t, resp_tx, Arc::new(client.clone()), indexer);
        let handle = tokio::spawn(manager.run());
        let start = tokio::time::Instant::now();
        // collector: stamps every response with the (virtual) instant it becomes available
        let collector = tokio::spawn(async move {
            let mut seen = vec![];
            while let Some(ev) = StreamExt::next(&mut resp_rx).await {
                if let Some(s) = classify(ev, start.elapsed().as_millis()) {
                    seen.push(s);
                }
            }
            seen
        });
        // sender: submits each request at its scripted instant
        let mut order: Vec<usize> = (0..reqs.len()).collect();
        order.sort_by_key(|n| reqs[*n].send_ms);
        for n in order {
            let r = &reqs[n];
            tokio::time::sleep_until(start + Duration::from_millis(r.send_ms)).await;
            let key = OrderKey { exchange: ex_idx, instrument: own[r.instr], strategy: StrategyId::new("s"), cid: ClientOrderId::new(format!("{}{n}", if r.open { "o" } else { "c" })) };
            let req = if r.open {
                ExecutionRequest::Open(OrderRequestOpen { key, state: RequestOpen { side: Side::Buy, price: Decimal::from(10), quantity: Decimal::from(3), kind: OrderKind::Limit, time_in_force: TimeInForce::ImmediateOrCancel } })
            } else {
                ExecutionRequest::Cancel(OrderRequestCancel { key, state: RequestCancel { id: None } })
            };
            let _ = req_tx.tx.send(req);
        }
        // the property is about a RUNNING manager: wait until every request must have been answered
        // (timeout + slack), then much longer to catch late duplicates, and only then shut down
        let max_delay = reqs.iter().filter_map(|r| r.delay_ms).max().unwrap_or(0);
        let quiet = t_wait + Duration::from_millis(max_delay) + t_wait * 10 + Duration::from_millis(if multi { 300 } else { 1000 });
        tokio::time::sleep(quiet).await;
        // second round: the same (kind, client order id) again
        let r2_start_ms = start.elapsed().as_millis();
        if !reissue.is_empty() {
            for r2 in &reissue {
                let r = &reqs[r2.of];
                let key = OrderKey { exchange: ex_idx, instrument: own[r.instr], strategy: StrategyId::new("s"), cid: ClientOrderId::new(format!("{}{}", if r.open { "o" } else { "c" }, r2.of)) };
                let req = if r.open {
                    ExecutionRequest::Open(OrderRequestOpen { key, state: RequestOpen { side: Side::Buy, price: Decimal::from(10), quantity: Decimal::from(3), kind: OrderKind::Limit, time_in_force: TimeInForce::ImmediateOrCancel } })
                } else {
                    ExecutionRequest::Cancel(OrderRequestCancel { key, state: RequestCancel { id: None } })
                };
                let _ = req_tx.tx.send(req);
                tokio::time::sleep(Duration::from_millis(1)).await;
            }
            let max_delay2 = reissue.iter().filter_map(|r| r.delay_ms).max().unwrap_or(0);
            tokio::time::sleep(t_wait + Duration::from_millis(max_delay2) + t_wait * 10 + Duration::from_millis(if multi { 300 } else { 1000 })).await;
        }
        let _ = req_tx.tx.send(ExecutionRequest::Shutdown);
        let _ = tokio::time::timeout(Duration::from_secs(30), handle).await;
        drop(req_tx);
        let seen = tokio::time::timeout(Duration::from_secs(30), collector).await.ok().and_then(|r| r.ok()).unwrap_or_default();
        (seen, client.take_calls(), start, r2_start_ms)
    });
    drop(rt);

    // ---- oracle
    let mut out = Outcome { events: seen.len() as u64, checks: 0, cells: vec![if case.multi_thread { "runtime:multi_thread_real_time" } else { "runtime:paused_clock" }], by_client: 0, by_timeout: 0 };
    if calls.len() != case.reqs.len() + case.reissue.len() {
        return Err(("manager_did_not_forward_every_request_to_the_client", format!("{} requests (+{} re-issued), {} client calls", case.reqs.len(), case.reissue.len(), calls.len())));
    }
    let known: std::collections::HashSet<String> = (0..case.reqs.len()).map(|n| format!("{}{n}", if case.reqs[n].open { "o" } else { "c" })).collect();
    for s in &seen {
        out.checks += 1;
        if !known.contains(&s.cid) || s.class == "other" {
            return Err(("response_for_a_request_that_was_never_made", format!("{s:?}")));
        }
    }
    // rounds: (requests with their ids, events of that round, acceptance instants of that round)
    let mut first_call: HashMap<String, u128> = HashMap::new();
    let mut second_call: HashMap<String, u128> = HashMap::new();
    for c in &calls {
        let at = c.at.duration_since(start).as_millis();
        let cid = c.cid.0.to_string();
        if first_call.contains_key(&cid) {
            second_call.entry(cid).or_insert(at);
        } else {
            first_call.insert(cid, at);
        }
    }
    let round1: Vec<(String, Req)> = case.reqs.iter().enumerate().map(|(n, r)| (format!("{}{n}", if r.open { "o" } else { "c" }), r.clone())).collect();
    let round2: Vec<(String, Req)> = case
        .reissue
        .iter()
        .map(|r2| {
            let r = &case.reqs[r2.of];
            (format!("{}{}", if r.open { "o" } else { "c" }, r2.of), Req { open: r.open, instr: r.instr, send_ms: 0, delay_ms: r2.delay_ms, out: r2.out })
        })
        .collect();
    if !round2.is_empty() {
        out.cells.push("same_order_id_requested_again_after_resolution");
    }
    let rounds: Vec<(&str, Vec<(String, Req)>, Vec<&Seen>, &HashMap<String, u128>)> = vec![
        ("", round1, seen.iter().filter(|s| case.reissue.is_empty() || s.at_ms < r2_start_ms).collect(), &first_call),
        ("re-issued ", round2, seen.iter().filter(|s| !case.reissue.is_empty() && s.at_ms >= r2_start_ms).collect(), &second_call),
    ];
    for (round, items, seen_r, accept_at) in rounds {
    let mut per: BTreeMap<(bool, String), Vec<&Seen>> = BTreeMap::new();
    for s in seen_r {
        per.entry((s.open, s.cid.clone())).or_default().push(s);
    }
    for (n, (cid, r)) in items.iter().enumerate() {
        let cid = cid.clone();
        let n = format!("{round}{n}");
        let got = per.get(&(r.open, cid.clone())).cloned().unwrap_or_default();
        let wrong_kind = per.get(&(!r.open, cid.clone())).map(|v| v.len()).unwrap_or(0);
        out.checks += 4;
        if wrong_kind > 0 {
            return Err(("response_has_wrong_event_kind", format!("request #{n} {r:?}: answered with the {} event kind", if r.open { "cancel" } else { "open" })));
        }
        if r.out == Out::Alien && r.delay_ms.map(|d| d <= case.timeout_ms).unwrap_or(false) {
            out.cells.push("client_names_unknown_instrument(filtered)");
            continue; // filtered by design: zero events expected, not judged
        }
        if got.is_empty() {
            return Err(("request_never_answered", format!("request #{n} {r:?} (timeout {} ms): no account event", case.timeout_ms)));
        }
        if got.len() > 1 {
            return Err(("request_answered_more_than_once", format!("request #{n} {r:?} (timeout {} ms): {:?}", case.timeout_ms, got.iter().map(|s| (s.class, s.at_ms)).collect::<Vec<_>>())));
        }
        let s = got[0];
        if s.exchange != ex_idx.index() || s.instr != own[r.instr].index() {
            return Err(("response_attributed_to_wrong_exchange_or_instrument", format!("request #{n} {r:?}: event says exchange {} instrument {}, expected {} / {}", s.exchange, s.instr, ex_idx.index(), own[r.instr].index())));
        }
        let client_class = match (r.out, r.open) {
            (Out::Ok, _) | (Out::Alien, _) => "ok",
            (Out::Filled, true) => "filled",
            (Out::Filled, false) => "ok",
            (Out::Err, _) | (Out::ErrAsset, _) | (Out::ErrOffline, _) => "err",
        };
        if r.out == Out::ErrAsset && r.delay_ms.map(|d| d < case.timeout_ms).unwrap_or(false) {
            out.cells.push("client_in_time:rejection_naming_unconfigured_asset");
        }
        if r.out == Out::ErrOffline && r.delay_ms.map(|d| d < case.timeout_ms).unwrap_or(false) {
            out.cells.push("client_in_time:exchange_offline_error");
        }
        if s.class == "timeout" {
            out.by_timeout += 1;
        } else {
            out.by_client += 1;
        }
        if !case.multi_thread {
            // response-vs-timeout classification and exact virtual instants (paused clock only)
            let expect: Option<(&str, u64)> = match r.delay_ms {
                Some(d) if d < case.timeout_ms => Some((client_class, d)),
                Some(d) if d == case.timeout_ms => None, // tie: either is permitted
                _ => Some(("timeout", case.timeout_ms)),
            };
            // virtual instant at which the manager handed the request to the client (= accepted it)
            let accepted = accept_at.get(&cid).copied().unwrap_or(0);
            match expect {
                Some((class, after)) => {
                    out.checks += 2;
                    out.cells.push(match (class, r.delay_ms) {
                        ("timeout", None) => "client_never_answers->timeout",
                        ("timeout", Some(_)) => "client_late->timeout",
                        ("ok", _) => "client_in_time:ok",
                        ("filled", _) => "client_in_time:fully_filled",
                        _ => "client_in_time:rejected",
                    });
                    if r.delay_ms == Some(case.timeout_ms - 1) {
                        out.cells.push("delay_one_ms_below_timeout");
                    }
                    if case.timeout_ms == u64::MAX {
                        out.cells.push("request_timeout_unbounded:answered_by_client");
                    }
                    if case.timeout_ms.checked_add(1).is_some() && r.delay_ms == Some(case.timeout_ms + 1) {
                        out.cells.push("delay_one_ms_above_timeout");
                    }
                    if s.class != class {
                        let sig = if class == "timeout" { "late_client_response_delivered_instead_of_timeout" } else if s.class == "timeout" { "timeout_reported_although_client_answered_in_time" } else { "response_content_differs_from_client_answer" };
                        return Err((sig, format!("request #{n} {r:?} (timeout {} ms): got {:?} expected {class}", case.timeout_ms, s.class)));
                    }
                    // virtual arrival instant = accept + min(d, T)
                    let want_at = accepted + after as u128;
                    if s.at_ms != want_at {
                        return Err(("response_arrived_at_wrong_virtual_instant", format!("request #{n} {r:?} (timeout {} ms): accepted at +{} ms, event at {} ms, expected {want_at} ms", case.timeout_ms, accepted, s.at_ms)));
                    }
                }
                None => out.cells.push("delay_equals_timeout(not_judged)"),
            }
        }
        if r.open {
            out.cells.push("open_request");
        } else {
            out.cells.push("cancel_request");
        }
    }
    }
    // outstanding requests / completion order (coverage only)
    let mut outstanding_max = 0usize;
    let mut points: Vec<(u64, i32)> = vec![];
    for r in &case.reqs {
        let end = r.send_ms + r.delay_ms.unwrap_or(u64::MAX / 4).min(case.timeout_ms);
        points.push((r.send_ms, 1));
        points.push((end, -1));
    }
    points.sort();
    let mut cur = 0i32;
    for (_, d) in points {
        cur += d;
        outstanding_max = outstanding_max.max(cur.max(0) as usize);
    }
    if outstanding_max >= 50 {
        out.cells.push("50_or_more_outstanding");
    }
    let reversed = case.reqs.iter().enumerate().any(|(i, a)| case.reqs.iter().skip(i + 1).any(|b| b.send_ms >= a.send_ms && b.send_ms + b.delay_ms.unwrap_or(case.timeout_ms).min(case.timeout_ms) < a.send_ms + a.delay_ms.unwrap_or(case.timeout_ms).min(case.timeout_ms)));
    if reversed {
        out.cells.push("completion_order_differs_from_submission_order");
    }
    Ok(out)
}

fn gen_case(rng: &mut Rng, multi_thread: bool, small: bool) -> Case {
    if !multi_thread && rng.chance(1, 12) {
        // a manager that never gives up on its client (request timeout = Duration::MAX): every request is
        // answered by the client's own response, whenever it comes
        let n = if small { rng.range_u(1, 6) } else { rng.range_u(1, 40) };
        let reqs = (0..n)
            .map(|_| Req {
                open: rng.chance(3, 5),
                instr: rng.usize_below(3),
                send_ms: rng.range(0, 200) as u64,
                delay_ms: Some(*rng.pick(&[0u64, 1, 50, 5_000, 86_400_000])),
                out: *rng.pick(&[Out::Ok, Out::Ok, Out::Filled, Out::Err]),
            })
            .collect();
        return Case { timeout_ms: u64::MAX, reqs, multi_thread: false, reissue: vec![] };
    }
    if !multi_thread && !small && rng.chance(1, 40) {
        // FLOOD: several hundred requests of one kind outstanding at the same time (a strategy that re-quotes a
        // whole book at once); "independent of how many requests are outstanding"
        let timeout_ms = *rng.pick(&[1000u64, 5000]);
        let n = rng.range_u(300, 1200);
        let kind = rng.below(3);
        let reqs = (0..n)
            .map(|k| Req {
                open: match kind {
                    0 => true,
                    1 => false,
                    _ => k % 2 == 0,
                },
                instr: rng.usize_below(3),
                send_ms: rng.range(0, 2) as u64,
                delay_ms: if rng.chance(1, 50) { None } else { Some(timeout_ms - 1 - rng.range(0, 20) as u64) },
                out: *rng.pick(&[Out::Ok, Out::Ok, Out::Ok, Out::Filled, Out::Err]),
            })
            .collect();
        return Case { timeout_ms, reqs, multi_thread: false, reissue: vec![] };
    }
    let timeout_ms = if multi_thread { 60 } else { *rng.pick(&[50u64, 100, 1000, 5000]) };
    let n = if small { rng.range_u(1, 12) } else if multi_thread { rng.range_u(1, 60) } else if rng.chance(1, 4) { rng.range_u(100, 300) } else { rng.range_u(1, 60) };
    let burst = rng.chance(1, 2);
    let mut reqs = Vec::with_capacity(n);
    for _ in 0..n {
        let delay_ms = if multi_thread {
            // wide margins only: verdicts never depend on wall-clock classification there
            match rng.below(4) {
                0 => Some(0),
                1 => Some(5),
                2 => Some(400),
                _ => None,
            }
        } else {
            match rng.below(9) {
                0 => Some(0),
                1 => Some(rng.range(1, timeout_ms as i64 - 2).max(1) as u64),
                2 => Some(timeout_ms - 1),
                3 => Some(timeout_ms),
                4 => Some(timeout_ms + 1),
                5 => Some(timeout_ms * 7),
                6 => None,
                _ => Some(rng.range(0, timeout_ms as i64 * 2) as u64),
            }
        };
        let out = match rng.below(20) {
            0..=8 => Out::Ok,
            9..=12 => Out::Filled,
            13..=16 => Out::Err,
            17 => Out::ErrOffline,
            18 => Out::ErrAsset,
            _ => Out::Alien,
        };
        let send_ms = if burst { rng.range(0, 3) as u64 } else { rng.range(0, timeout_ms as i64 * 3) as u64 };
        reqs.push(Req { open: rng.chance(3, 5), instr: rng.usize_below(3), send_ms, delay_ms, out });
    }
    // re-issue some requests (same kind and client order id) after the first round is resolved;
    // favour those whose first attempt timed out
    let mut reissue = vec![];
    if !multi_thread && rng.chance(1, 2) {
        for (n, r) in reqs.iter().enumerate() {
            let timed_out = r.delay_ms.map(|d| d > timeout_ms).unwrap_or(true);
            if reissue.len() < 12 && r.out != Out::Alien && rng.chance(if timed_out { 1 } else { 0 } + 1, 6) {
                let delay_ms = match rng.below(4) {
                    0 => Some(0),
                    1 => Some(timeout_ms / 2),
                    2 => Some(timeout_ms + 1),
                    _ => None,
                };
                reissue.push(Reissue { of: n, delay_ms, out: *rng.pick(&[Out::Ok, Out::Err, Out::Filled]) });
            }
        }
    }
    Case { timeout_ms, reqs, multi_thread, reissue }
}

fn execute(case: &Case, report: &mut Report) {
    let h = fnv1a(format!("{case:?}").as_bytes());
    match run(case) {
        Ok(out) => {
            report.events_observed += out.events;
            report.oracle_checks += out.checks;
            for c in &out.cells {
                report.cover(c);
            }
            let nontrivial = case.reqs.len() >= 3 && out.by_client >= 1 && out.by_timeout >= 1;
            report.case(h, nontrivial);
            if case.reqs.len() >= 300 && !case.multi_thread {
                report.cover("flood:300_or_more_requests_outstanding_together");
            }
            if nontrivial && case.reqs.len() <= 5 {
                report.sample(|| json!({"case": case}));
            }
        }
        Err((sig, detail)) => {
            report.case(h, true);
            let small = if case.multi_thread || !case.reissue.is_empty() {
                case.reqs.clone()
            } else {
                shrink(&case.reqs, |cand| {
                    let c = Case { reqs: cand.to_vec(), ..case.clone() };
                    matches!(run(&c), Err((s, _)) if s == sig)
                })
            };
            let c = Case { reqs: small, ..case.clone() };
            let detail = match run(&c) {
                Err((_, dd)) => dd,
                Ok(_) => detail,
            };
            report.violation(sig, detail, json!({"case": c}));
        }
    }
}

// ------------------------------------------------------------------------------------------------
// Edge stage: client order ids shared between instruments (ids are only unique per instrument), several
// of them outstanding together, and client answers that fall INSIDE the last millisecond before the
// timeout (timers tick in milliseconds; the answer still arrived within the timeout).

#[derive(Debug, Clone, Serialize, Deserialize, PartialEq)]
struct EdgeReq {
    open: bool,
    instr: usize,
    cid: String,
    /// microseconds until the client answers; None = never
    delay_us: Option<u64>,
}

#[derive(Debug, Clone, Serialize, Deserialize, PartialEq)]
struct EdgeCase {
    timeout_ms: u64,
    reqs: Vec<EdgeReq>,
}

fn run_edge(case: &EdgeCase) -> Result<Outcome, V> {
    let ins = instruments();
    let ex_id = ExchangeId::Okx;
    let ex_idx = ins.find_exchange_index(ex_id).unwrap();
    let own: Vec<(InstrumentIndex, String)> = ins.instruments().iter().filter(|i| i.value.exchange.value == ex_id).map(|i| (i.key, i.value.name_exchange.name().to_string())).collect();
    let map = generate_execution_instrument_map(&ins, ex_id).map_err(|e| ("execution_map_generation_failed", e.to_string()))?;
    let indexer = AccountEventIndexer::new(Arc::new(map));
    let timeout = Duration::from_millis(case.timeout_ms);
    // the client's script is keyed by what the client sees: (kind, exchange instrument name, client order id)
    let script: HashMap<(bool, String, String), Option<u64>> = case.reqs.iter().map(|r| ((r.open, own[r.instr].1.clone(), r.cid.clone()), r.delay_us)).collect();
    let client = ScriptClient::new(move |call: &ClientCall| match script.get(&(call.is_open, call.instrument.name().to_string(), call.cid.0.to_string())) {
        Some(Some(us)) => Reply::After(Duration::from_micros(*us), ReplyKind::Ok),
        _ => Reply::Never,
    });
    let rt = tokio::runtime::Builder::new_current_thread().enable_time().start_paused(true).build().expect("runtime");
    let reqs = case.reqs.clone();
    let own_idx: Vec<InstrumentIndex> = own.iter().map(|o| o.0).collect();
    let (seen, calls): (Vec<Seen>, Vec<ClientCall>) = rt.block_on(async {
        let (req_tx, req_rx) = mpsc_unbounded::<ExecutionRequest>();
        let (resp_tx, mut resp_rx) = mpsc_unbounded::<AccountStreamEvent>();
        let manager = ExecutionManager::new(req_rx.into_stream(), timeout, resp_tx, Arc::new(client.clone()), indexer);
        let handle = tokio::spawn(manager.run());
        let start = tokio::time::Instant::now();
        let collector = tokio::spawn(async move {
            let mut seen = vec![];
            while let Some(ev) = StreamExt::next(&mut resp_rx).await {
                if let Some(s) = classify(ev, start.elapsed().as_millis()) {
                    seen.push(s);
                }
            }
            seen
        });
        for r in &reqs {
            let key = OrderKey { exchange: ex_idx, instrument: own_idx[r.instr], strategy: StrategyId::new("s"), cid: ClientOrderId::new(r.cid.as_str()) };
            let req = if r.open {
                ExecutionRequest::Open(OrderRequestOpen { key, state: RequestOpen { side: Side::Buy, price: Decimal::from(10), quantity: Decimal::from(3), kind: OrderKind::Limit, time_in_force: TimeInForce::ImmediateOrCancel } })
            } else {
                ExecutionRequest::Cancel(OrderRequestCancel { key, state: RequestCancel { id: None } })
            };
            let _ = req_tx.tx.send(req);
        }
        tokio::time::sleep(timeout * 12 + Duration::from_secs(1)).await;
        let _ = req_tx.tx.send(ExecutionRequest::Shutdown);
        let _ = tokio::time::timeout(Duration::from_secs(30), handle).await;
        drop(req_tx);
        let seen = tokio::time::timeout(Duration::from_secs(30), collector).await.ok().and_then(|r| r.ok()).unwrap_or_default();
        (seen, client.take_calls())
    });
    drop(rt);
    let mut out = Outcome { events: seen.len() as u64, checks: 0, cells: vec!["edge_stage"], by_client: 0, by_timeout: 0 };
    if calls.len() != case.reqs.len() {
        return Err(("manager_did_not_forward_every_request_to_the_client", format!("edge stage: {} requests, {} client calls", case.reqs.len(), calls.len())));
    }
    let timeout_us = case.timeout_ms * 1000;
    for (n, r) in case.reqs.iter().enumerate() {
        out.checks += 3;
        let want_instr = own_idx[r.instr].index();
        let got: Vec<&Seen> = seen.iter().filter(|s| s.open == r.open && s.cid == r.cid && s.instr == want_instr).collect();
        let shared = case.reqs.iter().filter(|o| o.open == r.open && o.cid == r.cid).count() > 1;
        if shared {
            out.cells.push("order_id_shared_between_instruments_outstanding_together");
        }
        if got.is_empty() {
            return Err(("request_never_answered", format!("edge stage request #{n} {r:?} (timeout {} ms{}): no account event for this (kind, instrument, id); events for the id: {:?}", case.timeout_ms, if shared { ", id shared with another instrument" } else { "" }, seen.iter().filter(|s| s.cid == r.cid).map(|s| (s.open, s.instr, s.class)).collect::<Vec<_>>())));
        }
        if got.len() > 1 {
            return Err(("request_answered_more_than_once", format!("edge stage request #{n} {r:?}: {:?}", got.iter().map(|s| (s.class, s.at_ms)).collect::<Vec<_>>())));
        }
        let s = got[0];
        if s.exchange != ex_idx.index() {
            return Err(("response_attributed_to_wrong_exchange_or_instrument", format!("edge stage request #{n} {r:?}: exchange {}", s.exchange)));
        }
        let want = match r.delay_us {
            Some(us) if us < timeout_us => Some("ok"),
            Some(us) if us == timeout_us => None,
            _ => Some("timeout"),
        };
        if s.class == "timeout" {
            out.by_timeout += 1;
        } else {
            out.by_client += 1;
        }
        if let Some(want) = want {
            if s.class != want {
                let sig = if want == "timeout" { "late_client_response_delivered_instead_of_timeout" } else { "timeout_reported_although_client_answered_in_time" };
                return Err((sig, format!("edge stage request #{n} {r:?} (timeout {} ms): got {:?}, the client answers after {:?} us", case.timeout_ms, s.class, r.delay_us)));
            }
            if let Some(us) = r.delay_us {
                if us < timeout_us && us > timeout_us - 1000 {
                    out.cells.push("client_answers_within_the_last_millisecond_before_the_timeout");
                }
                if us > timeout_us && us < timeout_us + 1000 {
                    out.cells.push("client_answers_within_the_first_millisecond_after_the_timeout");
                }
            }
        }
    }
    // nothing that matches no request
    for s in &seen {
        out.checks += 1;
        if !case.reqs.iter().any(|r| r.open == s.open && r.cid == s.cid && own_idx[r.instr].index() == s.instr) {
            return Err(("response_for_a_request_that_was_never_made", format!("edge stage: {s:?}")));
        }
    }
    Ok(out)
}

fn gen_edge(rng: &mut Rng) -> EdgeCase {
    let timeout_ms = *rng.pick(&[50u64, 100, 1000]);
    let t_us = timeout_ms * 1000;
    let mut reqs: Vec<EdgeReq> = vec![];
    let delays = |rng: &mut Rng| -> Option<u64> {
        match rng.below(8) {
            0 => None,
            1 => Some(t_us - 500),
            2 => Some(t_us - 100),
            3 => Some(t_us + 500),
            4 => Some(t_us - 1),
            5 => Some(rng.range(0, t_us as i64 / 2) as u64),
            6 => Some(t_us * 3),
            _ => Some(rng.range(0, 2 * t_us as i64) as u64),
        }
    };
    for g in 0..rng.range_u(1, 6) {
        let open = rng.bool();
        let cid = format!("q{g}");
        // the same id on 1-3 instruments, all outstanding together
        let mut instrs = vec![0usize, 1, 2];
        rng.shuffle(&mut instrs);
        instrs.truncate(rng.range_u(1, 3));
        for instr in instrs {
            reqs.push(EdgeReq { open, instr, cid: cid.clone(), delay_us: delays(rng) });
        }
    }
    EdgeCase { timeout_ms, reqs }
}

fn execute_edge(case: &EdgeCase, report: &mut Report) {
    let h = fnv1a(format!("edge{case:?}").as_bytes());
    match run_edge(case) {
        Ok(out) => {
            report.events_observed += out.events;
            report.oracle_checks += out.checks;
            for c in &out.cells {
                report.cover(c);
            }
            report.case(h, case.reqs.len() >= 3 && out.by_client >= 1 && out.by_timeout >= 1);
        }
        Err((sig, detail)) => {
            report.case(h, true);
            let small = shrink(&case.reqs, |cand| matches!(run_edge(&EdgeCase { reqs: cand.to_vec(), ..case.clone() }), Err((s, _)) if s == sig));
            let c = EdgeCase { reqs: small, ..case.clone() };
            let detail = match run_edge(&c) {
                Err((_, dd)) => dd,
                Ok(_) => detail,
            };
            report.violation(sig, detail, json!({"edge_case": c}));
        }
    }
}

fn main() {
    let args = Args::parse();
    if let Some(path) = &args.replay {
        let v: Value = serde_json::from_str(&std::fs::read_to_string(path).expect("read replay")).expect("json");
        let mut report = Report::new("C07");
        if !v["history"]["edge_case"].is_null() {
            let case: EdgeCase = serde_json::from_value(v["history"]["edge_case"].clone()).expect("edge case");
            execute_edge(&case, &mut report);
        } else {
            let case: Case = serde_json::from_value(v["history"]["case"].clone()).expect("case");
            execute(&case, &mut report);
        }
        println!("{}", serde_json::to_string_pretty(&report.to_json()).unwrap());
        std::process::exit(if report.violation_count > 0 { 1 } else { 0 });
    }
    let small = args.tier == "miri";
    let n_cases = match args.tier.as_str() {
        "miri" => 3,
        "tsan" => 40,
        _ => args.size(1_500, 200_000),
    };
    let n_mt = match args.tier.as_str() {
        "miri" => 0,
        "tsan" => 20,
        _ => args.size(48, 2_000),
    };
    let tsan = args.tier == "tsan";
    let n_edge = match args.tier.as_str() {
        "miri" => 1,
        "tsan" => 0,
        _ => args.size(600, 60_000),
    };
    let mut report = run_workers(&args, "C07", |w, n, rng, report| {
        if !tsan {
            for _ in 0..Args::share(n_cases, w, n) {
                execute(&gen_case(rng, false, small), report);
            }
            for _ in 0..Args::share(n_edge, w, n) {
                execute_edge(&gen_edge(rng), report);
            }
        }
        // real-time multi-thread stage: few workers drive it so the machine is not oversubscribed
        if w < 4 {
            for _ in 0..Args::share(n_mt, w, n.min(4)) {
                execute(&gen_case(rng, true, small), report);
            }
        }
    });
    if !small && !tsan {
        for c in [
            "runtime:paused_clock",
            "runtime:multi_thread_real_time",
            "client_never_answers->timeout",
            "client_late->timeout",
            "client_in_time:ok",
            "client_in_time:fully_filled",
            "client_in_time:rejected",
            "delay_one_ms_below_timeout",
            "delay_one_ms_above_timeout",
            "delay_equals_timeout(not_judged)",
            "request_timeout_unbounded:answered_by_client",
            "client_in_time:rejection_naming_unconfigured_asset",
            "client_in_time:exchange_offline_error",
            "open_request",
            "cancel_request",
            "50_or_more_outstanding",
            "flood:300_or_more_requests_outstanding_together",
            "completion_order_differs_from_submission_order",
            "client_names_unknown_instrument(filtered)",
            "same_order_id_requested_again_after_resolution",
            "order_id_shared_between_instruments_outstanding_together",
            "client_answers_within_the_last_millisecond_before_the_timeout",
            "client_answers_within_the_first_millisecond_after_the_timeout",
        ] {
            report.require(c);
        }
    }
    std::process::exit(report.finish(args.out.as_deref()));
}
