//! C20 — backtests consume their whole dataset in order and do not affect one another.
//!
//! The real `backtest()` / `run_backtests()` are run with
//!   * a harness-side `BacktestMarketData` ("gated": every stream instance gets a unique id and
//!     releases its next event only when that backtest's strategy has processed the previous one
//!     and seen its orders resolved — a delay at an existing suspension point that makes fills
//!     deterministic while leaving the interleaving BETWEEN backtests free), and
//!   * barter's own `MarketDataInMemory` (ungated),
//! a custom market event kind carrying (stream instance, sequence number, price), recording
//! `GlobalData` / `InstrumentDataState` (what the engine processed, deep-cloned per engine) and a
//! per-backtest scripted strategy (trades market orders at given sequence numbers; client order and
//! strategy ids tagged with the backtest id) that copies what its engine's state shows into a
//! per-backtest observation log on every `generate_algo_orders` call (the engine is consumed by
//! `backtest()`, so the strategy is the observation point).
//!
//! Oracles: (i) the processed market log == dataset, exactly once, in order, from ONE stream
//! instance, complete before shutdown; (ii) ownership: every order / trade / balance the engine
//! saw belongs to this backtest (tags) and the final balances satisfy the mock ledger identity over
//! the backtest's OWN fills; (iii) solo == concurrent: fills, final positions, balances, realised
//! PnL and the returned summary of each backtest are identical when it runs alone and among N
//! concurrent ones (timestamps excluded) on current-thread (paused clock) and 2/4/16-worker
//! runtimes.
//!
//! distinct non-trivial rule: a run with >= 2 concurrent backtests, >= 20 events and >= 1 fill in at
//! least two of them; distinct = hash of (dataset, parameter sets, runtime).

use barter::{
    backtest::{
        BacktestArgsConstant, BacktestArgsDynamic,
        market_data::{BacktestMarketData, MarketDataInMemory},
        run_backtests,
        summary::BacktestSummary,
    },
    engine::{
        Engine, Processor,
        state::{
            EngineState,
            instrument::{data::InstrumentDataState, filter::InstrumentFilter},
            order::in_flight_recorder::InFlightRequestRecorder,
            trading::TradingState,
        },
    },
    error::BarterError,
    risk::DefaultRiskManager,
    statistic::time::Daily,
    strategy::{
        algo::AlgoStrategy,
        close_positions::{ClosePositionsStrategy, close_open_positions_with_market_orders},
        on_disconnect::OnDisconnectStrategy,
        on_trading_disabled::OnTradingDisabled,
    },
    system::config::ExecutionConfig,
};
use barter_data::{event::MarketEvent, streams::consumer::MarketStreamEvent};
use barter_execution::{
    AccountEvent, AccountEventKind, UnindexedAccountSnapshot,
    balance::{AssetBalance, Balance},
    client::mock::MockExecutionConfig,
    order::{
        OrderKey, OrderKind, TimeInForce,
        id::{ClientOrderId, StrategyId},
        request::{OrderRequestCancel, OrderRequestOpen, RequestOpen},
    },
};
use barter_instrument::{
    Side,
    asset::{AssetIndex, name::AssetNameExchange},
    exchange::{ExchangeId, ExchangeIndex},
    index::IndexedInstruments,
    instrument::InstrumentIndex,
};
use chrono::{DateTime, Utc};
use futures::Stream;
use rust_decimal::Decimal;
use serde::{Deserialize, Serialize};
use serde_json::{Value, json};
use smol_str::SmolStr;
use std::{
    collections::{BTreeMap, HashMap},
    sync::{
        Arc, Mutex,
        atomic::{AtomicI64, AtomicU64, Ordering},
    },
    time::Duration,
};
use vharness::{Args, Report, Rng, fixtures, fnv1a, run_workers};

// ------------------------------------------------------------------------------------------------
// custom market event kind + recording state

#[derive(Debug, Clone, PartialEq)]
struct Tick {
    stream: u64,
    seq: u64,
    price: Decimal,
}

#[derive(Debug, Clone, Default, PartialEq)]
struct RecData {
    last_price: Option<Decimal>,
    trades_seen: u64,
    /// market events delivered to THIS instrument's data (not idempotent on purpose: a user's indicator
    /// state counts every delivery)
    market_seen: u64,
}

impl InstrumentDataState for RecData {
    type MarketEventKind = Tick;
    fn price(&self) -> Option<Decimal> {
        self.last_price
    }
}
impl Processor<&MarketEvent<InstrumentIndex, Tick>> for RecData {
    type Audit = ();
    fn process(&mut self, e: &MarketEvent<InstrumentIndex, Tick>) {
        self.last_price = Some(e.kind.price);
        self.market_seen += 1;
    }
}
impl Processor<&AccountEvent> for RecData {
    type Audit = ();
    fn process(&mut self, e: &AccountEvent) {
        if let AccountEventKind::Trade(_) = &e.kind {
            self.trades_seen += 1;
        }
    }
}
impl InFlightRequestRecorder for RecData {
    fn record_in_flight_cancel(&mut self, _: &OrderRequestCancel) {}
    fn record_in_flight_open(&mut self, _: &OrderRequestOpen) {}
}

#[derive(Debug, Clone, Default, PartialEq)]
struct RecGlobal {
    market: Vec<(u64, u64, usize)>, // (stream instance, seq, instrument)
    account: Vec<String>,           // tagged account items in processing order (no timestamps)
    /// per fill: (sequence number of the last market item this engine had processed when the fill arrived, or -1;
    /// the fill's exchange time in ms after t0)
    trade_times: Vec<(i64, i64)>,
}
impl Processor<&MarketEvent<InstrumentIndex, Tick>> for RecGlobal {
    type Audit = ();
    fn process(&mut self, e: &MarketEvent<InstrumentIndex, Tick>) {
        self.market.push((e.kind.stream, e.kind.seq, e.instrument.index()));
    }
}
impl Processor<&AccountEvent> for RecGlobal {
    type Audit = ();
    fn process(&mut self, e: &AccountEvent) {
        let s = match &e.kind {
            AccountEventKind::Snapshot(s) => format!("snapshot balances={}", s.balances.len()),
            AccountEventKind::BalanceSnapshot(b) => format!("balance asset={} total={}", b.0.asset.index(), b.0.balance.total.normalize()),
            AccountEventKind::OrderSnapshot(o) => {
                use barter_execution::order::state::{InactiveOrderState, OrderState};
                let state = match &o.0.state {
                    OrderState::Inactive(InactiveOrderState::FullyFilled) => "fully_filled",
                    OrderState::Inactive(InactiveOrderState::OpenFailed(_)) => "failed",
                    OrderState::Inactive(_) => "inactive",
                    OrderState::Active(_) => "active",
                };
                format!("order cid={} strategy={} state={state}", o.0.key.cid.0, o.0.key.strategy.0)
            }
            AccountEventKind::OrderCancelled(r) => format!("cancel cid={}", r.key.cid.0),
            AccountEventKind::Trade(t) => {
                let last = self.market.last().map(|m| m.1 as i64).unwrap_or(-1);
                self.trade_times.push((last, t.time_exchange.signed_duration_since(fixtures::t0()).num_milliseconds()));
                format!(
                "trade id={} oid={} strategy={} instr={} side={:?} price={} qty={} fee={}",
                t.id.0,
                t.order_id.0,
                t.strategy.0,
                t.instrument.index(),
                t.side,
                t.price.normalize(),
                t.quantity.normalize(),
                t.fees.fees.normalize()
            )
            }
        };
        self.account.push(s);
    }
}

type St = EngineState<RecGlobal, RecData>;

// ------------------------------------------------------------------------------------------------
// gates + gated market data

#[derive(Debug)]
struct StartBarrier {
    ready: std::sync::atomic::AtomicUsize,
    need: usize,
    notify: tokio::sync::Notify,
}

#[derive(Debug)]
struct Gate {
    released: AtomicI64, // highest sequence number whose processing (incl. order resolution) is complete
    notify: tokio::sync::Notify,
}

type Gates = Arc<Mutex<HashMap<u64, Arc<Gate>>>>;

fn gate_of(gates: &Gates, stream: u64) -> Arc<Gate> {
    gates.lock().unwrap().entry(stream).or_insert_with(|| Arc::new(Gate { released: AtomicI64::new(-1), notify: tokio::sync::Notify::new() })).clone()
}

#[derive(Debug, Clone)]
struct Dataset {
    /// (instrument, price), event k has exchange time t0 + (k+1) h
    events: Arc<Vec<(usize, Decimal)>>,
}

/// Exchange time between consecutive dataset entries: one hour, far more than any run lasts in wall time, so
/// the historical time a backtest has REACHED is unmistakable in the timestamps of its fills.
const SPACING_MS: i64 = 3_600_000;

/// Exchange time of dataset entry `seq` (ms after t0). Entries are one hour apart, but every seventh one is stamped
/// 90 minutes EARLIER than its place (a merged recording of several venues is in arrival order, not in exchange-time
/// order); all stamps are distinct. The historical clock never goes back for such an item.
fn stamp_ms(seq: i64) -> i64 {
    (seq + 1) * SPACING_MS - if seq >= 2 && seq % 7 == 4 { 5_400_000 } else { 0 }
}

/// The historical time a backtest has reached once it has processed entries 0..=seq (markers carry no time).
fn reached_ms(events: &[(usize, i64)], seq: i64) -> i64 {
    (0..=seq).filter(|k| events.get(*k as usize).map(|e| e.0 != MARK).unwrap_or(false)).map(stamp_ms).max().unwrap_or(0)
}

/// Dataset entries with this "instrument" are `MarketStreamEvent::Reconnecting` markers (recorded market
/// data of a live system contains them wherever the venue connection dropped).
const MARK: usize = 9;

fn market_event(stream: u64, seq: u64, instr: usize, price: Decimal) -> MarketStreamEvent<InstrumentIndex, Tick> {
    if instr == MARK {
        return MarketStreamEvent::Reconnecting(ExchangeId::BinanceSpot);
    }
    MarketStreamEvent::Item(MarketEvent {
        time_exchange: fixtures::t(stamp_ms(seq as i64)),
        time_received: fixtures::t(stamp_ms(seq as i64)),
        exchange: ExchangeId::BinanceSpot,
        instrument: InstrumentIndex(instr),
        kind: Tick { stream, seq, price },
    })
}

#[derive(Debug, Clone)]
struct GatedData {
    fault_at: Option<usize>,
    data: Dataset,
    next_stream: Arc<AtomicU64>,
    gates: Gates,
    start: Arc<StartBarrier>,
}

impl BacktestMarketData for GatedData {
    type Kind = Tick;

    async fn time_first_event(&self) -> Result<DateTime<Utc>, BarterError> {
        Ok(fixtures::t(1000))
    }

    async fn stream(&self) -> Result<impl Stream<Item = MarketStreamEvent<InstrumentIndex, Tick>> + Send + 'static, BarterError> {
        let id = self.next_stream.fetch_add(1, Ordering::SeqCst);
        let gate = gate_of(&self.gates, id);
        let events = self.data.events.clone();
        let start = self.start.clone();
        let fault_at = self.fault_at;
        Ok(futures::stream::unfold((0u64, gate, events), move |(k, gate, events)| {
          let start = start.clone();
          async move {
            if k == 0 {
                loop {
                    let notified = start.notify.notified();
                    if start.ready.load(Ordering::SeqCst) >= start.need {
                        break;
                    }
                    // re-check periodically as well: notify_waiters only wakes registered waiters
                    let _ = tokio::time::timeout(Duration::from_millis(5), notified).await;
                }
            }
            // release condition: everything before k has been processed and its orders resolved
            loop {
                let notified = gate.notify.notified();
                if gate.released.load(Ordering::SeqCst) >= k as i64 - 1 {
                    break;
                }
                notified.await;
            }
            if k as usize >= events.len() {
                return None;
            }
            if fault_at == Some(k as usize) {
                panic!("scripted data source fault at dataset index {k}");
            }
            let (instr, price) = events[k as usize];
            Some((market_event(id, k, instr, price), (k + 1, gate, events)))
          }
        }))
    }
}

// ------------------------------------------------------------------------------------------------
// per-backtest strategy = parameters + observation log

#[derive(Debug, Clone, Serialize, Deserialize, PartialEq)]
struct Params {
    /// at sequence number -> (instrument, buy?, quantity)
    trades: BTreeMap<u64, (usize, bool, i64)>,
}

#[derive(Debug, Default, Clone, PartialEq)]
struct Obs {
    market: Vec<(u64, u64, usize)>,
    account: Vec<String>,
    trade_times: Vec<(i64, i64)>,
    calls: u64,
    sent: u64,
    final_positions: Vec<Option<(String, String, String, String)>>, // (side, qty, entry, pnl_realised)
    final_balances: Vec<Option<String>>,
    orders_open_at_last_call: usize,
    /// per instrument: market events delivered to the instrument's own data state
    instrument_market_seen: Vec<u64>,
    /// bookkeeping of the strategy: sequence numbers it already traded at
    sent_marks: Vec<u64>,
    signalled_start: bool,
    /// one entry per `Reconnecting` marker the engine was fed: number of market items processed before it
    disconnects: Vec<u64>,
    /// dataset index of the last marker processed (-1: none); markers occupy dataset indices too
    last_marker_idx: i64,
    marker_seen: bool,
}

#[derive(Debug, Clone)]
struct BtStrategy {
    id: u32,
    params: Params,
    gated: bool,
    gates: Gates,
    start: Arc<StartBarrier>,
    obs: Arc<Mutex<Obs>>,
}

impl AlgoStrategy for BtStrategy {
    type State = St;

    fn generate_algo_orders(
        &self,
        state: &Self::State,
    ) -> (impl IntoIterator<Item = OrderRequestCancel<ExchangeIndex, InstrumentIndex>>, impl IntoIterator<Item = OrderRequestOpen<ExchangeIndex, InstrumentIndex>>) {
        let mut obs = self.obs.lock().unwrap();
        obs.calls += 1;
        // copy what the engine's own (deep-cloned) state has recorded since the last call
        let have = obs.market.len();
        obs.market.extend_from_slice(&state.global.market[have.min(state.global.market.len())..]);
        let have = obs.account.len();
        obs.account.extend_from_slice(&state.global.account[have.min(state.global.account.len())..]);
        let have = obs.trade_times.len();
        obs.trade_times.extend_from_slice(&state.global.trade_times[have.min(state.global.trade_times.len())..]);
        obs.final_positions = state
            .instruments
            .instruments(&InstrumentFilter::None)
            .map(|s| s.position.current.as_ref().map(|p| (format!("{:?}", p.side), p.quantity_abs.normalize().to_string(), p.price_entry_average.normalize().to_string(), p.pnl_realised.normalize().to_string())))
            .collect();
        obs.final_balances = state.assets.0.values().map(|a| a.balance.map(|b| b.value.total.normalize().to_string())).collect();
        let open_orders: usize = state.instruments.instruments(&InstrumentFilter::None).map(|s| s.orders.0.len()).sum();
        obs.orders_open_at_last_call = open_orders;
        let trades_seen: u64 = state.instruments.instruments(&InstrumentFilter::None).map(|s| s.data.trades_seen).sum();
        obs.instrument_market_seen = state.instruments.instruments(&InstrumentFilter::None).map(|s| s.data.market_seen).collect();

        let mut opens = vec![];
        // start barrier: market data starts flowing only once every engine of the run has processed
        // its initial account snapshot (otherwise whether a short backtest ever sees its balances is
        // schedule dependent even when it runs alone, and nothing could be compared)
        if self.gated && !obs.signalled_start && obs.account.iter().any(|a| a.starts_with("snapshot ")) {
            obs.signalled_start = true;
            self.start.ready.fetch_add(1, Ordering::SeqCst);
            self.start.notify.notify_waiters();
        }
        if let Some((stream, seq, _)) = state.global.market.last().copied() {
            // decide on the event just processed (each sequence number at most once)
            let marker_idx = if obs.marker_seen { obs.last_marker_idx } else { -1 };
            if let Some((instr, buy, qty)) = self.params.trades.get(&seq).filter(|_| marker_idx < seq as i64) {
                let already = obs.sent_for_seq(seq);
                let st = state.instruments.instrument_index(&InstrumentIndex(*instr));
                if !already {
                    if let Some(price) = st.data.price() {
                        obs.mark_sent(seq);
                        obs.sent += 1;
                        opens.push(OrderRequestOpen {
                            key: OrderKey { exchange: st.instrument.exchange, instrument: InstrumentIndex(*instr), strategy: StrategyId::new(format!("bt{}", self.id)), cid: ClientOrderId::new(format!("bt{}-{}", self.id, seq)) },
                            state: RequestOpen { side: if *buy { Side::Buy } else { Side::Sell }, price, quantity: Decimal::from(*qty), kind: OrderKind::Market, time_in_force: TimeInForce::ImmediateOrCancel },
                        });
                    }
                }
            }
            // gate: the event is done once nothing this strategy sent is unresolved
            let _ = trades_seen;
            if self.gated && opens.is_empty() && open_orders == 0 && obs.all_sent_resolved() {
                let gate = gate_of(&self.gates, stream);
                // a marker just processed sits at a dataset index of its own, after the last item
                gate.released.fetch_max((seq as i64).max(marker_idx), Ordering::SeqCst);
                gate.notify.notify_waiters();
                gate.notify.notify_one();
            }
        }
        (std::iter::empty(), opens)
    }
}

impl Obs {
    fn sent_for_seq(&self, seq: u64) -> bool {
        self.sent_marks.contains(&seq)
    }
    fn mark_sent(&mut self, seq: u64) {
        self.sent_marks.push(seq);
    }
    /// every order this strategy sent has been answered (one order report each) and the fill of
    /// every accepted one has been seen
    fn all_sent_resolved(&self) -> bool {
        let answered = self.account.iter().filter(|a| a.starts_with("order ")).count() as u64;
        let accepted = self.account.iter().filter(|a| a.starts_with("order ") && a.ends_with("state=fully_filled")).count() as u64;
        let trades = self.account.iter().filter(|a| a.starts_with("trade ")).count() as u64;
        answered >= self.sent && trades >= accepted
    }
}

impl ClosePositionsStrategy for BtStrategy {
    type State = St;
    fn close_positions_requests<'a>(
        &'a self,
        state: &'a Self::State,
        filter: &'a InstrumentFilter,
    ) -> (impl IntoIterator<Item = OrderRequestCancel<ExchangeIndex, InstrumentIndex>> + 'a, impl IntoIterator<Item = OrderRequestOpen<ExchangeIndex, InstrumentIndex>> + 'a)
    where
        ExchangeIndex: 'a,
        AssetIndex: 'a,
        InstrumentIndex: 'a,
    {
        static ID: std::sync::OnceLock<StrategyId> = std::sync::OnceLock::new();
        close_open_positions_with_market_orders(ID.get_or_init(|| StrategyId::new("close")), state, filter, |s| ClientOrderId::new(format!("close-{}", s.key.index())))
    }
}

impl<Clock, ExecutionTxs, Risk> OnDisconnectStrategy<Clock, St, ExecutionTxs, Risk> for BtStrategy {
    type OnDisconnect = ();
    fn on_disconnect(engine: &mut Engine<Clock, St, ExecutionTxs, Self, Risk>, _: ExchangeId) {
        // a `Reconnecting` marker of the dataset reached the engine: record WHERE in the item sequence
        let items = engine.state.global.market.len() as u64;
        let last_item = engine.state.global.market.last().map(|m| m.1 as i64).unwrap_or(-1);
        let mut obs = engine.strategy.obs.lock().unwrap();
        obs.disconnects.push(items);
        let prev = if obs.marker_seen { obs.last_marker_idx } else { -1 };
        obs.last_marker_idx = prev.max(last_item) + 1;
        obs.marker_seen = true;
    }
}
impl<Clock, State, ExecutionTxs, Risk> OnTradingDisabled<Clock, State, ExecutionTxs, Risk> for BtStrategy {
    type OnTradingDisabled = ();
    fn on_trading_disabled(_: &mut Engine<Clock, State, ExecutionTxs, Self, Risk>) {}
}

// ------------------------------------------------------------------------------------------------

const N_INSTR: usize = 2;
const INIT_USDT: i64 = 1_000_000;
const INIT_BASE: i64 = 1_000;
const FEE: &str = "0.001";

fn instruments() -> IndexedInstruments {
    IndexedInstruments::new([fixtures::spot(ExchangeId::BinanceSpot, "btc", "usdt"), fixtures::spot(ExchangeId::BinanceSpot, "eth", "usdt")])
}

fn initial_balance(asset_name: &str) -> Decimal {
    if asset_name == "usdt" { Decimal::from(INIT_USDT) } else { Decimal::from(INIT_BASE) }
}

fn constants<MD>(ins: &IndexedInstruments, market_data: MD, latency_ms: u64, signal_only: bool) -> BacktestArgsConstant<MD, Daily, St> {
    let state = EngineState::builder(ins, RecGlobal::default(), RecData::default).time_engine_start(fixtures::t0()).trading_state(TradingState::Enabled).build();
    let executions = vec![ExecutionConfig::Mock(MockExecutionConfig {
        mocked_exchange: ExchangeId::BinanceSpot,
        initial_state: UnindexedAccountSnapshot {
            exchange: ExchangeId::BinanceSpot,
            balances: ins
                .assets()
                .iter()
                .map(|a| {
                    let b = initial_balance(a.value.asset.name_internal.name().as_str());
                    AssetBalance { asset: AssetNameExchange::from(a.value.asset.name_exchange.name().as_str()), balance: Balance::new(b, b), time_exchange: fixtures::t0() }
                })
                .collect(),
            instruments: vec![],
        },
        latency_ms,
        fees_percent: Decimal::from_str_exact(FEE).unwrap(),
    })];
    let executions = if signal_only { vec![] } else { executions };
    BacktestArgsConstant { instruments: ins.clone(), executions, market_data, summary_interval: Daily, engine_state: state }
}

#[derive(Debug, Clone, PartialEq)]
struct Digest {
    fills: Vec<String>,
    positions: Vec<Option<(String, String, String, String)>>,
    balances: Vec<Option<String>>,
    summary_pnl: Vec<String>,
    summary_balance_end: Vec<Option<String>>,
}

fn digest(obs: &Obs, summary: &BacktestSummary<Daily>) -> Digest {
    Digest {
        fills: obs.account.iter().filter(|a| a.starts_with("trade ")).cloned().collect(),
        positions: obs.final_positions.clone(),
        balances: obs.final_balances.clone(),
        summary_pnl: summary.trading_summary.instruments.values().map(|t| t.pnl.normalize().to_string()).collect(),
        summary_balance_end: summary.trading_summary.assets.values().map(|a| a.balance_end.map(|b| b.total.normalize().to_string())).collect(),
    }
}

#[derive(Debug, Clone, Serialize, Deserialize, PartialEq)]
struct Case {
    events: Vec<(usize, i64)>, // (instrument, price)
    params: Vec<Params>,
    gated: bool,
    workers: usize, // 0 = current-thread + paused clock
    latency_ms: u64,
    /// gated source only: the data source dies (panics) when asked for this dataset index - a corrupt record of a
    /// lazily decoded file, say. Nothing after it can be fed; the backtest must not pass that off as a result.
    #[serde(default)]
    fault_at: Option<usize>,
    /// a SIGNAL-ONLY backtest: no execution link is configured at all (the strategy places no orders); the
    /// account side of the system then has nothing to do from the first moment on
    #[serde(default)]
    signal_only: bool,
}

type V = (&'static str, String);

struct RunOut {
    obs: Vec<Obs>,
    digests: Vec<Digest>,
    stream_ids: Vec<u64>,
    /// wall time the whole run took (the historical clock adds wall time to the last event's time)
    elapsed_ms: i64,
}

fn run_group(case: &Case, subset: &[usize]) -> Result<RunOut, V> {
    let ins = instruments();
    let dataset = Dataset { events: Arc::new(case.events.iter().map(|(i, p)| (*i, Decimal::from(*p))).collect()) };
    let gates: Gates = Default::default();
    // (no account snapshot ever arrives in a signal-only backtest: nothing to wait for)
    let start = Arc::new(StartBarrier { ready: Default::default(), need: if case.signal_only { 0 } else { subset.len() }, notify: tokio::sync::Notify::new() });
    let obs: Vec<Arc<Mutex<Obs>>> = subset.iter().map(|_| Default::default()).collect();
    let dynamics: Vec<BacktestArgsDynamic<BtStrategy, DefaultRiskManager<St>>> = subset
        .iter()
        .zip(obs.iter())
        .map(|(b, o)| BacktestArgsDynamic {
            id: SmolStr::new(format!("bt{b}")),
            risk_free_return: Decimal::ZERO,
            strategy: BtStrategy { id: *b as u32, params: case.params[*b].clone(), gated: case.gated, gates: gates.clone(), start: start.clone(), obs: o.clone() },
            risk: DefaultRiskManager::default(),
        })
        .collect();
    let rt = if case.workers == 0 {
        tokio::runtime::Builder::new_current_thread().enable_time().start_paused(true).build().expect("runtime")
    } else {
        tokio::runtime::Builder::new_multi_thread().worker_threads(case.workers).enable_time().build().expect("runtime")
    };
    let started = std::time::Instant::now();
    let watchdog = if case.workers == 0 { Duration::from_secs(36_000) } else { Duration::from_secs(120) };
    let result = rt.block_on(async {
        if case.gated {
            let md = GatedData { fault_at: case.fault_at, data: dataset.clone(), next_stream: Arc::new(AtomicU64::new(1)), gates: gates.clone(), start: start.clone() };
            tokio::time::timeout(watchdog, run_backtests(Arc::new(constants(&ins, md, case.latency_ms, case.signal_only)), dynamics)).await
        } else {
            let events: Vec<MarketStreamEvent<InstrumentIndex, Tick>> = dataset.events.iter().enumerate().map(|(k, (i, p))| market_event(0, k as u64, *i, *p)).collect();
            let md = MarketDataInMemory::new(Arc::new(events));
            tokio::time::timeout(watchdog, run_backtests(Arc::new(constants(&ins, md, case.latency_ms, case.signal_only)), dynamics)).await
        }
    });
    rt.shutdown_background();
    let elapsed_ms = started.elapsed().as_millis() as i64;
    let multi = match result {
        Err(_) => return Err(("HARNESS_watchdog", "run_backtests did not finish (gate deadlock or stuck runtime)".into())),
        Ok(Err(e)) => return Err(("run_backtests_failed", format!("{e:?}"))),
        Ok(Ok(m)) => m,
    };
    if multi.summaries.len() != subset.len() {
        return Err(("summary_count_differs_from_backtests", format!("{} summaries for {} backtests", multi.summaries.len(), subset.len())));
    }
    let obs: Vec<Obs> = obs.iter().map(|o| o.lock().unwrap().clone()).collect();
    let mut digests = vec![];
    let mut stream_ids = vec![];
    for (n, b) in subset.iter().enumerate() {
        let s = multi.summaries.iter().find(|s| s.id.as_str() == format!("bt{b}")).ok_or(("summary_missing_for_backtest", format!("bt{b}")))?;
        digests.push(digest(&obs[n], s));
        stream_ids.push(obs[n].market.first().map(|m| m.0).unwrap_or(u64::MAX));
    }
    Ok(RunOut { obs, digests, stream_ids, elapsed_ms })
}

struct Outcome {
    events: u64,
    checks: u64,
    cells: Vec<String>,
    fills_per_bt: Vec<usize>,
}

fn judge_single(case: &Case, b: usize, obs: &Obs, dg: &Digest, elapsed_ms: i64, out: &mut Outcome) -> Result<(), V> {
    let n = case.events.len();
    // (0) a backtest lives in ITS OWN historical time: a fill is stamped by this backtest's clock, ie/ with the
    // time of the last item this engine processed plus at most the wall time the run took - never with a time
    // only another backtest has reached
    for (seq, t_ms) in obs.trade_times.iter().filter(|(seq, _)| *seq >= 0) {
        out.checks += 1;
        let lag = t_ms - reached_ms(&case.events, *seq);
        if lag > elapsed_ms + 1000 || (case.gated && lag < 0) {
            return Err((
                "fill_stamped_with_a_time_this_backtest_had_not_reached",
                format!("backtest bt{b}: a fill carries exchange time t0+{t_ms} ms; the last item its engine had processed when the fill arrived is #{seq} (historical time reached: t0+{} ms) and the whole run took {elapsed_ms} ms of wall time", reached_ms(&case.events, *seq)),
            ));
        }
    }
    if obs.trade_times.iter().any(|(seq, _)| *seq >= 0) {
        out.cells.push("fill_time_within_own_historical_time".into());
    }
    out.events += obs.market.len() as u64 + obs.account.len() as u64;
    out.checks += 3;
    // (i) whole dataset, once, in order, from one stream instance
    let seqs: Vec<u64> = obs.market.iter().map(|m| m.1).collect();
    let want: Vec<u64> = (0..n as u64).filter(|k| case.events[*k as usize].0 != MARK).collect();
    if seqs != want {
        let missing: Vec<u64> = want.iter().filter(|s| !seqs.contains(s)).copied().take(8).collect();
        let dup = seqs.len() > seqs.iter().collect::<std::collections::BTreeSet<_>>().len();
        let sig = if !missing.is_empty() { "dataset_events_skipped" } else if dup { "dataset_event_processed_twice" } else { "dataset_events_out_of_order" };
        return Err((sig, format!("backtest bt{b}: engine processed {} market events of a {}-event dataset before shutdown; first missing {:?}; first processed {:?}", seqs.len(), n, missing, &seqs[..seqs.len().min(10)])));
    }
    let streams: std::collections::BTreeSet<u64> = obs.market.iter().map(|m| m.0).collect();
    if streams.len() > 1 {
        return Err(("events_of_several_stream_instances_in_one_backtest", format!("bt{b}: {streams:?}")));
    }
    for (_, k, instr) in obs.market.iter() {
        if *instr != case.events[*k as usize].0 {
            return Err(("dataset_event_content_changed", format!("bt{b}: event {k}")));
        }
    }
    // each item is delivered exactly once to the data state of ITS instrument as well
    out.checks += 1;
    let want_per_instr: Vec<u64> = (0..N_INSTR).map(|i| case.events.iter().filter(|e| e.0 == i).count() as u64).collect();
    if !obs.instrument_market_seen.is_empty() && obs.instrument_market_seen != want_per_instr {
        let sig = if obs.instrument_market_seen.iter().zip(&want_per_instr).any(|(g, w)| g > w) { "dataset_event_processed_twice" } else { "dataset_events_skipped" };
        return Err((sig, format!("backtest bt{b}: market events delivered to the instruments' data states {:?}, the dataset holds {:?} per instrument", obs.instrument_market_seen, want_per_instr)));
    }
    // reconnect markers of the dataset are events too: each must reach the engine once, in place
    out.checks += 1;
    let mut items_before = 0u64;
    let mut want_marks = vec![];
    for (i, _) in case.events.iter() {
        if *i == MARK {
            want_marks.push(items_before);
        } else {
            items_before += 1;
        }
    }
    if obs.disconnects != want_marks {
        let sig = if obs.disconnects.len() < want_marks.len() { "dataset_events_skipped" } else if obs.disconnects.len() > want_marks.len() { "dataset_event_processed_twice" } else { "dataset_events_out_of_order" };
        return Err((sig, format!("backtest bt{b}: the dataset holds {} reconnect markers after {:?} market items; the engine was fed {} after {:?} items", want_marks.len(), &want_marks[..want_marks.len().min(10)], obs.disconnects.len(), &obs.disconnects[..obs.disconnects.len().min(10)])));
    }
    if !want_marks.is_empty() {
        out.cells.push("dataset_with_reconnect_markers".into());
        if case.events.last().map(|e| e.0) == Some(MARK) {
            out.cells.push("dataset_ends_with_reconnect_marker".into());
        }
        if case.events.first().map(|e| e.0) == Some(MARK) {
            out.cells.push("dataset_begins_with_reconnect_marker".into());
        }
    }
    // (ii) ownership of everything the engine saw
    let tag = format!("strategy=bt{b}");
    let cid_tag = format!("cid=bt{b}-");
    for a in &obs.account {
        out.checks += 1;
        let foreign = (a.starts_with("trade ") && !a.contains(&format!(" {tag} "))) || (a.starts_with("order ") && !(a.contains(&cid_tag) && a.contains(&format!("{tag} "))));
        if foreign {
            return Err(("backtest_observed_another_backtests_order_or_fill", format!("bt{b} saw: {a}")));
        }
    }
    // ledger identity over the backtest's OWN scripted fills (gated runs: every scripted trade whose
    // instrument already had a price is executed, deterministically)
    if case.signal_only {
        out.checks += 1;
        if !dg.fills.is_empty() || dg.balances.iter().any(|b| b.is_some()) {
            return Err(("signal_only_backtest_observed_account_activity", format!("bt{b}: fills {:?} balances {:?}", dg.fills, dg.balances)));
        }
        out.cells.push("signal_only_backtest:whole_dataset_fed".into());
    } else if case.gated {
        out.checks += 2;
        let fee = Decimal::from_str_exact(FEE).unwrap();
        let ins = instruments();
        let mut bal: Vec<Decimal> = ins.assets().iter().map(|a| initial_balance(a.value.asset.name_internal.name().as_str())).collect();
        let asset_idx = |name: &str| ins.assets().iter().position(|a| a.value.asset.name_internal.name().as_str() == name).unwrap();
        let mut expected_fills = vec![];
        let mut last_price: [Option<Decimal>; N_INSTR] = [None; N_INSTR];
        for (k, (i, p)) in case.events.iter().enumerate() {
            if *i == MARK {
                continue;
            }
            last_price[*i] = Some(Decimal::from(*p));
            if let Some((instr, buy, qty)) = case.params[b].trades.get(&(k as u64)) {
                if let Some(price) = last_price[*instr] {
                    let q = Decimal::from(*qty);
                    let base = if *instr == 0 { "btc" } else { "eth" };
                    let (asset, need) = if *buy { (asset_idx("usdt"), price * q * (Decimal::ONE + fee)) } else { (asset_idx(base), q * (Decimal::ONE + fee)) };
                    if bal[asset] >= need {
                        bal[asset] -= need;
                        expected_fills.push(format!("trade strategy=bt{b} instr={instr} side={:?} price={} qty={} fee={}", if *buy { Side::Buy } else { Side::Sell }, price.normalize(), q.normalize(), (price * q * fee).normalize()));
                    }
                }
            }
        }
        let strip = |f: &String| -> String {
            // "trade id=.. oid=.. strategy=..." -> "trade strategy=..."
            match f.find("strategy=") {
                Some(k) => format!("trade {}", &f[k..]),
                None => f.clone(),
            }
        };
        if dg.fills.iter().map(strip).collect::<Vec<_>>() != expected_fills {
            return Err(("fills_differ_from_the_backtests_own_scripted_orders", format!("bt{b}: observed {:?} expected {:?}", dg.fills, expected_fills)));
        }
        let want_bal: Vec<Option<String>> = bal.iter().map(|x| Some(x.normalize().to_string())).collect();
        if dg.balances != want_bal {
            return Err(("final_balances_differ_from_ledger_of_own_fills", format!("bt{b}: observed {:?} expected {:?}", dg.balances, want_bal)));
        }
        if dg.summary_balance_end != want_bal {
            return Err(("summary_not_computed_from_this_backtests_engine", format!("bt{b}: summary balance_end {:?} expected {:?}", dg.summary_balance_end, want_bal)));
        }
        if obs.orders_open_at_last_call != 0 {
            return Err(("order_left_unresolved_at_end_of_gated_backtest", format!("bt{b}")));
        }
    }
    Ok(())
}

fn run_case(case: &Case) -> Result<Outcome, V> {
    let mut out = Outcome { events: 0, checks: 0, cells: vec![], fills_per_bt: vec![] };
    if let Some(k) = case.fault_at {
        // the data source dies at index k: whatever is reported must not be a summary of a partially fed dataset
        out.checks += 1;
        return match run_group(case, &[0]) {
            Err(("run_backtests_failed", _)) => {
                out.cells.push("data_source_fault:reported_as_failure".into());
                Ok(out)
            }
            Err(other) => Err(other),
            Ok(run) => {
                let fed = run.obs[0].market.len();
                let items = case.events.iter().filter(|e| e.0 != MARK).count();
                if fed < items {
                    Err(("summary_returned_although_the_dataset_was_not_fed_completely", format!("the data source died at dataset index {k}; the engine was fed {fed} of {items} market items, did not stop on a fatal error, and the backtest still returned a summary")))
                } else {
                    Err(("HARNESS_fault_not_injected", format!("fault at {k} but all {items} items were fed")))
                }
            }
        };
    }
    let all: Vec<usize> = (0..case.params.len()).collect();
    let conc = run_group(case, &all)?;
    out.cells.push(format!("runtime:{}", if case.workers == 0 { "current_thread_paused".to_string() } else { format!("multi_thread_{}", case.workers) }));
    out.cells.push(if case.gated { "market_data:gated".into() } else { "market_data:in_memory".into() });
    out.cells.push(format!("concurrent:{}", match case.params.len() { 1 => "1", 2..=7 => "2-7", 8..=31 => "8-31", 32..=999 => "32+", _ => "1000+" }));
    for (n, b) in all.iter().enumerate() {
        judge_single(case, *b, &conc.obs[n], &conc.digests[n], conc.elapsed_ms, &mut out)?;
        out.fills_per_bt.push(conc.digests[n].fills.len());
    }
    if case.gated {
        // distinct stream instances per backtest
        out.checks += 1;
        let ids: std::collections::BTreeSet<u64> = conc.stream_ids.iter().copied().collect();
        if ids.len() != all.len() && !case.events.is_empty() {
            return Err(("backtests_share_a_market_stream_instance", format!("{:?}", conc.stream_ids)));
        }
        // (iii) alone == among N  (solo runs on the paused-clock runtime)
        let solo_case = Case { workers: 0, ..case.clone() };
        let probe: Vec<usize> = if all.len() <= 4 { all.clone() } else { vec![0, all.len() / 2, all.len() - 1] };
        for b in probe {
            let solo = run_group(&solo_case, &[b])?;
            out.checks += 1;
            judge_single(&solo_case, b, &solo.obs[0], &solo.digests[0], solo.elapsed_ms, &mut out)?;
            if solo.digests[0] != conc.digests[b] {
                return Err(("result_differs_between_alone_and_concurrent", format!("bt{b}: alone {:?} vs among {} concurrent {:?}", solo.digests[0], all.len(), conc.digests[b])));
            }
            out.cells.push("solo_vs_concurrent_compared".into());
        }
    }
    Ok(out)
}

fn gen_case(rng: &mut Rng, workers: usize, gated: bool, small: bool) -> Case {
    let long = rng.chance(1, 10);
    let n = if small { rng.range_u(5, 20) } else if workers == 0 { rng.range_u(20, if long { 2000 } else { 200 }) } else { rng.range_u(20, 300) };
    let mut price = [rng.range(100, 1000), rng.range(10, 100)];
    let with_marks = rng.chance(1, 3);
    let events: Vec<(usize, i64)> = (0..n)
        .map(|k| {
            // reconnect markers: never the very first entry (the gated source learns its stream instance from
            // the first item), anywhere else incl. the last entry and back to back
            // (a dataset may also BEGIN with markers - a recording cut while the link was down; only the gated
            // source needs a first item to learn its stream instance)
            if with_marks && ((k > 0 && (rng.chance(1, 12) || (k + 1 == n && rng.chance(1, 2)))) || (k == 0 && !gated && rng.chance(1, 2))) {
                return (MARK, 0);
            }
            let i = rng.usize_below(N_INSTR);
            price[i] = (price[i] + rng.range(-5, 5)).max(1);
            (i, price[i])
        })
        .collect();
    let n_bt = if small { rng.range_u(1, 3) } else { *rng.pick(&[1usize, 2, 3, 4, 8, 16, 64]) };
    let n_bt = if workers == 0 && n > 500 { n_bt.min(4) } else { n_bt };
    let params: Vec<Params> = (0..n_bt)
        .map(|_| {
            let k = rng.range_u(0, (n / 4).max(1).min(40));
            let mut trades = BTreeMap::new();
            for _ in 0..k {
                // never at sequence number 0: the historical clock restarts its wall-time part at the first
                // event, so an order placed there can carry an exchange time OLDER than the initial account
                // snapshot and its balance update is then (legitimately, C09) ignored by the engine
                let at = 1 + rng.below(n as u64 - 1);
                let first_item = events.iter().position(|e| e.0 != MARK).unwrap_or(0) as u64;
                if events[at as usize].0 != MARK && at > first_item {
                    trades.insert(at, (rng.usize_below(N_INSTR), rng.chance(2, 3), rng.range(1, 20)));
                }
            }
            Params { trades }
        })
        .collect();
    // some gated single-runtime cases have a data source that dies part-way
    let fault_at = if gated && workers == 0 && !small && rng.chance(1, 10) {
        let first_item = events.iter().position(|e| e.0 != MARK).unwrap_or(0);
        Some(rng.range_u(first_item + 1, n - 1))
    } else {
        None
    };
    // some gated cases are signal-only backtests (no execution configured, no orders)
    let signal_only = gated && fault_at.is_none() && !small && rng.chance(1, 8);
    let params: Vec<Params> = if signal_only { params.into_iter().map(|_: Params| Params { trades: BTreeMap::new() }).collect() } else { params };
    Case { events, params, gated, workers, latency_ms: if workers == 0 { *rng.pick(&[0u64, 10, 500]) } else { *rng.pick(&[0u64, 1, 2]) }, fault_at, signal_only }
}

fn execute(case: &Case, report: &mut Report) {
    let h = fnv1a(format!("{case:?}").as_bytes());
    match run_case(case) {
        Ok(out) => {
            report.events_observed += out.events;
            report.oracle_checks += out.checks;
            for c in &out.cells {
                report.cover(c);
            }
            let nontrivial = case.params.len() >= 2 && case.events.len() >= 20 && out.fills_per_bt.iter().filter(|f| **f >= 1).count() >= 2;
            report.case(h, nontrivial);
            if out.fills_per_bt.iter().any(|f| *f >= 1) {
                report.cover("backtest_with_fills");
            }
            if nontrivial && case.events.len() <= 25 && case.params.len() <= 2 {
                report.sample(|| json!({"case": case}));
            }
        }
        Err((sig, detail)) if sig.starts_with("HARNESS_") => {
            report.harness_errors.push(format!("{sig}: {detail}"));
        }
        Err((sig, detail)) => {
            report.case(h, true);
            report.violation(sig, detail, json!({"case": case}));
        }
    }
}

fn main() {
    let args = Args::parse();
    if let Some(path) = &args.replay {
        let v: Value = serde_json::from_str(&std::fs::read_to_string(path).expect("read replay")).expect("json");
        let case: Case = serde_json::from_value(v["history"]["case"].clone()).expect("case");
        let mut report = Report::new("C20");
        // schedules vary: replay a multi-thread witness several times
        for _ in 0..if case.workers == 0 { 1 } else { 20 } {
            execute(&case, &mut report);
            if report.violation_count > 0 {
                break;
            }
        }
        println!("{}", serde_json::to_string_pretty(&report.to_json()).unwrap());
        std::process::exit(if report.violation_count > 0 { 1 } else { 0 });
    }
    let small = args.tier == "miri";
    let n_cases = match args.tier.as_str() {
        "miri" => 2,
        "tsan" => 6,
        _ => args.size(1_600, 60_000),
    };
    let tsan = args.tier == "tsan";
    let mut report = run_workers(&args, "C20", |w, n, rng, report| {
        for i in 0..Args::share(n_cases, w, n) {
            let (workers, gated) = if small {
                (0, true)
            } else if tsan {
                (4, i % 2 == 0)
            } else {
                match (i + w as u64) % 8 {
                    0 | 1 => (0, true),
                    2 => (0, false),
                    3 => (2, true),
                    4 => (4, true),
                    5 => (4, false),
                    6 => (16, true),
                    _ => (2, false),
                }
            };
            execute(&gen_case(rng, workers, gated, small), report);
        }
        // CROWDS: more than a thousand backtests over one tiny dataset (a parameter sweep); every one of them gets
        // the whole dataset and a summary of its own
        if w == 0 && !small && !tsan {
            let crowds: &[usize] = if args.tier == "thorough" { &[1025, 1101, 1537, 1799, 2049, 3001] } else { &[1101] };
            for n_bt in crowds {
                let mut case = gen_case(rng, 4, false, true);
                let proto = case.params.clone();
                case.params = (0..*n_bt).map(|k| proto[k % proto.len()].clone()).collect();
                execute(&case, report);
            }
        }
    });
    if !small && !tsan {
        for c in [
            "runtime:current_thread_paused",
            "runtime:multi_thread_2",
            "runtime:multi_thread_4",
            "runtime:multi_thread_16",
            "market_data:gated",
            "market_data:in_memory",
            "concurrent:1",
            "concurrent:2-7",
            "concurrent:8-31",
            "concurrent:32+",
            "concurrent:1000+",
            "signal_only_backtest:whole_dataset_fed",
            "solo_vs_concurrent_compared",
            "backtest_with_fills",
            "fill_time_within_own_historical_time",
            "dataset_with_reconnect_markers",
            "dataset_ends_with_reconnect_marker",
            "dataset_begins_with_reconnect_marker",
            "data_source_fault:reported_as_failure",
        ] {
            report.require(c);
        }
    }
    std::process::exit(report.finish(args.out.as_deref()));
}
