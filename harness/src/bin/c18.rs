//! C18 — reported drawdowns are the peak-to-trough declines of the value curve.
//!
//! Drives the real drawdown machinery with timed value curves whose running maxima are positive,
//! through three public entry points:
//!   (a) `DrawdownGenerator` (+ `MaxDrawdownGenerator`, `MeanDrawdownGenerator` fed with what it emits),
//!   (b) `TearSheetAssetGenerator::update_from_balance` (+ one `generate()` at the end),
//!   (c) `TearSheetGenerator::update_from_position` with `PositionExited` records whose cumulative
//!       realised PnL forms the curve (+ one `generate(..)` at the end),
//! and judges after EVERY point against an independent decomposition of the curve:
//!   running maximum (strictly higher points only) and its time; trough = lowest value seen since
//!   that maximum; a completed drawdown (peak−trough)/peak, start = time of the maximum, end = time
//!   of the first strictly higher point, is due exactly at that point and only if a value below the
//!   maximum was seen; the open decline (same depth formula, end = time of the latest point) is the
//!   current drawdown; max = a largest drawdown of the reported set; mean = average depth and
//!   average duration of the reported set. At the end `generate` is called once: the open decline
//!   joins the reported set (repeated `generate` is outside the statement and never done).
//! Observed: return values of `update`/`generate`, `generate()` of the max/mean generators after
//! every point (for (b)/(c) through the public generator fields), and the final tear sheets.
//!
//! Tolerances (u = 1e-28): a depth is one Decimal division of an exact difference: 4u(1+depth)
//! (one rounding in the code, one in the reference). Mean depth is a Decimal one-pass mean over k
//! drawdowns of depth <= X: 8u(1+X)(k+2) (derivation as in c17.rs). Mean duration is an
//! integer-millisecond one-pass mean that truncates at every step: |mean·k − Σdur| <= k(k+1)/2.
//! Values: scale <= 8, |v| <= 1e9, so peak−value is exact and a non-zero relative decline is
//! >= 1e-17 (never rounds to zero). Times: non-decreasing milliseconds (equal timestamps occur).
//!
//! Non-trivial curve (for `distinct_nontrivial`): >= 3 points, >= 2 running maxima and >= 1
//! completed drawdown. Distinct = FNV-1a over (path, points).

use barter::{
    Timed,
    engine::state::{position::PositionExited, trading::TradingState},
    statistic::{
        metric::drawdown::{Drawdown, DrawdownGenerator, max::MaxDrawdownGenerator, mean::MeanDrawdownGenerator},
        summary::{TradingSummaryGenerator, asset::TearSheetAssetGenerator, instrument::TearSheetGenerator},
        time::Daily,
    },
};
use barter_execution::{
    balance::{AssetBalance, Balance},
    trade::AssetFees,
};
use barter_instrument::{
    Side,
    asset::{AssetIndex, QuoteAsset},
    exchange::ExchangeId,
    index::IndexedInstruments,
    instrument::InstrumentIndex,
};
use barter_integration::snapshot::Snapshot;
use rust_decimal::Decimal;
use serde_json::{Value, json};
use std::str::FromStr;
use vharness::{
    Args, Report, Rng, catch,
    fixtures::{ms_of, t},
    fnv1a,
    report::LogSink,
    run_workers, shrink,
};

const N_MAX: usize = 300;

fn u() -> Decimal {
    Decimal::new(1, 28)
}
fn d(n: i64) -> Decimal {
    Decimal::from(n)
}

#[derive(Debug, Clone, PartialEq)]
struct Point {
    t: i64,
    v: Decimal,
}

/// A drawdown as (depth, start ms, end ms) — observed or expected.
#[derive(Debug, Clone, PartialEq)]
struct DD {
    value: Decimal,
    start: i64,
    end: i64,
}

impl DD {
    fn of(x: &Drawdown) -> DD {
        DD { value: x.value, start: ms_of(x.time_start), end: ms_of(x.time_end) }
    }
    fn json(x: &Option<DD>) -> Value {
        match x {
            Some(x) => json!([x.value.to_string(), x.start, x.end]),
            None => Value::Null,
        }
    }
}

type Mean = (Decimal, i64);

fn mean_json(m: &Option<Mean>) -> Value {
    match m {
        Some((v, ms)) => json!([v.to_string(), ms]),
        None => Value::Null,
    }
}

// ------------------------------------------------------------------------------------------------
// Independent reference: decomposition of the curve

#[derive(Default)]
struct Model {
    peak: Option<(Decimal, i64)>,
    trough: Option<Decimal>,
    last_t: i64,
    n_peaks: u32,
    /// reported set so far (completed drawdowns)
    set: Vec<DD>,
    sum_depth: Decimal,
    sum_dur: i128,
    max_depth: Decimal,
}

fn depth(peak: Decimal, trough: Decimal) -> Decimal {
    (peak - trough) / peak
}

impl Model {
    /// Advance by one point; returns the completed drawdown due at this point, if any.
    fn step(&mut self, p: &Point) -> Option<DD> {
        self.last_t = p.t;
        let Some((peak, t_peak)) = self.peak else {
            self.peak = Some((p.v, p.t));
            self.n_peaks = 1;
            return None;
        };
        if p.v > peak {
            let done = self.trough.take().map(|tr| DD { value: depth(peak, tr), start: t_peak, end: p.t });
            self.peak = Some((p.v, p.t));
            self.n_peaks += 1;
            if let Some(dd) = &done {
                self.push(dd.clone());
            }
            done
        } else {
            if p.v < peak && self.trough.is_none_or(|tr| p.v < tr) {
                self.trough = Some(p.v);
            }
            None
        }
    }
    fn push(&mut self, dd: DD) {
        self.sum_depth += dd.value;
        self.sum_dur += (dd.end - dd.start) as i128;
        if dd.value > self.max_depth {
            self.max_depth = dd.value;
        }
        self.set.push(dd);
    }
    fn current(&self) -> Option<DD> {
        let (peak, t_peak) = self.peak?;
        self.trough.map(|tr| DD { value: depth(peak, tr), start: t_peak, end: self.last_t })
    }
}

fn tol_depth(x: Decimal) -> Decimal {
    d(4) * u() * (Decimal::ONE + x.abs())
}
fn tol_mean_depth(k: usize, x: Decimal) -> Decimal {
    d(8) * u() * (Decimal::ONE + x.abs()) * d(k as i64 + 2)
}

type Fail = (&'static str, String);

/// One drawdown against its expectation. `what` is "completed" or "current".
fn judge_dd(what: &'static str, exp: &Option<DD>, obs: &Option<DD>) -> Result<(), Fail> {
    let sig = |completed: &'static str, current: &'static str| if what == "completed" { completed } else { current };
    match (exp, obs) {
        (None, None) => Ok(()),
        (Some(e), None) => Err((
            sig("completed_drawdown_not_reported", "current_drawdown_not_reported"),
            format!("{what} drawdown expected {e:?}, nothing reported"),
        )),
        (None, Some(o)) => Err((
            sig("spurious_completed_drawdown", "spurious_current_drawdown"),
            format!("no {what} drawdown exists at this point but {o:?} was reported"),
        )),
        (Some(e), Some(o)) => {
            let tol = tol_depth(e.value);
            if (e.value - o.value).abs() > tol {
                return Err((
                    sig("drawdown_value_mismatch", "current_drawdown_value_mismatch"),
                    format!("{what} drawdown depth {} expected (peak-trough)/peak = {} (tol {tol})", o.value, e.value),
                ));
            }
            if e.start != o.start {
                return Err((
                    sig("drawdown_start_mismatch", "current_drawdown_start_mismatch"),
                    format!("{what} drawdown starts at {} ms, the running maximum was set at {} ms", o.start, e.start),
                ));
            }
            if e.end != o.end {
                return Err((
                    sig("drawdown_end_mismatch", "current_drawdown_end_mismatch"),
                    format!("{what} drawdown ends at {} ms expected {} ms", o.end, e.end),
                ));
            }
            Ok(())
        }
    }
}

/// Max / mean over the reported set `set` (with aggregates) against the observed generators.
fn judge_aggregates(
    set: &[DD],
    extra: Option<&DD>,
    sum_depth: Decimal,
    sum_dur: i128,
    max_depth: Decimal,
    obs_max: &Option<DD>,
    obs_mean: &Option<Mean>,
) -> Result<(), Fail> {
    let k = set.len() + extra.is_some() as usize;
    let (sum_depth, sum_dur, max_depth) = match extra {
        Some(e) => (sum_depth + e.value, sum_dur + (e.end - e.start) as i128, max_depth.max(e.value)),
        None => (sum_depth, sum_dur, max_depth),
    };
    if k == 0 {
        if let Some(o) = obs_max {
            return Err(("max_drawdown_mismatch", format!("no drawdown reported yet but max drawdown is {o:?}")));
        }
        if let Some(o) = obs_mean {
            return Err(("mean_drawdown_mismatch", format!("no drawdown reported yet but mean drawdown is {o:?}")));
        }
        return Ok(());
    }
    // max: any member of the set whose depth is the largest (ties: any of them)
    let Some(o) = obs_max else {
        return Err(("max_drawdown_mismatch", format!("{k} drawdowns reported (largest depth {max_depth}) but max drawdown is None")));
    };
    let tol = tol_depth(max_depth);
    let ok = set
        .iter()
        .chain(extra)
        .any(|e| e.start == o.start && e.end == o.end && (e.value - o.value).abs() <= tol && e.value >= max_depth - d(2) * tol);
    if !ok {
        return Err((
            "max_drawdown_mismatch",
            format!("max drawdown {o:?} is not a largest member (largest depth {max_depth}) of the {k} reported drawdowns"),
        ));
    }
    // mean
    let Some((m_depth, m_ms)) = obs_mean else {
        return Err(("mean_drawdown_mismatch", format!("{k} drawdowns reported but mean drawdown is None")));
    };
    let avg = sum_depth / d(k as i64);
    let tol = tol_mean_depth(k, max_depth);
    if (avg - *m_depth).abs() > tol {
        return Err((
            "mean_drawdown_depth_mismatch",
            format!("mean drawdown depth {m_depth} but the {k} reported drawdowns average {avg} (tol {tol})"),
        ));
    }
    let kk = k as i128;
    if ((*m_ms as i128) * kk - sum_dur).abs() > kk * (kk + 1) / 2 {
        return Err((
            "mean_drawdown_duration_mismatch",
            format!("mean drawdown duration {m_ms} ms but the {k} reported drawdowns last {sum_dur} ms in total (tol {} ms on the mean)", (kk + 1) / 2),
        ));
    }
    Ok(())
}

// ------------------------------------------------------------------------------------------------
// The three systems under test

#[derive(Debug, Clone, Copy, PartialEq, Eq)]
enum Path {
    Direct,
    DirectInit,
    AssetInit,
    AssetDefault,
    Position,
    /// as `Position`, but the exits' exchange times are not in arrival order (two venues with skewed
    /// clocks feed one tear sheet): a point's time is whatever its record says
    PositionUnordered,
    /// the equity curve is one asset's balance inside a `TradingSummaryGenerator` that also tracks another
    /// exchange's asset whose snapshots are stamped an hour AHEAD (each curve is in order; the streams of two
    /// venues are not merged by time)
    SummaryAssets,
    /// as `AssetDefault` / `Position`, but a REPORT (the tear sheet's own `generate()`) is taken after every third
    /// point as well - a long-lived generator serves periodic reports; taking one must not change any later one
    AssetInterimReports,
    PositionInterimReports,
}

const PATHS: [Path; 5] = [Path::Direct, Path::DirectInit, Path::AssetInit, Path::AssetDefault, Path::Position];

impl Path {
    fn name(self) -> &'static str {
        match self {
            Path::Direct => "direct",
            Path::DirectInit => "direct_init",
            Path::AssetInit => "asset_init",
            Path::AssetDefault => "asset_default",
            Path::Position => "position",
            Path::PositionUnordered => "position_unordered_times",
            Path::SummaryAssets => "summary_with_a_second_asset_running_ahead",
            Path::AssetInterimReports => "asset_with_interim_reports",
            Path::PositionInterimReports => "position_with_interim_reports",
        }
    }
    fn parse(s: &str) -> Path {
        *PATHS.iter().chain([Path::PositionUnordered, Path::SummaryAssets, Path::AssetInterimReports, Path::PositionInterimReports].iter()).find(|p| p.name() == s).unwrap_or_else(|| panic!("unknown path {s}"))
    }
}

enum Sut {
    Direct { g: Option<DrawdownGenerator>, maxg: Option<MaxDrawdownGenerator>, meang: Option<MeanDrawdownGenerator>, init: bool },
    Asset { g: Option<TearSheetAssetGenerator>, init: bool, interim: bool },
    Position { g: Option<TearSheetGenerator>, prev: Decimal, interim: bool },
    Summary { g: Box<TradingSummaryGenerator>, other: AssetIndex, k: i64 },
}

struct StepObs {
    /// Some(x) where the return value of `update` is observable (direct paths)
    emitted: Option<Option<DD>>,
    current: Option<DD>,
    max: Option<DD>,
    mean: Option<Mean>,
    /// the tear sheet generated right after this point on the interim-report paths (the generator carries on)
    report: Option<FinalObs>,
    /// this point was handed over by `reset` (a new session starting at it) instead of an update
    reset: bool,
}

struct FinalObs {
    current: Option<DD>,
    max: Option<DD>,
    mean: Option<Mean>,
    /// last value as reported by the tear sheet (balance_end.total / pnl), if any
    last_value: Option<Decimal>,
}

fn locked(p: &Point) -> Decimal {
    (p.v.abs() * Decimal::new(6, 1)).round_dp(8)
}

fn asset_balance(p: &Point) -> AssetBalance<AssetIndex> {
    // part of the balance is locked in open orders: the equity curve is the TOTAL
    AssetBalance { asset: AssetIndex(0), balance: Balance::new(p.v, p.v - locked(p)), time_exchange: t(p.t) }
}

/// The generators are `Serialize + Deserialize` state (part of engine state and audit snapshots): a copy
/// restored from its serialised form must equal the original, and the run continues on the copy.
fn restored<T: serde::Serialize + serde::de::DeserializeOwned + PartialEq + std::fmt::Debug>(x: &T) -> T {
    let text = serde_json::to_string(x).unwrap_or_else(|e| panic!("RESTORE: does not serialise: {e}"));
    let back: T = serde_json::from_str(&text).unwrap_or_else(|e| panic!("RESTORE: does not deserialise: {e}"));
    if &back != x {
        panic!("RESTORE: the restored generator differs from the persisted one: {back:?} vs {x:?}");
    }
    back
}

fn restore_now(p: &Point) -> bool {
    p.t.rem_euclid(7) == 3
}

/// Interim-report asset path: a point with a positive value and such a time stamp starts a new session (`reset`).
fn reset_now(p: &Point) -> bool {
    p.t.rem_euclid(13) == 6 && p.v > Decimal::ZERO
}

impl Sut {
    fn new(path: Path) -> Sut {
        match path {
            Path::Direct => Sut::Direct { g: None, maxg: None, meang: None, init: false },
            Path::DirectInit => Sut::Direct { g: None, maxg: None, meang: None, init: true },
            Path::AssetInit => Sut::Asset { g: None, init: true, interim: false },
            Path::AssetDefault => Sut::Asset { g: None, init: false, interim: false },
            Path::AssetInterimReports => Sut::Asset { g: None, init: false, interim: true },
            Path::Position | Path::PositionUnordered => Sut::Position { g: None, prev: Decimal::ZERO, interim: false },
            Path::PositionInterimReports => Sut::Position { g: None, prev: Decimal::ZERO, interim: true },
            Path::SummaryAssets => {
                let ins = IndexedInstruments::new([vharness::fixtures::spot(ExchangeId::BinanceSpot, "btc", "usdt"), vharness::fixtures::spot(ExchangeId::Kraken, "eth", "usdt")]);
                let state = vharness::fixtures::default_state(&ins, TradingState::Disabled);
                let g = TradingSummaryGenerator::init(Decimal::ZERO, t(0), t(0), &state.instruments, &state.assets);
                // the asset that runs ahead: the last asset index (another exchange than asset 0)
                let other = AssetIndex(ins.assets().len() - 1);
                Sut::Summary { g: Box::new(g), other, k: 0 }
            }
        }
    }

    fn feed(&mut self, p: &Point) -> StepObs {
        match self {
            Sut::Direct { g, maxg, meang, init } => {
                let point = Timed::new(p.v, t(p.t));
                let out = match g {
                    None if *init => {
                        *g = Some(DrawdownGenerator::init(point));
                        None
                    }
                    None => {
                        let mut fresh = DrawdownGenerator::default();
                        let out = fresh.update(point);
                        *g = Some(fresh);
                        out
                    }
                    Some(tsg) => tsg.update(point),
                };
                if let Some(dd) = &out {
                    feed_max_mean(maxg, meang, dd, *init);
                }
                if restore_now(p) {
                    *g = g.as_ref().map(restored);
                    *maxg = maxg.as_ref().map(restored);
                    *meang = meang.as_ref().map(restored);
                }
                StepObs {
                    emitted: Some(out.as_ref().map(DD::of)),
                    // reading the current drawdown is a READ: it is done on the live generator after every point (as
                    // every periodic report does) and must not disturb what is reported later
                    current: g.as_mut().unwrap().generate().as_ref().map(DD::of),
                    max: maxg.as_ref().and_then(|m| m.generate()).map(|m| DD::of(&m.0)),
                    mean: meang.as_ref().and_then(|m| m.generate()).map(|m| (m.mean_drawdown, m.mean_drawdown_ms)),
                    report: None,
                    reset: false,
                }
            }
            Sut::Asset { g, init, interim } => {
                let mut reset = false;
                match g {
                    None if *init => *g = Some(TearSheetAssetGenerator::init(&Timed::new(Balance::new(p.v, p.v - locked(p)), t(p.t)))),
                    None => {
                        let mut fresh = TearSheetAssetGenerator::default();
                        fresh.update_from_balance(Snapshot(&asset_balance(p)));
                        *g = Some(fresh);
                    }
                    // a new session: the generator is reset with this point as its starting balance and carries on
                    Some(tsg) if *interim && reset_now(p) => {
                        tsg.reset(&Timed::new(Balance::new(p.v, p.v - locked(p)), t(p.t)));
                        reset = true;
                    }
                    Some(tsg) => tsg.update_from_balance(Snapshot(&asset_balance(p))),
                }
                if restore_now(p) {
                    *g = g.as_ref().map(restored);
                }
                let tsg = g.as_mut().unwrap();
                let report = (*interim && p.t.rem_euclid(3) == 1).then(|| {
                    let sheet = tsg.generate();
                    FinalObs {
                        current: sheet.drawdown.as_ref().map(DD::of),
                        max: sheet.drawdown_max.map(|m| DD::of(&m.0)),
                        mean: sheet.drawdown_mean.map(|m| (m.mean_drawdown, m.mean_drawdown_ms)),
                        last_value: sheet.balance_end.map(|b| b.total),
                    }
                });
                StepObs {
                    emitted: None,
                    current: tsg.drawdown.generate().as_ref().map(DD::of),
                    max: tsg.drawdown_max.generate().map(|m| DD::of(&m.0)),
                    mean: tsg.drawdown_mean.generate().map(|m| (m.mean_drawdown, m.mean_drawdown_ms)),
                    report,
                    reset,
                }
            }
            Sut::Summary { g, other, k } => {
                // the other venue's balance first, stamped an hour ahead of this point (its own curve is in order)
                *k += 1;
                let ahead = AssetBalance { asset: *other, balance: Balance::new(d(1000 + (*k % 7) * 10), d(1000)), time_exchange: t(p.t + 3_600_000 + *k) };
                g.update_from_balance(Snapshot(&ahead));
                g.update_from_balance(Snapshot(&asset_balance(p)));
                let tsg = g.assets.get_index_mut(0).expect("asset 0").1;
                StepObs {
                    emitted: None,
                    current: tsg.drawdown.generate().as_ref().map(DD::of),
                    max: tsg.drawdown_max.generate().map(|m| DD::of(&m.0)),
                    mean: tsg.drawdown_mean.generate().map(|m| (m.mean_drawdown, m.mean_drawdown_ms)),
                    report: None,
                    reset: false,
                }
            }
            Sut::Position { g, prev, interim } => {
                let tsg = g.get_or_insert_with(|| TearSheetGenerator::init(t(p.t - 60_000)));
                let position: PositionExited<QuoteAsset, InstrumentIndex> = PositionExited {
                    instrument: InstrumentIndex(0),
                    side: Side::Buy,
                    price_entry_average: d(100),
                    quantity_abs_max: Decimal::ONE,
                    pnl_realised: p.v - *prev,
                    fees_enter: AssetFees::quote_fees(Decimal::ZERO),
                    fees_exit: AssetFees::quote_fees(Decimal::ZERO),
                    time_enter: t(p.t - 1),
                    time_exit: t(p.t),
                    trades: vec![],
                };
                *prev = p.v;
                tsg.update_from_position(&position);
                assert_eq!(tsg.pnl_returns.pnl_raw, p.v, "harness: cumulative pnl must reproduce the curve");
                if restore_now(p) {
                    *tsg = restored(tsg);
                }
                let report = (*interim && p.t.rem_euclid(3) == 1).then(|| {
                    let sheet = tsg.generate(Decimal::ZERO, Daily);
                    FinalObs {
                        current: sheet.pnl_drawdown.as_ref().map(DD::of),
                        max: sheet.pnl_drawdown_max.map(|m| DD::of(&m.0)),
                        mean: sheet.pnl_drawdown_mean.map(|m| (m.mean_drawdown, m.mean_drawdown_ms)),
                        last_value: Some(sheet.pnl),
                    }
                });
                StepObs {
                    emitted: None,
                    current: tsg.pnl_drawdown.generate().as_ref().map(DD::of),
                    max: tsg.pnl_drawdown_max.generate().map(|m| DD::of(&m.0)),
                    mean: tsg.pnl_drawdown_mean.generate().map(|m| (m.mean_drawdown, m.mean_drawdown_ms)),
                    report,
                    reset: false,
                }
            }
        }
    }

    /// The single end-of-curve `generate`.
    fn finish(&mut self) -> FinalObs {
        match self {
            Sut::Direct { g, maxg, meang, init } => {
                let cur = g.as_mut().and_then(|g| g.generate());
                if let Some(dd) = &cur {
                    feed_max_mean(maxg, meang, dd, *init);
                }
                FinalObs {
                    current: cur.as_ref().map(DD::of),
                    max: maxg.as_ref().and_then(|m| m.generate()).map(|m| DD::of(&m.0)),
                    mean: meang.as_ref().and_then(|m| m.generate()).map(|m| (m.mean_drawdown, m.mean_drawdown_ms)),
                    last_value: None,
                }
            }
            Sut::Asset { g, .. } => {
                let sheet = g.as_mut().expect("fed at least once").generate();
                FinalObs {
                    current: sheet.drawdown.as_ref().map(DD::of),
                    max: sheet.drawdown_max.map(|m| DD::of(&m.0)),
                    mean: sheet.drawdown_mean.map(|m| (m.mean_drawdown, m.mean_drawdown_ms)),
                    last_value: sheet.balance_end.map(|b| b.total),
                }
            }
            Sut::Summary { g, .. } => {
                let summary = g.generate(Daily);
                let sheet = summary.assets.get_index(0).expect("asset 0").1;
                FinalObs {
                    current: sheet.drawdown.as_ref().map(DD::of),
                    max: sheet.drawdown_max.as_ref().map(|m| DD::of(&m.0)),
                    mean: sheet.drawdown_mean.as_ref().map(|m| (m.mean_drawdown, m.mean_drawdown_ms)),
                    last_value: sheet.balance_end.map(|b| b.total),
                }
            }
            Sut::Position { g, .. } => {
                let sheet = g.as_mut().expect("fed at least once").generate(Decimal::ZERO, Daily);
                FinalObs {
                    current: sheet.pnl_drawdown.as_ref().map(DD::of),
                    max: sheet.pnl_drawdown_max.map(|m| DD::of(&m.0)),
                    mean: sheet.pnl_drawdown_mean.map(|m| (m.mean_drawdown, m.mean_drawdown_ms)),
                    last_value: Some(sheet.pnl),
                }
            }
        }
    }
}

fn feed_max_mean(maxg: &mut Option<MaxDrawdownGenerator>, meang: &mut Option<MeanDrawdownGenerator>, dd: &Drawdown, init: bool) {
    match maxg {
        None if init => *maxg = Some(MaxDrawdownGenerator::init(dd.clone())),
        None => {
            let mut m = MaxDrawdownGenerator::default();
            m.update(dd);
            *maxg = Some(m);
        }
        Some(m) => m.update(dd),
    }
    match meang {
        None if init => *meang = Some(MeanDrawdownGenerator::init(dd.clone())),
        None => {
            let mut m = MeanDrawdownGenerator::default();
            m.update(dd);
            *meang = Some(m);
        }
        Some(m) => m.update(dd),
    }
}

// ------------------------------------------------------------------------------------------------
// Running one curve under the monitor

#[derive(Default)]
struct RunStats {
    steps: u64,
    checks: u64,
    cells: Vec<&'static str>,
    completed: u32,
    peaks: u32,
}

fn in_domain(points: &[Point]) -> bool {
    !points.is_empty() && points[0].v > Decimal::ZERO && points.windows(2).all(|w| w[0].t <= w[1].t)
}

fn in_domain_for(path: Path, points: &[Point]) -> bool {
    if path == Path::PositionUnordered { !points.is_empty() && points[0].v > Decimal::ZERO } else { in_domain(points) }
}

/// What the real code did on one curve: the observation after every point, the outputs of the
/// single end-of-curve generate, and the panic (if any) that ended the run early.
struct Observed {
    steps: Vec<StepObs>,
    fin: Option<FinalObs>,
    panic: Option<Fail>,
}

fn observe(path: Path, points: &[Point]) -> Observed {
    let mut sut = Sut::new(path);
    let mut steps = Vec::with_capacity(points.len());
    for (i, p) in points.iter().enumerate() {
        match catch(|| sut.feed(p)) {
            Ok(o) => steps.push(o),
            Err(msg) if msg.contains("harness:") => panic!("{msg}"),
            Err(msg) if msg.contains("RESTORE:") => {
                return Observed { steps, fin: None, panic: Some(("generator_changed_by_persisting_and_restoring", format!("after point #{i} {p:?}: {msg}"))) };
            }
            Err(msg) => {
                return Observed { steps, fin: None, panic: Some(("panic_in_drawdown_update", format!("point #{i} {p:?} panicked: {msg}"))) };
            }
        }
    }
    match catch(|| sut.finish()) {
        Ok(f) => Observed { steps, fin: Some(f), panic: None },
        Err(msg) => Observed { steps, fin: None, panic: Some(("panic_in_tear_sheet_generate", format!("generate at the end panicked: {msg}"))) },
    }
}

fn judge(points: &[Point], seen: &Observed, stats: &mut RunStats) -> Result<(), Fail> {
    let mut model = Model::default();

    for (i, p) in points.iter().enumerate() {
        let Some(obs) = seen.steps.get(i) else {
            return Err(seen.panic.clone().unwrap_or(("panic_in_drawdown_update", format!("no observation after point #{i}"))));
        };
        let pre_peak = model.peak;
        let pre_trough = model.trough;
        let pre_max_depth = model.max_depth;
        let pre_len = model.set.len();
        stats.steps += 1;
        if obs.reset {
            // a new session starts at this point: nothing of the earlier curve may be reported any more
            model = Model::default();
            stats.cells.push("lifecycle:reset_starts_a_new_session");
        }
        let (pre_peak, pre_trough, pre_max_depth, pre_len) = if obs.reset { (None, None, model.max_depth, 0) } else { (pre_peak, pre_trough, pre_max_depth, pre_len) };
        let exp = model.step(p);

        // WHY cells
        if i > 0 && points[i - 1].t == p.t {
            stats.cells.push("input:equal_timestamp");
        }
        if i > 0 && points[i - 1].v == p.v {
            stats.cells.push("input:equal_consecutive_values");
        }
        if p.v < Decimal::ZERO {
            stats.cells.push("input:negative_value");
        }
        if let Some((peak, _)) = pre_peak {
            if p.v > peak {
                if exp.is_some() {
                    stats.cells.push("event:recovery_above_peak_ends_drawdown");
                } else {
                    stats.cells.push("event:new_peak_without_decline");
                }
            } else if p.v == peak {
                if pre_trough.is_some() {
                    stats.cells.push("event:recovery_exactly_to_peak");
                } else {
                    stats.cells.push("event:plateau_at_peak");
                }
            } else if pre_trough.is_some_and(|tr| p.v < tr) {
                stats.cells.push("event:deeper_trough");
            } else if pre_trough.is_some() {
                stats.cells.push("event:partial_recovery_or_equal_trough");
            } else {
                stats.cells.push("event:first_decline_from_peak");
            }
        }
        if let Some(dd) = &exp {
            if pre_len > 0 {
                if dd.value > pre_max_depth {
                    stats.cells.push("agg:max_replaced");
                } else if dd.value == pre_max_depth {
                    stats.cells.push("agg:max_tie");
                } else {
                    stats.cells.push("agg:max_kept");
                }
            }
        }

        // judge
        if let Some(emitted) = &obs.emitted {
            stats.checks += 1;
            judge_dd("completed", &exp, emitted).map_err(|(s, m)| (s, format!("at point #{i} {p:?}: {m}")))?;
        }
        stats.checks += 1;
        judge_dd("current", &model.current(), &obs.current).map_err(|(s, m)| (s, format!("after point #{i} {p:?}: {m}")))?;
        stats.checks += 1;
        judge_aggregates(&model.set, None, model.sum_depth, model.sum_dur, model.max_depth, &obs.max, &obs.mean)
            .map_err(|(s, m)| (s, format!("after point #{i} {p:?}: {m}")))?;
        if model.set.len() >= 2 {
            stats.cells.push("agg:mean_of_two_or_more");
        }
        // a tear sheet generated here (the generator carries on): the report of the curve so far
        if let Some(rep) = &obs.report {
            let cur = model.current();
            stats.checks += 2;
            judge_dd("current", &cur, &rep.current).map_err(|(s, m)| (s, format!("in the report generated after point #{i} {p:?}: {m}")))?;
            judge_aggregates(&model.set, cur.as_ref(), model.sum_depth, model.sum_dur, model.max_depth, &rep.max, &rep.mean)
                .map_err(|(s, m)| (s, format!("in the report generated after point #{i} {p:?}: {m}")))?;
            if let Some(last) = rep.last_value {
                stats.checks += 1;
                if last != p.v {
                    return Err(("tear_sheet_last_value_mismatch", format!("the report generated after point #{i} {p:?} gives last value {last}")));
                }
            }
            stats.cells.push(if cur.is_some() { "interim_report:decline_in_progress" } else { "interim_report:no_decline_in_progress" });
        }
    }

    // the single end-of-curve generate
    let Some(fin) = &seen.fin else {
        return Err(seen.panic.clone().unwrap_or(("panic_in_tear_sheet_generate", "no final observation".to_string())));
    };
    let cur = model.current();
    stats.checks += 1;
    judge_dd("current", &cur, &fin.current).map_err(|(s, m)| (s, format!("at the final generate: {m}")))?;
    stats.checks += 1;
    judge_aggregates(&model.set, cur.as_ref(), model.sum_depth, model.sum_dur, model.max_depth, &fin.max, &fin.mean)
        .map_err(|(s, m)| (s, format!("at the final generate: {m}")))?;
    if let Some(last) = fin.last_value {
        stats.checks += 1;
        if last != points.last().unwrap().v {
            return Err(("tear_sheet_last_value_mismatch", format!("tear sheet reports last value {last}, curve ends at {}", points.last().unwrap().v)));
        }
    }
    stats.cells.push(if cur.is_some() { "final:open_drawdown" } else { "final:no_open_drawdown" });
    stats.cells.push(if model.set.is_empty() && cur.is_none() { "final:nothing_reported" } else { "final:something_reported" });
    if cur.as_ref().is_some_and(|c| c.value > model.max_depth) && !model.set.is_empty() {
        stats.cells.push("final:open_drawdown_is_the_max");
    }
    stats.completed = model.set.len() as u32;
    stats.peaks = model.n_peaks;
    Ok(())
}

/// Observe + judge; the observations are returned as well (they are logged whatever the verdict).
fn run_curve(path: Path, points: &[Point], stats: &mut RunStats) -> (Observed, Result<(), Fail>) {
    let seen = observe(path, points);
    let res = judge(points, &seen, stats);
    (seen, res)
}

fn log_record(path: Path, points: &[Point], seen: &Observed) -> Value {
    let mut emitted: Vec<Value> = Vec::new();
    let mut changes: Vec<Value> = Vec::new();
    let mut prev: Option<(&Option<DD>, &Option<DD>, &Option<Mean>)> = None;
    for (i, o) in seen.steps.iter().enumerate() {
        if let Some(Some(e)) = &o.emitted {
            emitted.push(json!([i, DD::json(&Some(e.clone()))]));
        }
        let now = (&o.current, &o.max, &o.mean);
        if prev != Some(now) {
            changes.push(json!({"i": i, "current": DD::json(now.0), "max": DD::json(now.1), "mean": mean_json(now.2)}));
            prev = Some(now);
        }
    }
    json!({
        "path": path.name(),
        "points": points_json(points),
        "emitted": if matches!(path, Path::Direct | Path::DirectInit) { Value::Array(emitted) } else { Value::Null },
        "changes": changes,
        "observed_steps": seen.steps.len(),
        "resets": seen.steps.iter().enumerate().filter(|(_, o)| o.reset).map(|(i, _)| i).collect::<Vec<_>>(),
        "final": seen.fin.as_ref().map(|f| json!({"current": DD::json(&f.current), "max": DD::json(&f.max), "mean": mean_json(&f.mean)})),
        "panic": seen.panic.as_ref().map(|(s, m)| json!([s, m])),
    })
}

fn points_json(points: &[Point]) -> Value {
    Value::Array(points.iter().map(|p| json!([p.t, p.v.to_string()])).collect())
}

fn points_parse(v: &Value) -> Vec<Point> {
    v.as_array()
        .expect("points")
        .iter()
        .map(|p| Point { t: p[0].as_i64().expect("t"), v: Decimal::from_str(p[1].as_str().expect("v")).expect("decimal") })
        .collect()
}

fn execute(path: Path, class: &str, points: &[Point], id: &str, report: &mut Report, log: Option<&LogSink>) {
    debug_assert!(in_domain_for(path, points));
    let mut stats = RunStats::default();
    let (seen, res) = run_curve(path, points, &mut stats);
    report.events_observed += stats.steps;
    report.oracle_checks += stats.checks;
    for c in &stats.cells {
        report.cover(c);
    }
    report.cover(&format!("path:{}", path.name()));
    report.cover(&format!("class:{class}"));
    let nontrivial = points.len() >= 3 && stats.peaks >= 2 && stats.completed >= 1;
    report.case(fnv1a(format!("{}{:?}", path.name(), points).as_bytes()), nontrivial);
    if nontrivial && (5..=10).contains(&points.len()) {
        report.sample(|| json!({"path": path.name(), "class": class, "points": points_json(points)}));
    }
    if let Some(log) = log {
        let mut rec = log_record(path, points, &seen);
        rec["id"] = json!(id);
        rec["class"] = json!(class);
        log.write(&rec);
    }
    if let Err((sig, detail)) = res {
        let small = shrink(points, |cand| {
            in_domain_for(path, cand) && matches!(run_curve(path, cand, &mut RunStats::default()).1, Err((s, _)) if s == sig)
        });
        let detail_small = match run_curve(path, &small, &mut RunStats::default()).1 {
            Err((_, dd)) => dd,
            Ok(()) => detail,
        };
        report.violation(sig, detail_small, json!({"path": path.name(), "class": class, "points": points_json(&small)}));
    }
}

// ------------------------------------------------------------------------------------------------
// Generators

const CLASSES: [&str; 11] = [
    "monotone_up",
    "monotone_down",
    "oscillating",
    "plateaus",
    "exact_recovery",
    "recover_above",
    "negative_trough",
    "small_grid",
    "wide_magnitude",
    "deepening_cycles",
    "single_point",
];

fn length(rng: &mut Rng, max_len: usize) -> usize {
    let n = match rng.below(100) {
        0..=9 => rng.range_u(2, 4),
        10..=39 => rng.range_u(5, 20),
        40..=79 => rng.range_u(21, 100),
        _ => rng.range_u(101, N_MAX),
    };
    n.min(max_len)
}

fn curve(rng: &mut Rng, class: &str, n: usize) -> Vec<Point> {
    let n = if class == "single_point" { 1 } else { n };
    let scale = rng.range(0, 8) as u32;
    let cap: i64 = 1_000_000_000 * 10i64.pow(scale); // |v| <= 1e9
    let digits = rng.range(1, 9) as u32;
    let mut m: i64 = rng.range(1, 10i64.pow(digits)).min(cap);
    if class == "small_grid" {
        m = rng.range(1, 4);
    }
    let sigma = (m / rng.range(2, 50)).max(1);
    let mut peak = m;
    let mut phase_down = rng.range(1, 6);
    let mut values: Vec<i64> = Vec::with_capacity(n);
    values.push(m);
    for _ in 1..n {
        let next = match class {
            "monotone_up" => m + rng.range(1, sigma),
            "monotone_down" => m - rng.range(0, sigma),
            "oscillating" => m + rng.range(-sigma, sigma),
            "plateaus" => {
                if rng.bool() {
                    m
                } else {
                    m + rng.range(-sigma, sigma)
                }
            }
            "exact_recovery" => {
                // fall for a few points, then return exactly to the running maximum; sometimes stay
                // there, sometimes exceed it afterwards
                if m == peak && values.len() > 1 && rng.chance(1, 3) {
                    if rng.bool() { m } else { m + rng.range(1, sigma) }
                } else if phase_down > 0 {
                    phase_down -= 1;
                    m - rng.range(1, sigma)
                } else {
                    phase_down = rng.range(1, 6);
                    peak
                }
            }
            "recover_above" => {
                if phase_down > 0 {
                    phase_down -= 1;
                    m - rng.range(0, sigma)
                } else {
                    phase_down = rng.range(1, 6);
                    peak + rng.range(1, sigma)
                }
            }
            "deepening_cycles" => {
                // every cycle falls further than the one before, then recovers just above the peak
                if phase_down > 0 {
                    phase_down -= 1;
                    m - rng.range(1, sigma) * (1 + values.len() as i64 / 8)
                } else {
                    phase_down = rng.range(1, 4);
                    peak + 1
                }
            }
            "negative_trough" => m + rng.range(-4 * m.abs().max(sigma), 2 * m.abs().max(sigma)),
            "small_grid" => rng.range(0, 4),
            "wide_magnitude" => {
                let dd = rng.range(1, 17) as u32;
                let x = rng.range(1, 10i64.pow(dd));
                if rng.chance(1, 10) { -x } else { x }
            }
            other => panic!("unknown class {other}"),
        };
        m = next.clamp(-cap, cap);
        if m > peak {
            peak = m;
        }
        values.push(m);
    }
    // times: non-decreasing, some equal
    let gap_hi = *rng.pick(&[10i64, 1_000, 86_400_000]);
    let mut time = rng.range(0, 1_000);
    values
        .into_iter()
        .enumerate()
        .map(|(i, m)| {
            if i > 0 {
                time += if rng.chance(1, 8) { 0 } else { rng.range(1, gap_hi) };
            }
            Point { t: time, v: Decimal::new(m, scale) }
        })
        .collect()
}

/// All curves of exactly `len` points over the value alphabet 1..=alpha (first value free: all are
/// positive), times 10 ms apart; striding by worker.
fn enumerate(alpha: u64, len: usize, from: u64, step: u64, mut f: impl FnMut(&[Point])) {
    let total = alpha.pow(len as u32);
    let mut idx = from;
    let mut pts: Vec<Point> = Vec::with_capacity(len);
    while idx < total {
        pts.clear();
        let mut x = idx;
        for i in 0..len {
            pts.push(Point { t: 10 * i as i64, v: d((x % alpha) as i64 + 1) });
            x /= alpha;
        }
        f(&pts);
        idx += step;
    }
}

fn replay(path: &std::path::Path) -> i32 {
    let v: Value = serde_json::from_str(&std::fs::read_to_string(path).expect("read replay")).expect("json");
    let sig = v["signature"].as_str().unwrap_or("").to_string();
    let p = Path::parse(v["history"]["path"].as_str().expect("path"));
    let points = points_parse(&v["history"]["points"]);
    if !in_domain(&points) {
        println!("history is outside the domain (first value must be positive, times non-decreasing)");
        return 0;
    }
    let mut stats = RunStats::default();
    let (seen, res) = run_curve(p, &points, &mut stats);
    println!("path {} over {} points; observed: {}", p.name(), points.len(), log_record(p, &points, &seen));
    match res {
        Ok(()) => {
            println!("all rules held; not reproduced");
            0
        }
        Err((s, detail)) => {
            println!("VIOLATION {s}: {detail}");
            if sig.is_empty() || s == sig {
                println!("reproduced");
                1
            } else {
                println!("different signature than recorded ({sig}); not reproduced");
                0
            }
        }
    }
}

fn main() {
    let args = Args::parse();
    if let Some(path) = &args.replay {
        std::process::exit(replay(path));
    }

    let small = args.tier == "miri" || args.tier == "tsan";
    // random curves; each is run through three entry points (direct, asset, position)
    let n_curves = if small { 11 } else { args.size(5_000, 2_500_000) };
    let max_len = if small { 8 } else { N_MAX };
    let (alpha, exh_len) = if small { (3u64, 3usize) } else if args.is_thorough() { (4, 8) } else { (4, 6) };
    // log a strided subset of the random curves (<= ~1500 curves = 4500 runs) plus the short exhaustive ones
    let log_stride = n_curves.div_ceil(1_500).max(1);
    let log = LogSink::open(args.log.as_deref());

    let mut report = run_workers(&args, "C18", |w, n, rng, report| {
        // bounded-exhaustive block
        for len in 1..=exh_len {
            let mut j = 0u64;
            enumerate(alpha, len, w as u64, n as u64, |pts| {
                for path in PATHS {
                    // log the short exhaustive curves up to length 5 (they carry the tie cases)
                    let do_log = log.enabled() && len <= 5;
                    execute(path, "exhaustive", pts, &format!("x{len}-{w}-{j}-{}", path.name()), report, do_log.then_some(&log));
                }
                j += 1;
            });
        }
        // random block
        let mine = Args::share(n_curves, w, n);
        for i in 0..mine {
            let global = i * n as u64 + w as u64;
            let class = CLASSES[(global % CLASSES.len() as u64) as usize];
            let len = length(rng, max_len);
            let pts = curve(rng, class, len);
            let direct = if rng.bool() { Path::Direct } else { Path::DirectInit };
            let asset = if rng.bool() { Path::AssetInit } else { Path::AssetDefault };
            let do_log = log.enabled() && global % log_stride == 0;
            for path in [direct, asset, Path::Position] {
                execute(path, class, &pts, &format!("r{w}-{i}-{}", path.name()), report, do_log.then_some(&log));
            }
            if i % 3 == 0 {
                execute(Path::SummaryAssets, class, &pts, &format!("r{w}-{i}-summary"), report, None);
            }
            if i % 3 == 1 {
                execute(Path::AssetInterimReports, class, &pts, &format!("r{w}-{i}-asset-interim"), report, None);
                execute(Path::PositionInterimReports, class, &pts, &format!("r{w}-{i}-position-interim"), report, None);
            }
            // the same curve with every second point stamped by a venue whose clock lags 90 s (never logged
            // for the offline oracle, which assumes arrival order = time order)
            if i % 4 == 0 {
                let skewed: Vec<Point> = pts.iter().enumerate().map(|(k, p)| Point { t: p.t - if k % 2 == 1 { 90_000 } else { 0 }, ..p.clone() }).collect();
                if skewed.windows(2).any(|w| w[0].t > w[1].t) {
                    execute(Path::PositionUnordered, class, &skewed, &format!("r{w}-{i}-unordered"), report, None);
                }
            }
        }
    });
    log.flush();

    report.exhaustive_blocks.push(format!(
        "all curves of 1..={exh_len} points over the values 1..={alpha} (10 ms apart), each through all 5 entry-point variants"
    ));
    for p in PATHS {
        report.require(&format!("path:{}", p.name()));
    }
    if !small {
        report.require("path:position_unordered_times");
        report.require("path:summary_with_a_second_asset_running_ahead");
        report.require("path:asset_with_interim_reports");
        report.require("path:position_with_interim_reports");
        report.require("interim_report:decline_in_progress");
        report.require("interim_report:no_decline_in_progress");
        report.require("lifecycle:reset_starts_a_new_session");
    }
    for c in CLASSES {
        report.require(&format!("class:{c}"));
    }
    for cell in [
        "event:recovery_above_peak_ends_drawdown",
        "event:new_peak_without_decline",
        "event:recovery_exactly_to_peak",
        "event:plateau_at_peak",
        "event:deeper_trough",
        "event:partial_recovery_or_equal_trough",
        "event:first_decline_from_peak",
        "input:equal_consecutive_values",
        "final:open_drawdown",
        "final:no_open_drawdown",
        "final:nothing_reported",
        "final:something_reported",
    ] {
        report.require(cell);
    }
    if !small {
        for cell in [
            "input:equal_timestamp",
            "input:negative_value",
            "agg:mean_of_two_or_more",
            "agg:max_replaced",
            "agg:max_kept",
            "agg:max_tie",
            "final:open_drawdown_is_the_max",
        ] {
            report.require(cell);
        }
    }
    std::process::exit(report.finish(args.out.as_deref()));
}
