//! C08 — the simulated exchange keeps a consistent ledger of balances, orders and fills.
//!
//! Driver 1 (direct): the real `MockExchange::open_order` (public) is called with sequences of
//! 1-100 requests over 3 spot instruments sharing assets (side, price, quantity, Market/Limit,
//! known/unknown instrument, initial balances from nearly empty to ample, fee 0 / 0.1% / 10%,
//! amounts straddling the acceptance boundary by one ulp). After EVERY request an independent ledger
//! decides accept/reject, the debited asset and amount, untouched balances, non-negativity, the fill
//! (one per accepted order, fresh id, fee = pct), the notifications returned, and
//! `account_snapshot()`.
//! Driver 2 (client): the same requests go through the real `MockExecution` client and
//! `MockExchange::run()` on a paused-clock runtime with latency; observed: the oneshot responses,
//! the broadcast account stream (exactly one balance + one trade notification per accepted order,
//! none for a rejected one, in order), `account_snapshot`, `fetch_balances`, `fetch_trades`.
//!
//! distinct non-trivial rule: >= 3 requests with at least one accepted and one rejected order;
//! distinct = hash of (config, requests).

use barter_execution::{
    AccountEventKind, UnindexedAccountEvent, UnindexedAccountSnapshot,
    balance::{AssetBalance, Balance},
    client::{
        ExecutionClient,
        mock::{MockExecution, MockExecutionClientConfig, MockExecutionConfig},
    },
    exchange::mock::MockExchange,
    order::{
        OrderKey, OrderKind, TimeInForce,
        id::{ClientOrderId, StrategyId},
        request::{OrderRequestOpen, RequestOpen},
    },
};
use barter_instrument::{
    Side, Underlying,
    asset::name::AssetNameExchange,
    exchange::ExchangeId,
    instrument::{Instrument, name::InstrumentNameExchange},
};
use fnv::FnvHashMap;
use futures::StreamExt;
use rust_decimal::Decimal;
use serde::{Deserialize, Serialize};
use serde_json::{Value, json};
use std::{
    collections::{BTreeMap, HashSet},
    str::FromStr,
    sync::{
        Arc,
        atomic::{AtomicI64, Ordering},
    },
    time::Duration,
};
use tokio::sync::{broadcast, mpsc};
use vharness::{Args, Report, Rng, catch, fixtures, fnv1a, run_workers, shrink};

const ASSETS: [&str; 3] = ["btc", "eth", "usdt"];
// (name, base, quote)
// the fourth is a DERIVATIVE (perpetual, contract size 10) on the same underlying as the first: the statement's
// arithmetic (price x quantity plus fees in the quote asset, quantity plus fees in the base asset) is the same
const INSTRUMENTS: [(&str, &str, &str); 4] = [("BTCUSDT", "btc", "usdt"), ("ETHUSDT", "eth", "usdt"), ("ETHBTC", "eth", "btc"), ("BTCUSDT-PERP", "btc", "usdt")];

#[derive(Debug, Clone, Serialize, Deserialize, PartialEq)]
struct Req {
    instr: String, // exchange name (may be unknown)
    buy: bool,
    p: String,
    q: String,
    market: bool,
}

#[derive(Debug, Clone, Serialize, Deserialize, PartialEq)]
struct Case {
    balances: Vec<String>, // per ASSETS
    fee: String,
    latency_ms: u64,
    reqs: Vec<Req>,
    #[serde(default)]
    clock_steps_back: bool,
    /// client driver only: some callers stop waiting for the order response before the exchange's latency
    /// has elapsed (a request timeout, as `ExecutionManager` applies one) - the order still reached the venue
    #[serde(default)]
    impatient: bool,
    /// client driver only: some requests are placed in BURSTS of 2-4 (all sent before any response is
    /// awaited, as an engine sends a batch of orders generated from one event)
    #[serde(default)]
    burst: bool,
}

fn d(s: &str) -> Decimal {
    Decimal::from_str(s).unwrap()
}

fn mock_instruments() -> FnvHashMap<InstrumentNameExchange, Instrument<ExchangeId, AssetNameExchange>> {
    INSTRUMENTS
        .iter()
        .map(|(name, base, quote)| {
            let mut instrument = Instrument::spot(
                ExchangeId::Mock,
                format!("mock-{}", name.to_lowercase()),
                *name,
                Underlying::new(AssetNameExchange::from(*base), AssetNameExchange::from(*quote)),
                None,
            );
            if name.ends_with("-PERP") {
                instrument.kind = barter_instrument::instrument::kind::InstrumentKind::Perpetual(barter_instrument::instrument::kind::perpetual::PerpetualContract {
                    contract_size: Decimal::from(10),
                    settlement_asset: AssetNameExchange::from(*quote),
                });
            }
            (InstrumentNameExchange::from(*name), instrument)
        })
        .collect()
}

fn config(case: &Case) -> MockExecutionConfig {
    MockExecutionConfig {
        mocked_exchange: ExchangeId::Mock,
        initial_state: UnindexedAccountSnapshot {
            exchange: ExchangeId::Mock,
            balances: ASSETS
                .iter()
                .zip(case.balances.iter())
                .map(|(a, b)| AssetBalance { asset: AssetNameExchange::from(*a), balance: Balance::new(d(b), d(b)), time_exchange: fixtures::t0() })
                .collect(),
            instruments: vec![],
        },
        latency_ms: case.latency_ms,
        fees_percent: d(&case.fee),
    }
}

fn request(r: &Req, n: usize) -> OrderRequestOpen<ExchangeId, InstrumentNameExchange> {
    OrderRequestOpen {
        key: OrderKey {
            exchange: ExchangeId::Mock,
            instrument: InstrumentNameExchange::from(r.instr.as_str()),
            strategy: StrategyId::new("s"),
            cid: ClientOrderId::new(format!("cid{n}")),
        },
        state: RequestOpen {
            side: if r.buy { Side::Buy } else { Side::Sell },
            price: d(&r.p),
            quantity: d(&r.q),
            kind: if r.market { OrderKind::Market } else { OrderKind::Limit },
            time_in_force: TimeInForce::ImmediateOrCancel,
        },
    }
}

/// Independent ledger written from the property statement.
#[derive(Clone)]
struct Ledger {
    bal: BTreeMap<String, Decimal>,
    fee: Decimal,
    accepted: Vec<(usize, Decimal)>, // (request index, fee value in quote)
}

enum Decision {
    Reject(&'static str),
    Accept { asset: String, amount: Decimal, fee_quote: Decimal },
}

impl Ledger {
    fn decide(&self, r: &Req) -> Decision {
        if !r.market {
            return Decision::Reject("unsupported_kind");
        }
        let Some((_, base, quote)) = INSTRUMENTS.iter().find(|(n, _, _)| *n == r.instr) else {
            return Decision::Reject("unknown_instrument");
        };
        let (p, q) = (d(&r.p), d(&r.q));
        let (asset, amount) = if r.buy { (quote.to_string(), p * q * (Decimal::ONE + self.fee)) } else { (base.to_string(), q * (Decimal::ONE + self.fee)) };
        if self.bal[&asset] >= amount { Decision::Accept { asset, amount, fee_quote: p * q * self.fee } } else { Decision::Reject("insufficient_balance") }
    }
}

type V = (&'static str, String);

struct Outcome {
    steps: u64,
    checks: u64,
    cells: Vec<String>,
    accepted: usize,
    rejected: usize,
}

fn snapshot_balances(snap: &UnindexedAccountSnapshot) -> BTreeMap<String, Decimal> {
    snap.balances.iter().map(|b| (b.asset.name().to_string(), b.balance.total)).collect()
}

fn run_direct(case: &Case) -> Result<Outcome, V> {
    let (_req_tx, req_rx) = mpsc::unbounded_channel();
    let (event_tx, _event_rx) = broadcast::channel::<UnindexedAccountEvent>(64);
    let mut ex = MockExchange::new(config(case), req_rx, event_tx, mock_instruments());
    let mut led = Ledger { bal: ASSETS.iter().zip(case.balances.iter()).map(|(a, b)| (a.to_string(), d(b))).collect(), fee: d(&case.fee), accepted: vec![] };
    let mut ids: HashSet<String> = HashSet::new();
    let mut out = Outcome { steps: 0, checks: 0, cells: vec![], accepted: 0, rejected: 0 };

    for (n, r) in case.reqs.iter().enumerate() {
        let before = snapshot_balances(&ex.account_snapshot());
        let (resp, notes) = catch(|| ex.open_order(request(r, n))).map_err(|m| ("panic_in_mock_exchange_open_order", format!("request #{n} {r:?}: {m}")))?;
        out.steps += 1;
        let after = snapshot_balances(&ex.account_snapshot());
        let decision = led.decide(r);
        out.checks += 1;
        match (&decision, &resp.state) {
            (Decision::Reject(why), Err(_)) => {
                out.rejected += 1;
                out.cells.push(format!("reject:{why}"));
                out.checks += 2;
                if before != after {
                    return Err(("balances_changed_on_rejection", format!("request #{n} {r:?}: {before:?} -> {after:?}")));
                }
                if notes.is_some() {
                    return Err(("notification_for_rejected_order", format!("request #{n} {r:?}")));
                }
            }
            (Decision::Reject(why), Ok(open)) => {
                return Err(("order_accepted_that_must_be_rejected", format!("request #{n} {r:?} ({why}; balances {before:?}, fee {}): accepted as {open:?}", led.fee)));
            }
            (Decision::Accept { asset, amount, .. }, Err(e)) => {
                return Err(("order_rejected_although_spent_asset_suffices", format!("request #{n} {r:?}: holds {} {asset}, needs {amount}, rejected with {e:?}", led.bal[asset])));
            }
            (Decision::Accept { asset, amount, fee_quote }, Ok(open)) => {
                out.accepted += 1;
                out.cells.push(format!("accept:{}", if r.buy { "buy" } else { "sell" }));
                if d(&r.q).is_zero() {
                    out.cells.push("accept:order_for_zero_quantity".into());
                }
                if led.bal[asset] == *amount {
                    out.cells.push(format!("accept:{}_exactly_at_boundary", if r.buy { "buy" } else { "sell" }));
                }
                *led.bal.get_mut(asset).unwrap() -= *amount;
                led.accepted.push((n, *fee_quote));
                out.checks += 6;
                // debit exactly that asset by exactly that amount, nothing else moves
                if after != led.bal {
                    let moved: Vec<String> = ASSETS.iter().filter(|a| before[**a] != after[**a]).map(|a| format!("{a}: {} -> {}", before[*a], after[*a])).collect();
                    return Err((
                        "wrong_asset_or_amount_debited",
                        format!("request #{n} {r:?}: must debit {amount} {asset}; observed changes [{}]", moved.join(", ")),
                    ));
                }
                if after.values().any(|b| b.is_sign_negative()) {
                    return Err(("balance_went_negative", format!("request #{n}: {after:?}")));
                }
                if open.filled_quantity != d(&r.q) {
                    return Err(("accepted_order_not_fully_filled", format!("request #{n}: filled {} of {}", open.filled_quantity, r.q)));
                }
                if !ids.insert(open.id.0.to_string()) {
                    return Err(("order_id_reused", format!("request #{n}: id {}", open.id.0)));
                }
                let Some(notes) = notes else {
                    return Err(("no_notification_for_accepted_order", format!("request #{n} {r:?}")));
                };
                let tr = &notes.trade;
                if tr.fees.fees != *fee_quote || tr.price != d(&r.p) || tr.quantity != d(&r.q) || tr.side != (if r.buy { Side::Buy } else { Side::Sell }) || tr.instrument.name().as_str() != r.instr || tr.order_id != open.id {
                    return Err(("fill_notification_differs_from_order", format!("request #{n} {r:?}: trade {tr:?}, expected fee {fee_quote}")));
                }
                if tr.id.0 != open.id.0 {
                    return Err(("trade_id_not_fresh_order_id", format!("request #{n}: trade id {} order id {}", tr.id.0, open.id.0)));
                }
                let b = &notes.balance.0;
                if b.asset.name().as_str() != asset.as_str() || b.balance.total != led.bal[asset] || b.balance.free != led.bal[asset] {
                    return Err(("balance_notification_differs_from_ledger", format!("request #{n} {r:?}: notified {b:?}, ledger {} {asset}", led.bal[asset])));
                }
            }
        }
    }
    Ok(out)
}

fn absorb(ev: UnindexedAccountEvent, got: &mut Vec<(String, String)>, trade_times: &mut Vec<(String, chrono::DateTime<chrono::Utc>)>) {
    match ev.kind {
        AccountEventKind::BalanceSnapshot(b) => got.push(("balance".into(), format!("{}={}", b.0.asset.name(), b.0.balance.total))),
        AccountEventKind::Trade(t) => {
            trade_times.push((t.id.0.to_string(), t.time_exchange));
            got.push(("trade".into(), format!("{}:{}:{}", "cid?", t.order_id.0, t.fees.fees.normalize())))
        }
        other => got.push(("other".into(), format!("{other:?}"))),
    }
}

/// Driver 2: through the client and the running exchange task, under virtual time.
fn run_client(case: &Case) -> Result<Outcome, V> {
    let rt = tokio::runtime::Builder::new_current_thread().enable_time().start_paused(true).build().expect("runtime");
    rt.block_on(async {
        let (req_tx, req_rx) = mpsc::unbounded_channel();
        let (event_tx, event_rx) = broadcast::channel::<UnindexedAccountEvent>(1024);
        let exchange = MockExchange::new(config(case), req_rx, event_tx, mock_instruments());
        let handle = tokio::spawn(exchange.run());
        // client-side request clock: advances by 7 ms per call, but (as with several clients or a clock
        // that is stepped back) it sometimes jumps backwards - request times are client supplied
        let clock_ms = Arc::new(AtomicI64::new(10_000));
        let skew = case.clock_steps_back;
        let clock = {
            let c = clock_ms.clone();
            move || {
                let n = c.fetch_add(7, Ordering::Relaxed);
                let back = if skew && (n / 7) % 5 == 3 { 40 + (n % 13) } else { 0 };
                fixtures::t(n - back)
            }
        };
        let client = <MockExecution<_> as ExecutionClient>::new(MockExecutionClientConfig { mocked_exchange: ExchangeId::Mock, clock, request_tx: req_tx, event_rx });
        let mut stream = client.account_stream(&[], &[]).await.map_err(|e| ("client_account_stream_failed", format!("{e:?}")))?;

        let mut led = Ledger { bal: ASSETS.iter().zip(case.balances.iter()).map(|(a, b)| (a.to_string(), d(b))).collect(), fee: d(&case.fee), accepted: vec![] };
        let mut out = Outcome { steps: 0, checks: 0, cells: vec!["client_driver".into()], accepted: 0, rejected: 0 };
        let mut expected_events: Vec<(String, String)> = vec![]; // (kind, key)
        let mut ids: HashSet<String> = HashSet::new();
        let wait = Duration::from_millis(case.latency_ms * 4 + 1000);

        // bursts: chunk sizes cycle 3,1,2,4,1 over the request list
        let mut burst_of: Vec<usize> = vec![0; case.reqs.len()]; // 0 = on its own, k = member of a burst starting at k-1
        if case.burst {
            let (mut at, mut c) = (0usize, 0usize);
            while at < case.reqs.len() {
                let size = [3usize, 1, 2, 4, 1][c % 5].min(case.reqs.len() - at);
                if size > 1 {
                    for slot in burst_of.iter_mut().skip(at).take(size) {
                        *slot = at + 1;
                    }
                }
                at += size;
                c += 1;
            }
        }
        let mut in_burst = false;
        let mut got: Vec<(String, String)> = vec![];
        let mut trade_times: Vec<(String, chrono::DateTime<chrono::Utc>)> = vec![];
        for (n, r) in case.reqs.iter().enumerate() {
            // a listener reads its stream as it goes (the account broadcast holds 1024 items): take what is there
            // (every 32 requests = 64 notifications: tokio's cooperative budget ends a task's run of ready polls
            // after 128, so a longer drain would stop early and fall behind by one item per round)
            if n % 32 == 0 {
                while let Some(Some(ev)) = futures::FutureExt::now_or_never(stream.next()) {
                    out.steps += 1;
                    absorb(ev, &mut got, &mut trade_times);
                }
            }
            if burst_of[n] != 0 {
                if burst_of[n] != n + 1 {
                    continue; // handled with the head of its burst
                }
                let members: Vec<usize> = (n..case.reqs.len()).take_while(|m| burst_of[*m] == n + 1).collect();
                let owned: Vec<_> = members.iter().map(|m| request(&case.reqs[*m], *m)).collect();
                let calls = owned.iter().map(|req| {
                    client.open_order(OrderRequestOpen {
                        key: OrderKey { exchange: req.key.exchange, instrument: &req.key.instrument, strategy: req.key.strategy.clone(), cid: req.key.cid.clone() },
                        state: req.state.clone(),
                    })
                });
                let responses = match tokio::time::timeout(wait, futures::future::join_all(calls)).await {
                    Ok(r) => r,
                    Err(_) => return Err(("no_response_from_mock_exchange", format!("burst of requests #{members:?}"))),
                };
                in_burst = true;
                out.cells.push("burst_of_orders_sent_before_any_response_was_awaited".into());
                let spent_assets: HashSet<String> = members.iter().filter_map(|m| match led.decide(&case.reqs[*m]) { Decision::Accept { asset, .. } => Some(asset), _ => None }).collect();
                let mut accepted_in_burst = 0;
                for (m, resp) in members.iter().zip(responses.iter()) {
                    let r = &case.reqs[*m];
                    out.steps += 1;
                    out.checks += 1;
                    let decision = led.decide(r);
                    match (&decision, &resp.state) {
                        (Decision::Reject(_), Err(_)) => out.rejected += 1,
                        (Decision::Accept { asset, amount, fee_quote }, Ok(open)) => {
                            out.accepted += 1;
                            accepted_in_burst += 1;
                            *led.bal.get_mut(asset).unwrap() -= *amount;
                            led.accepted.push((*m, *fee_quote));
                            if !ids.insert(open.id.0.to_string()) {
                                return Err(("order_id_reused", format!("request #{m}: id {}", open.id.0)));
                            }
                            expected_events.push(("balance".into(), format!("{asset}={}", led.bal[asset])));
                            expected_events.push(("trade".into(), format!("cid{m}:{}:{}", open.id.0, fee_quote.normalize())));
                        }
                        (Decision::Reject(why), Ok(open)) => return Err(("order_accepted_that_must_be_rejected", format!("request #{m} (in a burst) {r:?} ({why}): {open:?}"))),
                        (Decision::Accept { asset, amount, .. }, Err(e)) => {
                            return Err(("order_rejected_although_spent_asset_suffices", format!("request #{m} (in a burst) {r:?}: holds {} {asset}, needs {amount}: {e:?}", led.bal[asset])));
                        }
                    }
                }
                if accepted_in_burst >= 2 && spent_assets.len() < accepted_in_burst {
                    out.cells.push("burst_with_several_accepted_orders_spending_one_asset".into());
                }
                continue;
            }
            let req = request(r, n);
            let req_ref = OrderRequestOpen {
                key: OrderKey { exchange: req.key.exchange, instrument: &req.key.instrument, strategy: req.key.strategy.clone(), cid: req.key.cid.clone() },
                state: req.state.clone(),
            };
            if case.impatient && n % 7 == 5 {
                // the caller ABANDONS the request right after handing it over (its future is polled once and dropped:
                // a cancelled task, a select! that chose another branch) - before the exchange has even looked at it.
                // The order reached the venue all the same.
                let mut fut = Box::pin(client.open_order(req_ref));
                let polled = futures::poll!(fut.as_mut());
                drop(fut);
                out.steps += 1;
                if polled.is_ready() {
                    return Err(("HARNESS_abandoned_request_answered_at_once", format!("request #{n}")));
                }
                out.cells.push("request_abandoned_before_the_exchange_processed_it".into());
                if let Decision::Accept { asset, amount, fee_quote } = led.decide(r) {
                    out.accepted += 1;
                    *led.bal.get_mut(&asset).unwrap() -= amount;
                    led.accepted.push((n, fee_quote));
                    expected_events.push(("balance".into(), format!("{asset}={}", led.bal[&asset])));
                    expected_events.push(("trade".into(), format!("cid{n}:*:{}", fee_quote.normalize())));
                    out.cells.push("accepted_order_whose_response_nobody_awaited".into());
                } else {
                    out.rejected += 1;
                }
                continue;
            }
            if case.impatient && case.latency_ms >= 2 && n % 3 == 1 {
                // the caller gives up half-way through the exchange's latency and drops the response future
                let gave_up = tokio::time::timeout(Duration::from_millis(case.latency_ms / 2), client.open_order(req_ref)).await.is_err();
                out.steps += 1;
                if gave_up {
                    out.cells.push("caller_stopped_waiting_for_the_response".into());
                    if let Decision::Accept { asset, amount, fee_quote } = led.decide(r) {
                        out.accepted += 1;
                        *led.bal.get_mut(&asset).unwrap() -= amount;
                        led.accepted.push((n, fee_quote));
                        expected_events.push(("balance".into(), format!("{asset}={}", led.bal[&asset])));
                        expected_events.push(("trade".into(), format!("cid{n}:*:{}", fee_quote.normalize())));
                        out.cells.push("accepted_order_whose_response_nobody_awaited".into());
                    } else {
                        out.rejected += 1;
                    }
                    continue;
                }
                return Err(("HARNESS_impatient_caller_got_a_response_before_the_latency", format!("request #{n}")));
            }
            let resp = match tokio::time::timeout(wait, client.open_order(req_ref)).await {
                Ok(r) => r,
                Err(_) => return Err(("no_response_from_mock_exchange", format!("request #{n} {r:?}"))),
            };
            out.steps += 1;
            out.checks += 1;
            let decision = led.decide(r);
            match (&decision, &resp.state) {
                (Decision::Reject(_), Err(_)) => out.rejected += 1,
                (Decision::Accept { asset, amount, fee_quote }, Ok(open)) => {
                    out.accepted += 1;
                    *led.bal.get_mut(asset).unwrap() -= *amount;
                    led.accepted.push((n, *fee_quote));
                    if !ids.insert(open.id.0.to_string()) {
                        return Err(("order_id_reused", format!("request #{n}: id {}", open.id.0)));
                    }
                    expected_events.push(("balance".into(), format!("{asset}={}", led.bal[asset])));
                    expected_events.push(("trade".into(), format!("cid{n}:{}:{}", open.id.0, fee_quote.normalize())));
                }
                (Decision::Reject(why), Ok(open)) => return Err(("order_accepted_that_must_be_rejected", format!("request #{n} {r:?} ({why}): {open:?}"))),
                (Decision::Accept { asset, amount, .. }, Err(e)) => {
                    return Err(("order_rejected_although_spent_asset_suffices", format!("request #{n} {r:?}: holds {} {asset}, needs {amount}: {e:?}", led.bal[asset])));
                }
            }
        }
        // drain the account stream: everything arrives within `wait` of virtual time after the last response
        loop {
            match tokio::time::timeout(wait, stream.next()).await {
                Ok(Some(ev)) => {
                    out.steps += 1;
                    absorb(ev, &mut got, &mut trade_times);
                }
                Ok(None) | Err(_) => break,
            }
        }
        out.checks += 1;
        let norm = |v: &[(String, String)]| -> Vec<String> {
            v.iter().map(|(k, s)| if k == "trade" { format!("trade:{}", s.splitn(2, ':').nth(1).unwrap_or("")) } else { format!("{k}:{s}") }).collect()
        };
        let same = |g: &[String], w: &[String]| g.len() == w.len() && g.iter().zip(w.iter()).all(|(a, b)| a == b || (b.starts_with("trade:*:") && a.starts_with("trade:") && a.rsplit(':').next() == b.rsplit(':').next()));
        // the notifications of the orders of one burst are due at the same instant: their mutual order is not
        // part of the statement, so a run with bursts is compared as a multiset (one balance + one trade per
        // accepted order, none else), a run without as the exact sequence
        let (mut g, mut w) = (norm(&got), norm(&expected_events));
        if in_burst {
            let star = |v: &mut Vec<String>| {
                for x in v.iter_mut() {
                    if x.starts_with("trade:") {
                        *x = format!("trade:*:{}", x.rsplit(':').next().unwrap_or(""));
                    }
                }
                v.sort();
            };
            star(&mut g);
            star(&mut w);
        }
        if !same(&g, &w) {
            return Err(("account_stream_notifications_differ_from_accepted_orders", format!("expected {:?} observed {:?}", norm(&expected_events), norm(&got))));
        }
        // queries reflect exactly the accepted orders
        out.checks += 3;
        let snap = tokio::time::timeout(wait, client.account_snapshot(&[], &[])).await.map_err(|_| ("no_response_from_mock_exchange", "account_snapshot".to_string()))?.map_err(|e| ("client_query_failed", format!("{e:?}")))?;
        if snapshot_balances(&snap) != led.bal {
            return Err(("account_snapshot_differs_from_ledger", format!("snapshot {:?} ledger {:?}", snapshot_balances(&snap), led.bal)));
        }
        let bals = tokio::time::timeout(wait, client.fetch_balances()).await.map_err(|_| ("no_response_from_mock_exchange", "fetch_balances".to_string()))?.map_err(|e| ("client_query_failed", format!("{e:?}")))?;
        let bals: BTreeMap<String, Decimal> = bals.iter().map(|b| (b.asset.name().to_string(), b.balance.total)).collect();
        if bals != led.bal {
            return Err(("fetch_balances_differs_from_ledger", format!("{bals:?} vs {:?}", led.bal)));
        }
        let trades = tokio::time::timeout(wait, client.fetch_trades(fixtures::t0())).await.map_err(|_| ("no_response_from_mock_exchange", "fetch_trades".to_string()))?.map_err(|e| ("client_query_failed", format!("{e:?}")))?;
        let got_fees: Vec<Decimal> = trades.iter().map(|t| t.fees.fees.normalize()).collect();
        let want_fees: Vec<Decimal> = led.accepted.iter().map(|(_, f)| f.normalize()).collect();
        if trades.len() != led.accepted.len() || got_fees != want_fees || trades.iter().map(|t| t.id.0.to_string()).collect::<HashSet<_>>().len() != trades.len() {
            return Err(("trade_query_differs_from_accepted_orders", format!("{} trades (fees {got_fees:?}) vs {} accepted (fees {want_fees:?})", trades.len(), led.accepted.len())));
        }
        // time-bounded trade queries: exactly the accepted fills whose exchange time is >= the bound
        let mut bounds: Vec<chrono::DateTime<chrono::Utc>> = vec![];
        for (_, tt) in trade_times.iter().take(6) {
            for d in [-1i64, 0, 1] {
                bounds.push(*tt + chrono::TimeDelta::milliseconds(d));
            }
        }
        for since in bounds {
            out.checks += 1;
            let got = tokio::time::timeout(wait, client.fetch_trades(since)).await.map_err(|_| ("no_response_from_mock_exchange", "fetch_trades".to_string()))?.map_err(|e| ("client_query_failed", format!("{e:?}")))?;
            let mut got_ids: Vec<String> = got.iter().map(|t| t.id.0.to_string()).collect();
            let mut want_ids: Vec<String> = trade_times.iter().filter(|(_, tt)| *tt >= since).map(|(id, _)| id.clone()).collect();
            got_ids.sort();
            want_ids.sort();
            if got_ids != want_ids {
                return Err(("time_bounded_trade_query_differs_from_accepted_orders", format!("fetch_trades(since={since}): returned ids {got_ids:?}, accepted fills at or after that time {want_ids:?} (fill times {:?})", trade_times)));
            }
            if case.clock_steps_back {
                out.cells.push("trade_query_with_non_monotone_request_times".into());
            }
        }
        // parting order: the caller places one more order, stops waiting for its response and DISCONNECTS (drops its
        // request handle) while the exchange's latency is still running; whoever still listens to the account
        // stream must see the accepted order announced all the same
        if case.impatient && case.latency_ms >= 2 && !case.reqs.is_empty() {
            let n = case.reqs.len();
            let r = &case.reqs[n / 2];
            let req = request(r, n + 1000);
            let req_ref = OrderRequestOpen {
                key: OrderKey { exchange: req.key.exchange, instrument: &req.key.instrument, strategy: req.key.strategy.clone(), cid: req.key.cid.clone() },
                state: req.state.clone(),
            };
            let gave_up = tokio::time::timeout(Duration::from_millis(case.latency_ms / 2), client.open_order(req_ref)).await.is_err();
            let decision = led.decide(r);
            drop(client);
            out.steps += 1;
            if gave_up {
                let mut want: Vec<String> = vec![];
                if let Decision::Accept { asset, amount, fee_quote } = decision {
                    *led.bal.get_mut(&asset).unwrap() -= amount;
                    want.push(format!("balance:{asset}={}", led.bal[&asset]));
                    want.push(format!("trade:{}", fee_quote.normalize()));
                    out.cells.push("caller_disconnected_before_the_latency_of_its_last_accepted_order_elapsed".into());
                }
                let mut got: Vec<String> = vec![];
                loop {
                    match tokio::time::timeout(wait, stream.next()).await {
                        Ok(Some(ev)) => match ev.kind {
                            AccountEventKind::BalanceSnapshot(b) => got.push(format!("balance:{}={}", b.0.asset.name(), b.0.balance.total)),
                            AccountEventKind::Trade(t) => got.push(format!("trade:{}", t.fees.fees.normalize())),
                            other => got.push(format!("other:{other:?}")),
                        },
                        Ok(None) | Err(_) => break,
                    }
                }
                out.checks += 1;
                if got != want {
                    return Err(("account_stream_notifications_differ_from_accepted_orders", format!("parting order {r:?} placed right before the caller disconnected: expected {want:?} observed {got:?}")));
                }
            }
            drop(stream);
            let _ = tokio::time::timeout(Duration::from_secs(60), handle).await;
            return Ok(out);
        }
        drop(client);
        drop(stream);
        handle.abort();
        Ok(out)
    })
}

fn gen_case(rng: &mut Rng) -> Case {
    let rich = rng.below(3);
    let balances: Vec<String> = ASSETS
        .iter()
        .map(|a| {
            let b = match rich {
                0 => rng.decimal(0, 50, 2),
                1 => rng.decimal(0, 500_000, 2),
                _ => rng.decimal(0, 100_000_000, 2),
            };
            // btc/eth balances smaller than usdt ones
            if *a == "usdt" { b.to_string() } else { (b / Decimal::from(100)).round_dp(4).to_string() }
        })
        .collect();
    let fee = ["0", "0.001", "0.1"][rng.usize_below(3)].to_string();
    let n = rng.range_u(1, 100);
    let mut bal: BTreeMap<String, Decimal> = ASSETS.iter().zip(balances.iter()).map(|(a, b)| (a.to_string(), d(b))).collect();
    let f = d(&fee);
    let mut reqs = Vec::with_capacity(n);
    for _ in 0..n {
        let known = !rng.chance(1, 15);
        let (name, base, quote) = *rng.pick(&INSTRUMENTS);
        let instr = if known { name.to_string() } else { ["XRPUSDT", "btcusdt", "BTCUSD"][rng.usize_below(3)].to_string() };
        let buy = rng.bool();
        let market = !rng.chance(1, 12);
        let p = rng.decimal(1, 500_000, 2);
        let mut q = rng.decimal(1, 50_000, 4);
        // straddle the acceptance boundary: spend (almost) exactly what is there
        let spent = if buy { quote } else { base };
        let have = bal[spent];
        match rng.below(8) {
            0 | 1 | 2 if have > Decimal::ZERO => {
                // quantity such that required is just at / below / above the balance
                let unit = if buy { p * (Decimal::ONE + f) } else { Decimal::ONE + f };
                let exact = (have / unit).round_dp_with_strategy(8, rust_decimal::RoundingStrategy::ToZero);
                let ulp = Decimal::new(1, 8);
                q = match rng.below(3) {
                    0 => exact,
                    1 => exact + ulp,
                    _ => (exact - ulp).max(ulp),
                };
                if q.is_zero() {
                    q = ulp;
                }
            }
            _ => {}
        }
        // an order for nothing spends nothing: affordable on any account, even an empty one
        let zero_q = rng.chance(1, 25);
        if zero_q {
            q = Decimal::new(0, *rng.pick(&[0u32, 4]));
        }
        let r = Req { instr: instr.clone(), buy, p: p.to_string(), q: if zero_q { q.to_string() } else { q.normalize().to_string() }, market };
        // track the model balance so that later boundary requests are meaningful
        if market && known {
            let need = if buy { p * q * (Decimal::ONE + f) } else { q * (Decimal::ONE + f) };
            if bal[spent] >= need {
                *bal.get_mut(spent).unwrap() -= need;
            }
        }
        reqs.push(r);
    }
    let mut balances = balances;
    // every 4th case: the very first request spends EXACTLY the whole balance of the spent asset
    if rng.chance(1, 4) {
        if let Some(r0) = reqs.first() {
            if let Some((_, base, quote)) = INSTRUMENTS.iter().find(|(n, _, _)| *n == r0.instr) {
                let (p, q) = (d(&r0.p), d(&r0.q));
                let (asset, need) = if r0.buy { (*quote, p * q * (Decimal::ONE + f)) } else { (*base, q * (Decimal::ONE + f)) };
                let idx = ASSETS.iter().position(|a| *a == asset).unwrap();
                balances[idx] = need.normalize().to_string();
            }
        }
    }
    Case { balances, fee, latency_ms: *rng.pick(&[0u64, 1, 10, 250]), reqs, clock_steps_back: rng.bool(), impatient: rng.chance(1, 3), burst: rng.chance(1, 3) }
}

fn execute(case: &Case, client: bool, report: &mut Report) {
    let run = |c: &Case| if client { run_client(c) } else { run_direct(c) };
    let h = fnv1a(format!("{client}{case:?}").as_bytes());
    match run(case) {
        Ok(out) => {
            report.events_observed += out.steps;
            report.oracle_checks += out.checks;
            for c in &out.cells {
                report.cover(c);
            }
            report.cover(if client { "driver:client" } else { "driver:direct" });
            let nontrivial = case.reqs.len() >= 3 && out.accepted >= 1 && out.rejected >= 1;
            report.case(h, nontrivial);
            if nontrivial && case.reqs.len() <= 6 {
                report.sample(|| json!({"client": client, "case": case}));
            }
        }
        Err((sig, detail)) if sig.starts_with("HARNESS_") => report.harness_errors.push(format!("{sig}: {detail}")),
        Err((sig, detail)) => {
            report.case(h, true);
            let small_reqs = shrink(&case.reqs, |cand| {
                let c = Case { reqs: cand.to_vec(), ..case.clone() };
                matches!(run(&c), Err((s, _)) if s == sig)
            });
            let small = Case { reqs: small_reqs, ..case.clone() };
            let detail = match run(&small) {
                Err((_, dd)) => dd,
                Ok(_) => detail,
            };
            report.violation(sig, detail, json!({"client": client, "case": small}));
        }
    }
}

fn main() {
    let args = Args::parse();
    if let Some(path) = &args.replay {
        let v: Value = serde_json::from_str(&std::fs::read_to_string(path).expect("read replay")).expect("json");
        let case: Case = serde_json::from_value(v["history"]["case"].clone()).expect("case");
        let client = v["history"]["client"].as_bool().unwrap_or(false);
        let mut report = Report::new("C08");
        execute(&case, client, &mut report);
        println!("{}", serde_json::to_string_pretty(&report.to_json()).unwrap());
        std::process::exit(if report.violation_count > 0 { 1 } else { 0 });
    }
    let n_cases = match args.tier.as_str() {
        "miri" => 6,
        "tsan" => 100,
        _ => args.size(8_000, 400_000),
    };
    let mut report = run_workers(&args, "C08", |w, n, rng, report| {
        for i in 0..Args::share(n_cases, w, n) {
            let case = gen_case(rng);
            execute(&case, i % 4 == 3, report);
        }
        // MARATHON: a long session - more than ten thousand accepted orders through the client and the running
        // exchange; every fill is still announced and still returned by the trade queries
        if w == 0 && args.tier != "miri" && args.tier != "tsan" {
            let lengths: &[usize] = if args.tier == "thorough" { &[10_300, 20_500, 66_000] } else { &[10_300] };
            for len in lengths {
                let reqs: Vec<Req> = (0..*len)
                    .map(|k| {
                        let (name, _, _) = INSTRUMENTS[k % INSTRUMENTS.len()];
                        Req { instr: name.to_string(), buy: k % 3 != 0, p: "10".into(), q: "0.001".into(), market: true }
                    })
                    .collect();
                let case = Case { balances: vec!["100000000".into(); ASSETS.len()], fee: "0.001".into(), latency_ms: (*len % 2) as u64, reqs, clock_steps_back: false, impatient: false, burst: false };
                execute(&case, true, report);
                report.cover("marathon:more_than_ten_thousand_accepted_orders");
            }
        }
    });
    if args.tier != "miri" {
        for c in [
            "accept:buy",
            "accept:sell",
            "accept:order_for_zero_quantity",
            "accept:buy_exactly_at_boundary",
            "accept:sell_exactly_at_boundary",
            "reject:unsupported_kind",
            "reject:unknown_instrument",
            "reject:insufficient_balance",
            "driver:client",
            "driver:direct",
            "trade_query_with_non_monotone_request_times",
            "accepted_order_whose_response_nobody_awaited",
            "caller_disconnected_before_the_latency_of_its_last_accepted_order_elapsed",
            "request_abandoned_before_the_exchange_processed_it",
            "burst_of_orders_sent_before_any_response_was_awaited",
            "burst_with_several_accepted_orders_spending_one_asset",
            "marathon:more_than_ten_thousand_accepted_orders",
        ] {
            report.require(c);
        }
    }
    std::process::exit(report.finish(args.out.as_deref()));
}
